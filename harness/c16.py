"""C16 — static files: only contents from inside the document root, exact byte ranges."""
import sys, os, re, atexit, shutil, socket, hashlib
sys.path.insert(0, os.path.dirname(os.path.abspath(__file__)))
import common
from common import Prop, natlit


def nlist(b):
    """str -> Coq term of type list N (a string literal when printable ASCII: much cheaper to parse)"""
    if isinstance(b, str) and all(32 <= ord(ch) < 127 and ch != '"' for ch in b):
        return '(L "%s"%%string)' % b
    return common.nlist(b)


def nlistlist(l):
    return '[%s]' % '; '.join(nlist(x) for x in l)
from urllib.parse import unquote as _std_unquote, quote as _std_quote

from circuits import Manager, BaseComponent, handler
from circuits.net.events import read
from circuits.web.http import HTTP
from circuits.web.headers import Headers
from circuits.web.wrappers import Request, Response
from circuits.web.events import request as request_ev
from circuits.web.dispatchers import static as static_mod
from circuits.web.dispatchers.static import Static
from circuits.web import utils as web_utils
from circuits.web import url as url_mod, http as http_mod, wrappers as wrappers_mod
from circuits.web.exceptions import RangeUnsatisfiable

# ----------------------------------------------------------------------------- file-system layouts

FSBASE = os.path.join(common.BUILD, 'C16', 'fs_%d' % os.getpid())


def pattern(n):
    return bytes((7 * i + 3) % 251 for i in range(n))


RANGE_SIZES = [0, 1, 10, 4096, 100000]

# name -> (docroot relative to the layout dir, {relative path: content}) ; a key ending in '/' is a directory
LAYOUTS = {
    'L0': ('root', {
        'secret.txt': b'MARKER-PARENT-L0',
        'root-extra/s.txt': b'MARKER-SIBLING-L0',
        'root-extra/index.html': b'MARKER-SIBLING-INDEX-L0',
        'rootx': b'MARKER-SIBFILE-L0',
        'root/a.txt': b'0123456789',
        'root/sub/b.txt': b'content-of-b',
        'root/sub/deep/c.txt': b'content-of-c',
        'root/idx/index.html': b'<p>index of idx</p>',
        'root/idx/other.txt': b'other-in-idx',
        'root/idx2/index.xhtml': b'<p>xhtml index</p>',
        'root/dirindex/index.html/': None,
        'root/sp ace.txt': b'content with space in name',
        'root/%2e%2e/x.txt': b'file under a directory literally named %2e%2e',
        'root/.hidden': b'hidden-but-inside',
        'root/b\\c.txt': b'backslash name',
        'root/empty/': None,
    }),
    'L1': ('p/q/root2', {
        'p/secret.txt': b'MARKER-GRANDPARENT-L1',
        'p/q/secret.txt': b'MARKER-PARENT-L1',
        'p/q/root2.bak/s.txt': b'MARKER-SIBLING-L1',
        'p/q/root2.bak/f.bin': b'MARKER-SIBLING-F-L1',
        'p/q/root22/index.html': b'MARKER-SIBLING-IDX-L1',
        'p/q/root2/f.bin': b'\x00\x01\x02binary',
        'p/q/root2/d/index.xhtml': b'<x/>',
        'p/q/root2/d/e/g.txt': b'content-of-g',
        'p/q/root2/secret.txt': b'inside file that is called secret',
    }),
}
for _n in RANGE_SIZES:
    LAYOUTS['L0'][1]['root/r_%d.bin' % _n] = pattern(_n)

MARKER = b'MARKER-'
_made = {}


def layout(name):
    """create (once per process) and describe a layout -> dict(base, root, files{abs: content}, dirs[abs])"""
    if name in _made:
        return _made[name]
    rel_root, entries = LAYOUTS[name]
    base = os.path.join(FSBASE, name)
    if os.path.isdir(base):
        shutil.rmtree(base)
    os.makedirs(base)
    for rel, content in entries.items():
        p = os.path.join(base, rel.rstrip('/'))
        if content is None:
            os.makedirs(p, exist_ok=True)
        else:
            os.makedirs(os.path.dirname(p), exist_ok=True)
            with open(p, 'wb') as f:
                f.write(content)
    files, dirs = {}, []
    for r, ds, fs in os.walk(base):
        dirs.append(r)
        for f in fs:
            with open(os.path.join(r, f), 'rb') as fh:
                files[os.path.join(r, f)] = fh.read()
    d = {'base': base, 'root': os.path.join(base, rel_root), 'files': files, 'dirs': sorted(dirs)}
    _made[name] = d
    return d


@atexit.register
def _cleanup():
    shutil.rmtree(FSBASE, ignore_errors=True)


# ----------------------------------------------------------------------------- observation of the real code

_audit = {'on': False, 'opened': [], 'listed': []}


def _hook(ev, args):
    if not _audit['on']:
        return
    try:
        if ev == 'open' and isinstance(args[0], str) and args[0].startswith(FSBASE):
            _audit['opened'].append(args[0])
        elif ev == 'os.listdir' and isinstance(args[0], str) and args[0].startswith(FSBASE):
            _audit['listed'].append(args[0])
    except Exception:
        pass


sys.addaudithook(_hook)


class FakeSock(socket.socket):
    def __init__(self):
        pass

    def getpeername(self):
        return ('127.0.0.1', 5555)

    def __hash__(self):
        return id(self)

    def __eq__(self, o):
        return self is o

    def close(self):
        pass

    def __del__(self):
        pass


class Server(BaseComponent):
    channel = 'web'
    host = '127.0.0.1'
    port = 8000
    secure = False
    display_banner = False


class Probe(BaseComponent):
    channel = 'web'

    def init(self):
        self.out = []
        self.seen = []

    @handler('write', priority=100)
    def _w(self, sock, data):
        self.out.append(data)

    @handler('request', priority=1.0)
    def _r(self, req, *args):
        self.seen.append(req.path)


def drain(m, limit=20000):
    for _ in range(limit):
        if not len(m):
            return
        m.flush()
    raise RuntimeError('queue does not drain')


def parse_response(raw):
    """bytes on the wire -> dict(status, headers{lower: value}, body, extra) ; None when nothing was written"""
    if not raw:
        return None
    head, sep, rest = raw.partition(b'\r\n\r\n')
    lines = head.split(b'\r\n')
    m = re.match(rb'HTTP/\d\.\d (\d{3})', lines[0])
    status = int(m.group(1)) if m else -1
    hdrs = {}
    for ln in lines[1:]:
        k, _, v = ln.partition(b':')
        hdrs[k.strip().lower().decode('latin-1')] = v.strip().decode('latin-1')
    extra = 0
    if hdrs.get('transfer-encoding', '').lower() == 'chunked':
        body, pos = b'', 0
        while True:
            eol = rest.find(b'\r\n', pos)
            if eol < 0:
                extra = -1
                break
            n = int(rest[pos:eol].split(b';')[0] or b'0', 16)
            if n == 0:
                extra = len(rest) - (eol + 4)
                break
            body += rest[eol + 2:eol + 2 + n]
            pos = eol + 2 + n + 2
    elif 'content-length' in hdrs:
        n = int(hdrs['content-length'])
        body, extra = rest[:n], len(rest) - n
    else:
        body = rest
    return {'status': status, 'headers': hdrs, 'body': body, 'extra': extra}


def parse_multipart(ctype, body):
    """-> list of (first, last, total, data) or None when the body is not a well-formed multipart/byteranges"""
    m = re.search(r'boundary=(\S+)', ctype)
    if not m:
        return None
    delim = b'--' + m.group(1).encode('latin-1')
    pos = body.find(delim)
    parts = []
    while True:
        if pos < 0:
            return None
        pos += len(delim)
        if body[pos:pos + 2] == b'--':
            return parts
        hend = body.find(b'\r\n\r\n', pos)
        if hend < 0:
            return None
        hm = re.search(rb'content-range:\s*bytes (\d+)-(\d+)/(\d+)', body[pos:hend], re.I)
        if not hm:
            return None
        a, b, t = (int(x) for x in hm.groups())
        data = body[hend + 4:hend + 4 + (b - a + 1)]
        parts.append((a, b, t, data))
        pos = body.find(delim, hend + 4 + len(data))
        if body[hend + 4 + len(data):pos] != b'\r\n':
            return None


def run_request(lay, mount, dirlisting, mode, path, range_hdr=None, proto='1.1'):
    """one request against a fresh Manager + HTTP + Static; -> observation dict"""
    L = layout(lay)
    m = Manager()
    srv = Server().register(m)
    http = HTTP(srv).register(srv)
    srv.http = http
    Static(mount, docroot=L['root'], dirlisting=dirlisting).register(m)
    probe = Probe().register(m)
    sock = FakeSock()
    drain(m)
    calls = []
    orig_unquote = static_mod.unquote

    def rec_unquote(s, *a, **kw):
        r = orig_unquote(s, *a, **kw)
        calls.append([s, r])
        return r

    static_mod.unquote = rec_unquote
    asked = []
    saved = {n: getattr(os.path, n) for n in ('exists', 'isfile', 'isdir')}

    def rec_fs(fn):
        def w(p):
            if isinstance(p, str) and p not in asked:
                asked.append(p)
            return fn(p)
        return w

    for n, fn in saved.items():
        setattr(os.path, n, rec_fs(fn))
    fe = {'q': [], 'u': [], 'reqs': []}
    saved_fe = (wrappers_mod.Request, url_mod.quote, url_mod.unquote, http_mod.quote)

    def rec_tbl(fn, tbl):
        def w(x, *a, **kw):
            r = fn(x, *a, **kw)
            if isinstance(x, str) and isinstance(r, str) and not a and not kw and [x, r] not in tbl:
                tbl.append([x, r])
            return r
        return w

    class RecRequest(saved_fe[0]):
        def __init__(self, sock, *a, **kw):
            rec = {'path': a[2]} if len(a) >= 3 else None      # the request built from the parsed request line
            if rec is not None:
                fe['reqs'].append(rec)
            try:
                super().__init__(sock, *a, **kw)
            except Exception as e:
                if rec is not None:
                    rec['raised'] = type(e).__name__
                raise
            if rec is not None:
                rec['san'] = self.uri._path.decode('utf-8')

    if mode == 'http':
        wrappers_mod.Request = RecRequest
        url_mod.quote = rec_tbl(saved_fe[1], fe['q'])
        url_mod.unquote = rec_tbl(saved_fe[2], fe['u'])
        http_mod.quote = rec_tbl(saved_fe[3], fe['q'])
    _audit['opened'], _audit['listed'] = [], []
    _audit['on'] = True
    try:
        if mode == 'http':
            lines = ['GET %s HTTP/%s' % (path, proto), 'Host: x']
            if range_hdr is not None:
                lines.append('Range: %s' % range_hdr)
            m.fire(read(sock, ('\r\n'.join(lines) + '\r\n\r\n').encode('utf-8')), 'web')
        else:
            hs = [('Host', 'x')]
            if range_hdr is not None:
                hs.append(('Range', range_hdr))
            req = Request(sock, 'GET', 'http', path, tuple(int(x) for x in proto.split('.')), '',
                          headers=Headers(hs), server=srv)
            res = Response(req)
            if proto == '1.0':
                res.protocol = 'HTTP/1.0'
            m.fire(request_ev(req, res), 'web')
        drain(m)
    finally:
        _audit['on'] = False
        static_mod.unquote = orig_unquote
        wrappers_mod.Request, url_mod.quote, url_mod.unquote, http_mod.quote = saved_fe
        for n, fn in saved.items():
            setattr(os.path, n, fn)
    r = parse_response(b''.join(probe.out))
    fs = [[p, os.path.exists(p), os.path.isfile(p), os.path.isdir(p)] for p in asked]
    return {'resp': r, 'opened': list(_audit['opened']), 'listed': list(_audit['listed']), 'unq': calls,
            'seen': list(probe.seen), 'fs': fs, 'fe': fe}


# ----------------------------------------------------------------------------- independent reading of the property

def resolve(root, mount, path):
    """the object inside the document root that the request path denotes, by walking components:
    -> absolute path (str) or None when the path is not for this dispatcher or leaves the root"""
    if mount is not None:
        if not path.startswith(mount):
            return None
        path = path[len(mount):]
    dec = _std_unquote(path.strip('/'))
    rootparts = [c for c in root.split('/') if c]
    cur = [] if dec.startswith('/') else list(rootparts)
    for comp in dec.split('/'):
        if comp in ('', '.'):
            continue
        if comp == '..':
            if cur:
                cur.pop()
        else:
            cur.append(comp)
    if cur[:len(rootparts)] != rootparts:
        return None
    return '/' + '/'.join(cur)


def spec_ranges(hdr, size, lenient=False):
    """RFC 7233 reading of a Range header -> 'absent' | 'malformed' | list of satisfiable (first, last).
    lenient: a reversed spec whose first byte lies beyond the file is read as unsatisfiable instead of invalid."""
    if not hdr:
        return 'absent'
    unit, sep, rest = hdr.partition('=')
    if not sep:
        return 'malformed'
    if unit.strip().lower() != 'bytes':
        return 'absent'       # a unit the server does not understand: the header is ignored
    out = []
    for spec in rest.split(','):
        spec = spec.strip(' \t')
        m = re.fullmatch(r'([0-9]+)-([0-9]*)', spec)
        s = re.fullmatch(r'-([0-9]+)', spec)
        if m:
            first = int(m.group(1))
            last = int(m.group(2)) if m.group(2) else None
            if last is not None and last < first and not (lenient and first >= size):
                return 'malformed'
            if first < size:
                out.append((first, size - 1 if last is None else min(last, size - 1)))
        elif s:
            n = int(s.group(1))
            if n > 0 and size > 0:
                out.append((max(size - n, 0), size - 1))
        else:
            return 'malformed'
    return out


# ----------------------------------------------------------------------------- generators

HOSTILE = ['..', '.', '', '%2e%2e', '%2E%2E', '%252e%252e', '..%2f', '%2f', '%2F..', '..%2F..', '..\\', '\\..\\',
           '%5c..', '..%5c', '%00', '%c0%af', '....', '...', '..;', '%2e', '%2e.', '.%2e', '~', '%', '%zz', '%2',
           '..%00', '%252f', '%25252e%25252e', ';x', 'a;b', ';', '..;x=1', 'caf\u00e9', '%C3%A9', 'x;..', '.;']
BENIGN = {
    'L0': ['a.txt', 'sub', 'b.txt', 'deep', 'c.txt', 'idx', 'idx2', 'index.html', 'dirindex', 'sp ace.txt', 'sp%20ace.txt',
           '%252e%252e', 'x.txt', '.hidden', 'b\\c.txt', 'b%5Cc.txt', 'empty', 'root', 'root-extra', 's.txt',
           'secret.txt', 'rootx', 'L0', 'other.txt', 'r_10.bin', 'nonexistent'],
    'L1': ['f.bin', 'd', 'e', 'g.txt', 'index.xhtml', 'secret.txt', 'root2', 'root2.bak', 'root22', 's.txt', 'q', 'p',
           'L1', 'index.html', 'nonexistent'],
}
MOUNTS = [None, None, '/static', '/s/', '/']


def noisy(rng, segs):
    """the same walk spelled differently: '.', empty segments, 'x/..' detours, percent-encoded characters"""
    out = []
    for sg in segs:
        q = rng.random()
        if q < 0.10:
            out.append('.')
        elif q < 0.18:
            out.append('')
        elif q < 0.28:
            out += [rng.choice(['sub', 'zz', 'd', '%2e%2e']), '..']
        if sg == '..':
            sg = rng.choice(['..', '..', '%2e%2e', '.%2e', '%2E.', '%2e%2E'])
        elif sg and rng.random() < 0.2:
            k = rng.randrange(len(sg))
            sg = sg[:k] + '%%%02X' % ord(sg[k]) + sg[k + 1:] if ord(sg[k]) < 128 else sg
        else:
            sg = _std_quote(sg, safe="\\~;.%") if (' ' in sg or '%' in sg) and rng.random() < 0.8 else sg
        out.append(sg)
    return out


def gen_path(rng, lay, mount):
    L = layout(lay)
    root = L['root']
    r = rng.random()
    n = rng.randint(0, 6)
    everything = sorted(L['files']) + L['dirs']
    inside = [p for p in everything if p == root or p.startswith(root + '/')]
    outside = [p for p in everything if p not in inside]
    if r < 0.30:      # something that exists inside the root, spelled with noise
        rel = os.path.relpath(rng.choice(inside), root)
        segs = noisy(rng, [] if rel == '.' else rel.split('/'))
    elif r < 0.50:    # something that exists outside the root, reached by climbing
        rel = os.path.relpath(rng.choice(outside), root)
        segs = noisy(rng, rel.split('/'))
        if rng.random() < 0.3:
            segs = [rng.choice(BENIGN[lay])] + ['..'] + segs
    elif r < 0.58:    # benign walk
        segs = [rng.choice(BENIGN[lay]) for _ in range(n)]
    elif r < 0.68:    # decoded path is absolute (join: absolute second argument wins)
        target = rng.choice(everything)
        enc = target.replace('/', rng.choice(['%2F', '%2f']))
        segs = [enc] if rng.random() < 0.7 else [rng.choice(HOSTILE), enc]
    else:
        segs = [rng.choice(HOSTILE) if rng.random() < 0.5 else rng.choice(BENIGN[lay]) for _ in range(n)]
    p = '/' + '/'.join(segs)
    if rng.random() < 0.15:
        p += '/'
    if mount is not None:
        m = mount.rstrip('/')
        q = rng.random()
        if q < 0.8:
            p = m + p
        elif q < 0.9:
            p = m + rng.choice(['x', '..', '%2e%2e', '-extra']) + p     # prefix that merely extends the mount
    return p


def num(rng, size):
    return rng.choice([0, 0, 1, 2, size // 2, max(size - 1, 0), size, size + 1, 999, 10 ** 12, rng.randint(0, size + 5)])


def gen_range(rng, size):
    def spec():
        q = rng.random()
        a, b = num(rng, size), num(rng, size)
        if q < 0.25:
            return '%d-%d' % (min(a, b), max(a, b))
        if q < 0.35:
            return '%d-%d' % (a, b)             # possibly reversed
        if q < 0.50:
            return '%d-' % a
        if q < 0.65:
            return '-%d' % a
        if q < 0.72:
            return '%d-%d' % (a, a + rng.choice([0, 1, 5, 10 ** 9]))
        return rng.choice(['', '-', 'abc', 'a-b', '1-x', 'x-1', '1-2-3', '--5', '5', '0x1-0x2', '²-3', '1.5-2',
                           '-½', '1e1-', ' 1-2', '1 -2', '-', '3-\t4', '1-2;q=1', '+1-+2', '1_0-2_0',
                           '１-２', '-1-2', '0-0'])
    r = rng.random()
    if r < 0.04:
        return None
    unit = 'bytes' if rng.random() < 0.85 else rng.choice(['BYTES', 'Bytes', 'items', '', 'bytes ', ' bytes', 'byte', 'bytesx'])
    eq = '=' if rng.random() < 0.95 else rng.choice(['', ' ', ':', '=='])
    k = rng.choice([1, 1, 1, 1, 2, 2, 3, 4])
    specs = [spec() for _ in range(k)]
    if k > 1 and rng.random() < 0.3:
        specs[1] = specs[0]                      # duplicate / overlapping
    sep = rng.choice([',', ',', ', ', ' , '])
    return unit + eq + sep.join(specs)


def boundary_headers(size):
    """Range headers around every boundary of a file of `size` bytes, each position +-1: first = last, first = last+1
    (reversed by one), last+2, first = len-1 / len / len+1, last = len-1 / len, suffix 0 / 1 / len / len+1, and
    multi-spec lists mixing valid specs with reversed-by-one ones"""
    L = size
    firsts = sorted({x for x in (0, 1, 2, L - 2, L - 1, L, L + 1) if x >= 0})
    single = []
    for f in firsts:
        for l in sorted({x for x in (f - 2, f - 1, f, f + 1, f + 2, L - 2, L - 1, L, L + 1) if x >= 0}):
            single.append('%d-%d' % (f, l))
        single.append('%d-' % f)
    for n in sorted({x for x in (0, 1, 2, L - 1, L, L + 1) if x >= 0}):
        single.append('-%d' % n)
    out = ['bytes=' + x for x in single]
    rev = ['%d-%d' % (f, f - 1) for f in firsts if f >= 1]
    good = ['0-0', '0-1', '%d-' % max(L - 1, 0), '-1', '%d-%d' % (L, L)]
    for r in rev:
        for g in good:
            out.append('bytes=%s,%s' % (g, r))
            out.append('bytes=%s,%s' % (r, g))
    out += ['bytes=0-0,1-1', 'bytes=0-0,0-0', 'bytes=%d-%d,%d-%d' % (L, L, L + 1, L + 1), 'bytes=-0,-0', 'bytes=0-,0-0']
    return out


def boundary_cases(rng, sizes=(0, 1, 2, 10, 4096), n_requests=160):
    fn = [{'k': 'ranges_fn', 'size': sz, 'hdr': h} for sz in sizes for h in boundary_headers(sz)]
    pool = [{'k': 'range', 'size': sz, 'hdr': h, 'mode': 'http' if i % 3 == 0 else 'direct', 'proto': '1.1'}
            for sz in sizes if sz in RANGE_SIZES for i, h in enumerate(boundary_headers(sz))]
    reqs = pool if n_requests is None or n_requests >= len(pool) else rng.sample(pool, n_requests)
    return fn + reqs


def ascii_token(s):
    return all(33 <= ord(c) < 127 for c in s)


# ----------------------------------------------------------------------------- the check

class C16(Prop):
    id = 'C16'
    props_file = 'Props/C16.v'
    imports = ['Model.StaticPath', 'Model.Ranges', 'Model.FrontEnd', 'Model.StaticObs']
    quick_n = 1000
    thorough_n = 40000
    rule = ('request paths of up to 6 segments over hostile ("..", ".", "", %2e%2e, %252e%252e, ..%2f, backslash, %00, '
            'overlong UTF-8 ...) and benign (names inside / beside / above the root) segments, decoded-absolute paths, '
            'two docroot layouts with name-extending siblings and secrets in parent and grand-parent, mounted at None, '
            '"/", "/static", "/s/", handed to Static directly (request event) and through the HTTP parser; Range headers '
            'from a byte-range grammar (closed, open, suffix, reversed, out of bounds, duplicate, non-numeric, other units, '
            'missing "=") against files of 0, 1, 10, 4096, 100000 bytes, through serve_file and get_ranges directly. '
            'non-trivial = path with a hostile segment or naming something outside the root; range header with a spec')
    trusted_base = ['hand-written models Model/StaticPath.v (posixpath.join/normpath, Static._on_request), Model/FrontEnd.v '
                    '(Request.__init__/URL.sanitize, redirect guard of HTTP._on_read) and Model/Ranges.v '
                    '(get_ranges, Range arm of serve_file) tied to the code by this correspondence run',
                    'python oracle in harness/c16.py (component walk for paths, RFC 7233 reader for ranges), the audit hook '
                    'observing open()/listdir()']
    assumptions = ['symlinks, hard links and mount points are outside the model (location strings, not inodes)',
                   'POSIX os.path; docroot absolute (Static.__init__ applies os.path.abspath)',
                   'Static.defaults are plain file names (no "/", not "." or ".."): configuration, not request data',
                   'stddev(xs) > 2.0 is modelled in exact arithmetic (float rounding could differ only for >= 5 ranges)',
                   'urlsplit of the request line and the real quote/unquote are oracles of the front-end model (tables of the '
                   'real calls in K, universally quantified in the theorems)',
                   'listing entries (names) are judged by the oracle only (no Coq model of the HTML); where the links of a '
                   'listing point is not part of the property']

    def __init__(self):
        self.stash = {}
        self.stats = {'kinds': {}, 'statuses': {}, 'model_branches': {}}

    # ---- cases
    def generate(self, rng, n, tier):
        cases = []
        big = 0
        if tier == 'thorough':     # small scope, exhaustive: every path of <= 3 segments over a reduced alphabet
            import itertools
            alpha = ['..', '.', '', '%2e%2e', 'sub', 'a.txt', 'root-extra', 'secret.txt', 'root', '%2f', 'idx', 's.txt']
            for k in range(4):
                for segs in itertools.product(alpha, repeat=k):
                    cases.append({'k': 'path', 'lay': 'L0', 'mount': None, 'mode': 'direct',
                                  'path': '/' + '/'.join(segs), 'listing': k % 2 == 0})
        cases += boundary_cases(rng, n_requests=160 if tier == 'quick' else None)
        for i in range(n):
            r = rng.random()
            if r < 0.55:
                lay = rng.choice(['L0', 'L0', 'L1'])
                mount = rng.choice(MOUNTS)
                mode = 'direct' if rng.random() < 0.6 else 'http'
                path = gen_path(rng, lay, mount)
                if mode == 'direct' and any(ord(ch) > 127 for ch in path):
                    path = _std_quote(path, safe="/%\\~;. ")      # Request() itself cannot carry raw non-ASCII
                if mode == 'http' and not ascii_token(path) and (' ' in path or rng.random() < 0.5):
                    path = _std_quote(path, safe="/%\\~;.")
                cases.append({'k': 'path', 'lay': lay, 'mount': mount, 'mode': mode, 'path': path,
                              'listing': rng.random() < 0.5})
            else:
                size = rng.choice(RANGE_SIZES[:4]) if (big >= (6 if tier == 'quick' else 60)) else rng.choice(RANGE_SIZES)
                big += size == 100000
                hdr = gen_range(rng, size)
                q = rng.random()
                if q < 0.35:
                    cases.append({'k': 'ranges_fn', 'size': size, 'hdr': hdr})
                else:
                    mode = 'http' if (q < 0.6 and (hdr is None or ascii_token(hdr.replace(' ', '')) and hdr == hdr.strip())) else 'direct'
                    cases.append({'k': 'range', 'size': size, 'hdr': hdr, 'mode': mode,
                                  'proto': '1.0' if rng.random() < 0.06 else '1.1'})
        return cases

    # ---- implementation
    def impl(self, c):
        k = c['k']
        self.stats['kinds'][k] = self.stats['kinds'].get(k, 0) + 1
        if k == 'ranges_fn':
            try:
                r = web_utils.get_ranges(c['hdr'], c['size'])
            except RangeUnsatisfiable:
                return {'fn': [2]}
            except Exception as e:
                return {'fn': [3], 'exc': type(e).__name__}
            return {'fn': [0] if r is None else [1, [list(x) for x in r]]}
        if k == 'path':
            o = run_request(c['lay'], c['mount'], c['listing'], c['mode'], c['path'])
        else:
            o = run_request('L0', None, False, c['mode'], '/r_%d.bin' % c['size'], c['hdr'], c['proto'])
        self.stash[common.canon(c)] = o
        r = o['resp']
        st = r['status'] if r else None
        self.stats['statuses'][str(st)] = self.stats['statuses'].get(str(st), 0) + 1
        out = {'status': st, 'opened': o['opened'], 'listed': o['listed'], 'unq': o['unq'], 'seen': o['seen'],
               'fs': o['fs'], 'fe': o['fe']}
        if r:
            out['extra'] = r['extra']
            out['ctype'] = r['headers'].get('content-type', '')
            out['crange'] = r['headers'].get('content-range')
            out['clen'] = r['headers'].get('content-length')
            body = r['body']
            out['blen'] = len(body)
            out['sha'] = hashlib.sha1(body).hexdigest()
            out['marker'] = MARKER in body
            out['body'] = body.decode('latin-1') if len(body) <= 5000 else None
            if k == 'range':
                content = pattern(c['size'])
                out['obs'] = self._range_obs(r, content)
        return out

    @staticmethod
    def _enc_body(b):
        return list(b) if len(b) <= 32 else [len(b)]

    def _range_obs(self, r, content):
        """canonical observable of a Range response, and the byte-exactness verdict (decided here because
        100 kB bodies are not carried around)"""
        st, h, body = r['status'], r['headers'], r['body']
        size = len(content)
        d = {'bad': None}
        if st == 200:
            d['m'] = [0, int(h.get('content-length', -1))]
            if body != content:
                d['bad'] = '200 body is not the whole file'
        elif st == 416:
            d['m'] = [1]
        elif st == 206 and not h.get('content-type', '').startswith('multipart/byteranges'):
            m = re.fullmatch(r'bytes (-?\d+)-(-?\d+)/(\d+)', h.get('content-range') or '')
            if not m:
                d['m'] = [2, -1]
                d['bad'] = '206 without a well-formed Content-Range (%r)' % h.get('content-range')
            else:
                a, b, t = (int(x) for x in m.groups())
                d['m'] = [2, a, b + 1, t, self._enc_body(body)]
                d['single'] = [a, b, t]
                if not (0 <= a <= b < size) or t != size:
                    d['bad'] = 'Content-Range %s outside the %d byte file' % (h.get('content-range'), size)
                elif body != content[a:b + 1]:
                    d['bad'] = '206 body is not bytes %d-%d of the file' % (a, b)
                elif h.get('content-length') != str(b - a + 1):
                    d['bad'] = 'Content-Length %s for a %d byte range' % (h.get('content-length'), b - a + 1)
        elif st == 206:
            parts = parse_multipart(h.get('content-type', ''), body)
            if parts is None:
                d['m'] = [3, -1]
                d['bad'] = 'malformed multipart/byteranges body'
            else:
                d['m'] = [3, parts[0][2] if parts else -1, [[a, b + 1, self._enc_body(x)] for a, b, t, x in parts]]
                d['multi'] = [[a, b, t] for a, b, t, x in parts]
                for a, b, t, x in parts:
                    if not (0 <= a <= b < size) or t != size:
                        d['bad'] = 'part range %d-%d/%d outside the %d byte file' % (a, b, t, size)
                    elif x != content[a:b + 1]:
                        d['bad'] = 'part body is not bytes %d-%d of the file' % (a, b)
        elif st is not None and st >= 500:
            d['m'] = [4]
        else:
            d['m'] = [5, st if st is not None else -1]
        return d

    # ---- model
    def _path_term(self, c, reqpath, o):
        L = layout(c['lay'])
        b = lambda x: 'true' if x else 'false'
        fs = '[%s]' % '; '.join('(%s, (%s, %s, %s))' % (nlist(p), b(e), b(f), b(d)) for p, e, f, d in o['fs'])
        tbl = '[%s]' % '; '.join('(%s, %s)' % (nlist(a), nlist(b)) for a, b in o['unq'])
        mount = 'None' if c['mount'] is None else '(Some %s)' % nlist(c['mount'])
        defaults = nlistlist(['index.html', 'index.xhtml'])
        return 'obs_path %s %s %s %s %s %s %s' % (
            fs, tbl, mount, nlist(L['root']), defaults,
            'true' if c['listing'] else 'false', nlist(reqpath))

    def model_term(self, c):
        k = c['k']
        hv = lambda h: 'None' if h is None else '(Some %s)' % nlist(h)
        if k == 'ranges_fn':
            return 'obs_get_ranges %s (%d)' % (hv(c['hdr']), c['size'])
        o = self.stash.get(common.canon(c))
        if o is None:
            return None
        if k == 'range':
            return 'obs_range %s %s %s' % ('true' if c['proto'] == '1.1' else 'false', hv(c['hdr']), '%d%%N' % c['size'])
        if c['mode'] == 'direct':
            return self._path_term(c, c['path'], o)
        fe = o['fe']
        if len(fe['reqs']) != 1:     # the parser rejected the request line (or pipelining): no front-end decision
            return None
        tb = lambda t: '[%s]' % '; '.join('(%s, %s)' % (nlist(a), nlist(b)) for a, b in t)
        return 'obs_http %s %s %s' % (tb(fe['q']), tb(fe['u']), self._path_term(c, fe['reqs'][0]['path'], o)[len('obs_path '):])

    def obs_for_model(self, c, obs):
        if isinstance(obs, dict) and '__crash__' in obs:
            return [-999]
        k = c['k']
        if k == 'ranges_fn':
            return obs['fn']
        if k == 'range':
            return obs['obs']['m'] if 'obs' in obs else [-998]
        st = obs['status']
        if c['mode'] == 'http':
            reqs = obs['fe']['reqs']
            if len(reqs) != 1:
                return [-996]
            r0 = reqs[0]
            if 'raised' in r0:
                return [[2], [0]]
            if obs['seen'] == [r0['path']]:
                few = [1, r0['path'], r0['san']]
            elif st == 301 and not obs['seen']:
                return [[0, r0['san']], [0]]
            else:
                return [[-995, st if st is not None else -1], [0]]
            return [few, self._static_tag(obs)]
        return self._static_tag(obs)

    def _static_tag(self, obs):
        st = obs['status']
        if st == 200 and obs['opened'] and not obs['listed']:
            tag = [1, obs['opened'][0]]
        elif st == 200 and obs['listed']:
            tag = [2, obs['listed'][0]]
        elif st == 404 and not obs['opened'] and not obs['listed']:
            tag = [0]
        else:
            tag = [-997, st if st is not None else -1]
        self.stats['model_branches'][str(tag[0])] = self.stats['model_branches'].get(str(tag[0]), 0) + 1
        return tag

    # ---- oracle
    def oracle(self, c, obs):
        if isinstance(obs, dict) and '__crash__' in obs:
            return None           # reported by the framework
        k = c['k']
        if k == 'ranges_fn':
            return self._oracle_fn(c, obs)
        if obs['status'] is None:
            return 'no response at all'
        if k == 'path':
            return self._oracle_path(c, obs)
        return self._oracle_range(c, obs)

    def _oracle_path(self, c, obs):
        L = layout(c['lay'])
        root = L['root']
        st = obs['status']
        inside = lambda p: p == root or p.startswith(root + '/')
        for p in obs['opened'] + obs['listed']:
            if not inside(os.path.realpath(p)):
                return 'read %s, which is outside the document root %s' % (p, root)
        if obs['marker']:
            return 'response carries content planted outside the document root: %r' % (obs['body'] or '')[:60]
        same = lambda content: hashlib.sha1(content).hexdigest() == obs['sha']
        fe_raised = c['mode'] == 'http' and any('raised' in r for r in obs['fe']['reqs'])
        if st >= 500 and not (fe_raised and not obs['opened'] and not obs['listed'] and not obs['seen']):
            # (a request target the front end itself chokes on - raw non-ASCII - never reaches the dispatcher;
            #  how that error is reported is C14's business)
            return 'internal error %d' % st
        if st >= 500 or st in (301, 302, 303, 307, 308, 400, 404):
            return None
        if st != 200:
            return 'unexpected status %d' % st
        # the front end hands the dispatcher the path it parsed; the path the content must belong to
        path = c['path']
        if c['mode'] == 'http':
            if len(obs['seen']) != 1:
                return 'a 200 without exactly one request event (%r)' % (obs['seen'],)
            path = obs['seen'][0]      # (urlsplit reads a leading '//x' as an authority: not this property's business)
        target = resolve(root, c['mount'], path)
        if target is None:
            return 'content served for a path that denotes nothing inside the document root'
        if target in L['files']:
            if not same(L['files'][target]):
                return 'body differs from the contents of %s' % target
            return None
        if target in L['dirs']:
            for dflt in ('index.html', 'index.xhtml'):
                f = target + '/' + dflt
                if f in L['files']:
                    if not same(L['files'][f]):
                        return 'body differs from the default document %s' % f
                    return None
            if not c['listing']:
                return 'directory content served although listings are off'
            names = sorted(n + ('/' if os.path.isdir(os.path.join(target, n)) else '')
                           for n in os.listdir(target) if not n.startswith('.'))
            from html import unescape
            shown = sorted(unescape(x) for x in re.findall(r'<li><a href="[^"]*">([^<]*)</a></li>', obs['body'] or '')
                           if x != '..')
            if shown != names:
                return 'listing shows %r, directory %s holds %r' % (shown, target, names)
            return None
        return 'content served for %s, which does not exist' % target

    def _oracle_range(self, c, obs):
        a = self._oracle_range1(c, obs, False)
        return a and self._oracle_range1(c, obs, True) and a

    def _oracle_range1(self, c, obs, lenient):
        st = obs['status']
        d = obs.get('obs') or {}
        size = c['size']
        if st >= 500:
            return 'internal error %d for Range: %r on a %d byte file' % (st, c['hdr'], size)
        if st not in (200, 206, 416):
            return 'unexpected status %d' % st
        if d.get('bad'):
            return '%s (Range: %r, %d byte file)' % (d['bad'], c['hdr'], size)
        spec = spec_ranges(c['hdr'], size, lenient) if c['proto'] == '1.1' else 'absent'
        if spec == 'absent':
            return None if st == 200 else 'status %d without a (bytes) Range header' % st
        if spec == 'malformed' or spec == []:
            return None if st in (200, 416) else 'status %d for the %s Range %r' % (
                st, 'malformed' if spec else 'unsatisfiable', c['hdr'])
        want = []
        for x in spec:
            if x not in want:
                want.append(x)
        if st == 416:
            return None if len(want) > 1 else 'satisfiable Range %r on %d bytes rejected with 416' % (c['hdr'], size)
        if st == 200:
            return 'satisfiable Range %r on %d bytes ignored' % (c['hdr'], size)
        got = [tuple(d['single'][:2])] if 'single' in d else [tuple(x[:2]) for x in d.get('multi', [])]
        if sorted(got) != sorted(want):
            return 'Range %r on %d bytes: served %r, requested %r' % (c['hdr'], size, got, want)
        return None

    def _oracle_fn(self, c, obs):
        a = self._oracle_fn1(c, obs, False)
        return a and self._oracle_fn1(c, obs, True) and a

    def _oracle_fn1(self, c, obs, lenient):
        fn, size = obs['fn'], c['size']
        if fn[0] == 3:
            return 'get_ranges(%r, %d) raised %s' % (c['hdr'], size, obs.get('exc'))
        spec = spec_ranges(c['hdr'], size, lenient)
        if fn[0] == 1:
            for a, b in fn[1]:
                if not (0 <= a < b <= size):
                    return 'get_ranges(%r, %d) returned the slice (%d, %d)' % (c['hdr'], size, a, b)
            if not isinstance(spec, list):
                # malformed: ignoring the header (None) and rejecting it (empty list -> 416) are both allowed
                return None if not fn[1] else 'get_ranges(%r, %d) returned ranges for a %s header' % (c['hdr'], size, spec)
            if sorted(set(spec)) != sorted(set((a, b - 1) for a, b in fn[1])):
                return 'get_ranges(%r, %d) = %r, requested %r' % (c['hdr'], size, fn[1], spec)
        elif fn[0] == 0:
            if isinstance(spec, list) and spec:
                return 'get_ranges(%r, %d) ignored a satisfiable range' % (c['hdr'], size)
        elif fn[0] == 2:
            if not (isinstance(spec, list) and len(set(spec)) > 1):
                return 'get_ranges(%r, %d) raised RangeUnsatisfiable' % (c['hdr'], size)
        return None

    def nontrivial(self, c, obs):
        if c['k'] == 'path':
            L = layout(c['lay'])
            return any(h in c['path'] for h in ('..', '%2', '%5', '\\', '%00')) or \
                resolve(L['root'], c['mount'], c['path']) is None
        return bool(c['hdr']) and '-' in c['hdr']

    def search(self, rng, tier):
        # boundary specs first (every request form of them), then a large random sample
        return boundary_cases(rng, n_requests=None) + self.generate(rng, 3000, 'quick')


if __name__ == '__main__':
    sys.exit(common.main(C16()))
