"""C17 — WebSocket frames round-trip exactly, whatever the segmentation or fragmentation."""
import sys, os
sys.path.insert(0, os.path.dirname(os.path.abspath(__file__)))
import common
from common import Prop, nlist

from circuits import Component, handler
from circuits.net.events import read, write, close
import circuits.protocols.websocket as ws_mod
from circuits.protocols.websocket import WebSocketCodec


import socket as _socket
from circuits import BaseComponent
from circuits.net.events import disconnect
import circuits.web.websockets.client as wsclient_mod
from circuits.web.websockets.dispatcher import WebSocketsDispatcher
from circuits.web.http import HTTP as WebHTTP

# ----------------------------------------------------------------------------- independent RFC 6455 codec (the peer)

def rfc_encode(fin, opcode, key, payload):
    """RFC 6455 section 5.2, written from the RFC: minimal length encoding, network byte order."""
    payload = bytes(payload)
    out = bytearray([(0x80 if fin else 0) | opcode])
    m = 0x80 if key is not None else 0
    n = len(payload)
    if n <= 125:
        out.append(m | n)
    elif n < 65536:
        out.append(m | 126)
        out += n.to_bytes(2, 'big')
    else:
        out.append(m | 127)
        out += n.to_bytes(8, 'big')
    if key is not None:
        key = bytes(key)
        out += key
        rep = (key * (n // 4 + 1))[:n]
        out += (int.from_bytes(payload, 'big') ^ int.from_bytes(rep, 'big')).to_bytes(n, 'big') if n else b''
    else:
        out += payload
    return bytes(out)


class BadFrame(Exception):
    pass


def rfc_decode_stream(data, expect_masked):
    """decoder of a strict conforming peer -> list of (fin, opcode, payload); raises BadFrame"""
    data = bytes(data)
    frames, i = [], 0
    while i < len(data):
        if len(data) - i < 2:
            raise BadFrame('truncated header at %d' % i)
        b0, b1 = data[i], data[i + 1]
        i += 2
        if b0 & 0x70:
            raise BadFrame('reserved bits set')
        fin, opcode, masked, n = bool(b0 & 0x80), b0 & 0x0F, bool(b1 & 0x80), b1 & 0x7F
        if opcode not in (0, 1, 2, 8, 9, 10):
            raise BadFrame('unknown opcode %d' % opcode)
        if opcode >= 8 and (not fin or n > 125):
            raise BadFrame('fragmented or long control frame')
        if n == 126:
            if len(data) - i < 2:
                raise BadFrame('truncated length')
            n = int.from_bytes(data[i:i + 2], 'big')
            i += 2
            if n <= 125:
                raise BadFrame('length not minimally encoded')
        elif n == 127:
            if len(data) - i < 8:
                raise BadFrame('truncated length')
            n = int.from_bytes(data[i:i + 8], 'big')
            i += 8
            if n < 65536 or n >> 63:
                raise BadFrame('length not minimally encoded')
        if masked != expect_masked:
            # RFC 6455 5.1: a client masks every frame it sends (close included), a server none
            raise BadFrame('mask bit of a written frame (opcode %d) is %s' % (opcode, masked))
        key = None
        if masked:
            if len(data) - i < 4:
                raise BadFrame('truncated key')
            key = data[i:i + 4]
            i += 4
        if len(data) - i < n:
            raise BadFrame('truncated payload')
        p = data[i:i + n]
        i += n
        if key:
            p = bytes(c ^ key[j & 3] for j, c in enumerate(p))
        frames.append((fin, opcode, p))
    return frames


# ----------------------------------------------------------------------------- cases

def spec_bytes(s):
    """payload spec {'pat': [...], 'n': k, 'tail': [...]} -> bytes"""
    return bytes(s['pat']) * s['n'] + bytes(s['tail'])


def case_frames(c):
    """-> list of (fin, opcode, key, payload, tag) the peer sends, in order.  tag = (item index, role)"""
    out = []
    for ix, it in enumerate(c['items']):
        t = it['t']
        if t == 'msg':
            whole = spec_bytes(it['p'])
            cuts = [0] + list(it['fcuts']) + [len(whole)]
            nfr = len(cuts) - 1
            for j in range(nfr):
                op = (1 if it['text'] else 2) if j == 0 else 0
                out.append((j == nfr - 1, op, it['keys'][j], whole[cuts[j]:cuts[j + 1]], (ix, 'frag')))
                for ct in it['ctls'][j]:
                    out.append((True, 9 if ct['t'] == 'ping' else 10, ct['key'], bytes(ct['p']), (ix, ct['t'])))
        elif t in ('ping', 'pong', 'close'):
            out.append((True, {'ping': 9, 'pong': 10, 'close': 8}[t], it['key'], bytes(it['p']), (ix, t)))
        else:
            raise ValueError(t)
    return out


def case_stream(c):
    fr = case_frames(c)
    ends, data = [], bytearray()
    for (fin, op, key, p, tag) in fr:
        data += rfc_encode(fin, op, key, p)
        ends.append(len(data))
    return bytes(data), fr, ends


def case_chunks(c, data):
    pts = sorted(set(x for x in list(c['cuts']) + [c.get('init', 0)] if 0 < x < len(data)))
    out, prev = [], 0
    for p in pts + [len(data)]:
        out.append(data[prev:p])
        prev = p
    return out, pts


def case_ops(c):
    """-> list of ('recv', bytes) | ('send', text, bytes) | ('close',) in execution order"""
    data, _, _ = case_stream(c)
    chunks, _ = case_chunks(c, data)
    ops = []
    init = 0 < c.get('init', 0) <= len(data)     # the first chunk is handed to the constructor (client.py: response body)
    for i in range(len(chunks) + 1):
        for a in c['app']:
            if max(min(a[0], len(chunks)), 1 if init else 0) == i:
                ops.append(('send', a[2], spec_bytes(a[3])) if a[1] == 'send' else ('close',))
        if i < len(chunks):
            ops.append(('init' if init and i == 0 else 'recv', chunks[i]))
    return ops


def coq_bytes(b):
    """bytes -> Coq term of type list N, runs of period <= 12 written with Obs.rep"""
    b = bytes(b)
    n = len(b)
    if n <= 96:
        return nlist(b)
    parts, lit, i = [], [], 0
    while i < n:
        best = None
        if n - i >= 96:
            for p in (1, 2, 3, 4, 6, 12):
                j = i + p
                while j < n and b[j] == b[j - p]:
                    j += 1
                run = (j - i) // p
                if run * p >= 96:
                    best = (p, run)
                    break
        if best:
            if lit:
                parts.append(nlist(lit))
                lit = []
            p, run = best
            parts.append('rep %d%%nat %s' % (run, nlist(b[i:i + p])))
            i += p * run
        else:
            lit.append(b[i])
            i += 1
    if lit:
        parts.append(nlist(lit))
    return '(' + ' ++ '.join(parts) + ')'


def cksum(b):
    a = 0
    for c in b:
        a = (a * 31 + c + 1) & 0xFFFFF
    return a


def summary(b):
    b = bytes(b)
    if len(b) <= 48:
        return b
    return [len(b), cksum(b), b[:8], b[-8:]]


# ----------------------------------------------------------------------------- driving the real codec

class Parent(Component):
    channel = 'parent'

    def init(self):
        self.cur = None
        self.errors = []

    @handler('write')
    def _w(self, *a):
        self.cur['w'].append((a[0] if len(a) > 1 else None, bytes(a[-1])))

    @handler('close')
    def _c(self, *a):
        self.cur['c'] += 1

    @handler('exception', channel='*')
    def _e(self, etype, evalue, *a, **k):
        self.errors.append((etype.__name__, str(evalue)))


class App(Component):
    channel = 'ws'

    def init(self, parent):
        self.p = parent

    @handler('read')
    def _r(self, *a):
        self.p.cur['d'].append((a[0] if len(a) > 1 else None, a[-1]))


class FakeSock:
    def __init__(self, n):
        self.n = n

    def __repr__(self):
        return '<sock %d>' % self.n


class Urandom:
    """stands in for the os module inside circuits.protocols.websocket: scripted masking keys"""
    def __init__(self, keys):
        self.keys = [bytes(k) for k in keys]
        self.drawn = 0

    def urandom(self, n):
        if self.drawn < len(self.keys) and len(self.keys[self.drawn]) == n:
            k = self.keys[self.drawn]
        else:
            k = os.urandom(n)
        self.drawn += 1
        return k

    def __getattr__(self, name):
        return getattr(os, name)


class ImplError(Exception):
    pass


class FakeTransport(BaseComponent):
    """stands in for the TCPClient child of WebSocketClient: records what would go to the wire"""
    connected = True

    def __init__(self, channel='wsclient'):
        super().__init__(channel=channel)
        self.cur = {'d': [], 'w': [], 'c': 0}

    @handler('write')
    def _w(self, data):
        self.cur['w'].append((None, bytes(data)))

    @handler('close')
    def _c(self, *a):
        self.cur['c'] += 1


class Errors(Component):
    def init(self):
        self.errors = []

    @handler('exception', channel='*')
    def _e(self, etype, evalue, *a, **k):
        self.errors.append((etype.__name__, str(evalue)))


class ClientApp(Component):
    channel = 'ws'

    def init(self, tr):
        self.tr = tr

    @handler('read')
    def _r(self, *a):
        self.tr.cur['d'].append((None, a[-1]))


class RealSock(_socket.socket):
    """HTTP._on_exception and the dispatcher want a real socket object with a peer name"""
    def __init__(self, n):
        super().__init__(_socket.AF_INET, _socket.SOCK_STREAM)
        self.n = n

    def getpeername(self):
        return ('10.0.0.%d' % self.n, 1000 + self.n)


class FakeServer(BaseComponent):
    channel = 'web'
    host, port, secure, display_banner = '127.0.0.1', 8000, False, False

    def __init__(self):
        super().__init__()
        self.cur = {}
        self.http = WebHTTP(self).register(self)

    def slot(self, n):
        return self.cur.setdefault(n, {'d': [], 'w': [], 'c': 0, 'connect': 0, 'disc': 0})

    @handler('write', priority=100)
    def _w(self, sock, data):
        self.slot(sock.n)['w'].append(bytes(data))

    @handler('close', priority=100)
    def _c(self, sock):
        self.slot(sock.n)['c'] += 1


class ServerApp(Component):
    channel = 'wsserver'

    def init(self, srv):
        self.srv = srv

    @handler('read')
    def _r(self, sock, data):
        self.srv.slot(sock.n)['d'].append(data)

    @handler('connect')
    def _cn(self, sock, *a):
        self.srv.slot(sock.n)['connect'] += 1

    @handler('disconnect')
    def _d(self, sock, *a):
        self.srv.slot(sock.n)['disc'] += 1


REQUEST = (b'GET /ws/chat HTTP/1.1\r\nHost: example.org\r\nUpgrade: websocket\r\nConnection: keep-alive, Upgrade\r\n'
           b'Sec-WebSocket-Key: dGhlIHNhbXBsZSBub25jZQ==\r\nSec-WebSocket-Version: 13\r\n\r\n')
RESPONSES = [
    b'HTTP/1.1 101 Switching Protocols\r\nUpgrade: websocket\r\nConnection: Upgrade\r\nSec-WebSocket-Accept: s3pPLMBiTxaQ9kYGzzhZRbK+xOo=\r\n\r\n',
    b'HTTP/1.1 101 Web Socket Protocol Handshake\r\nConnection: upgrade\r\nUpgrade: WebSocket\r\n\r\n',
    b'HTTP/1.1 101 Switching Protocols\r\nServer: x\r\nUpgrade: websocket\r\nX-Pad: abc\r\nConnection: keep-alive, Upgrade\r\nSec-WebSocket-Accept: q\r\n\r\n',
]


def msg_obs(m):
    if isinstance(m, str):
        return [1, hexs(m.encode('utf-8', 'surrogatepass'))]
    return [0, hexs(m)]


def frame_keys(frames):
    used = []
    for b in frames:
        if len(b) >= 2 and b[1] & 0x80:
            off = 2 + {126: 2, 127: 8}.get(b[1] & 0x7F, 0)
            used.append(list(b[off:off + 4]))
    return used


def drain(m):
    for _ in range(10000):
        if not len(m):
            return
        m.flush()
    raise RuntimeError('queue does not drain')


def hexs(b):
    return bytes(b).hex()


def disp_sock_ops(n, sc):
    """operations of one socket, in order: ('up'|'read'|'send'|'disc'|'late', ...)"""
    data, fr, ends = case_stream(sc)
    chunks, _ = case_chunks(sc, data)
    ops = [('up', n)]
    for i in range(len(chunks) + 1):
        for a in sc['sends']:
            if min(a[0], len(chunks)) == i:
                ops.append(('send', n, a[1], spec_bytes(a[2])))
        if i < len(chunks):
            ops.append(('read', n, chunks[i]))
    if sc['disc']:
        ops.append(('disc', n))
        if sc['late']:
            ops.append(('late', n, rfc_encode(True, 1, [1, 2, 3, 4], b'late')))
    return ops


def disp_ops(c):
    per = {int(k): disp_sock_ops(int(k), v) for k, v in c['socks'].items()}
    pos = {k: 0 for k in per}
    out = []
    for n in c['order']:
        out.append(per[n][pos[n]])
        pos[n] += 1
    assert all(pos[k] == len(per[k]) for k in per)
    return out


def cup_ops(c):
    """-> list of ('recv', bytes) | ('send', text, bytes) | ('close',) for the WebSocketClient case"""
    data, _, _ = case_stream(c)
    total = RESPONSES[c['head']] + data
    chunks, _ = case_chunks(c, total)
    ops = []
    for i in range(len(chunks) + 1):
        for a in c['app']:
            if min(a[0], len(chunks)) == i:
                ops.append(('send', a[2], spec_bytes(a[3])) if a[1] == 'send' else ('close',))
        if i < len(chunks):
            ops.append(('recv', chunks[i]))
    return ops


LENS = [0, 1, 2, 3, 4, 5, 7, 20, 124, 125, 126, 127, 128, 200, 255, 256, 257, 1000]
MID = [4095, 4096, 4097, 8192, 9000]
BIG = [65535, 65536, 65537, 70001]
TEXT_PATS = [[97], [97, 98, 99], [0xc3, 0xa9], [0xe2, 0x82, 0xac], [0xf0, 0x9f, 0x98, 0x80], [104, 0xc3, 0xa9, 33]]
BIN_PATS = [[0], [255], [0, 255], [128, 1, 254], [1, 2, 3, 4], [0x81, 0x7e, 0xff], [137, 0], [136, 0, 138]]


class C17(Prop):
    id = 'C17'
    props_file = 'Props/C17.v'
    imports = ['Model.WebSocket', 'Model.WebSocketObs']
    quick_n = 230
    thorough_n = 3000
    rule = ('frame streams built by the harness\' own RFC 6455 encoder from 1-5 items (text/binary messages of length '
            '0..70001 around 125/126/65535/65536 and the 4096-byte read size, 1-4 fragments, ping/pong between fragments, '
            'close followed by more frames), masked with random keys or unmasked, cut into reads at every offset of the '
            'first 16 bytes / byte-at-a-time / around frame boundaries / 4096-byte reads / random multi-cuts, interleaved '
            'with application writes and close; run through the real WebSocketCodec in server and client mode. '
            'non-trivial = at least one cut inside a frame, or a fragmented message, or a write')
    trusted_base = ['hand-written model Model/WebSocket.v tied to the implementation by this correspondence run',
                    'python oracle and independent RFC 6455 encoder/decoder in harness/c17.py '
                    '(the Coq specification encoder rfc_frame is compared with it on every run)']
    assumptions = ['text payloads are valid UTF-8 (str is compared through its UTF-8 encoding; the model keeps text as bytes)',
                   'os.urandom(4) returns 4 bytes (oracle keyfn; theorems assume length 4 and quantify over every key)',
                   'payload length < 2^64',
                   'the peer is conforming: control frames are unfragmented; a message starts with opcode 1/2 and continues with 0']

    _want_big = False

    def __init__(self):
        self._recorded = {}
        self.stats = {'kinds': {}, 'cut_modes': {}, 'payload_len_classes': {}, 'fragmented_msgs': 0,
                      'ctl_inside_fragmented': 0, 'cuts_in_header': 0}

    # ---- generator
    def _payload(self, rng, text, tier, allow_big=True):
        r = rng.random()
        if allow_big and self._want_big:
            n = rng.choice(BIG)
            self._want_big = False
        elif allow_big and r < 0.07:
            n = rng.choice(MID)
        elif r < 0.6:
            n = rng.choice(LENS)
        else:
            n = rng.randint(0, 300)
        pat = list(rng.choice(TEXT_PATS if text else BIN_PATS))
        k = n // len(pat)
        tail = []
        if n - k * len(pat):
            tail = [rng.choice([65, 66, 122])] * (n - k * len(pat))
        return {'pat': pat, 'n': k, 'tail': tail}

    def _key(self, rng, masked):
        if not masked:
            return None
        r = rng.random()
        if r < 0.1:
            return [0, 0, 0, 0]
        if r < 0.2:
            return [255, 255, 255, 255]
        return [rng.randrange(256) for _ in range(4)]

    def _ctl(self, rng, masked):
        n = rng.choice([0, 1, 2, 5, 125, rng.randint(0, 125)])
        return {'t': 'ping' if rng.random() < 0.7 else 'pong', 'key': self._key(rng, masked),
                'p': [rng.randrange(256) for _ in range(n)]}

    def gen_case(self, rng, tier):
        mode = 'server' if rng.random() < 0.5 else 'client'
        conforming = rng.random() < 0.8
        masked = (mode == 'server') == conforming
        items = []
        nitems = rng.choice([1, 1, 2, 2, 3, 4, 5])
        bigs = 0
        for _ in range(nitems):
            r = rng.random()
            if r < 0.68:
                text = rng.random() < 0.5
                p = self._payload(rng, text, tier, allow_big=bigs == 0)
                n = len(p['pat']) * p['n'] + len(p['tail'])
                bigs += n > 4000
                nfr = 1 if rng.random() < (0.7 if n > 60000 else 0.5) else rng.randint(2, 4)
                fcuts = sorted(rng.choice([0, n, rng.randint(0, n), rng.randint(0, n)]) for _ in range(nfr - 1))
                ctls = [[self._ctl(rng, masked) for _ in range(rng.choice([0, 0, 0, 1, 1, 2]))] if nfr > 1 or rng.random() < 0.2 else []
                        for _ in range(nfr)]
                items.append({'t': 'msg', 'text': text, 'p': p, 'fcuts': fcuts,
                              'keys': [self._key(rng, masked) for _ in range(nfr)], 'ctls': ctls})
            elif r < 0.86:
                items.append(dict(self._ctl(rng, masked)))
            else:
                n = rng.choice([0, 2, 2, 10])
                items.append({'t': 'close', 'key': self._key(rng, masked),
                              'p': [3, 232] + [rng.randrange(32, 127) for _ in range(n - 2)] if n else []})
        c = {'k': 'ws', 'mode': mode, 'items': items, 'cuts': [], 'app': [], 'keys': []}
        if rng.random() < 0.07:
            # a text message that is not valid UTF-8: must not raise, the following messages must still arrive
            texts = [it for it in items if it['t'] == 'msg' and it['text'] and it['p']['n'] * len(it['p']['pat']) + len(it['p']['tail']) < 4000]
            if texts:
                it = rng.choice(texts)
                n = len(it['p']['pat']) * it['p']['n'] + len(it['p']['tail'])
                bad = rng.choice([[255], [0xc3], [0xed, 0xa0, 0x80], [0xf8, 0x88], [97, 0x80]])
                it['p'] = {'pat': bad, 'n': max(1, n // len(bad)), 'tail': []}
                m = len(bad) * it['p']['n']
                it['fcuts'] = sorted(min(x, m) for x in it['fcuts'])
                c['lax'] = True
        data, fr, ends = case_stream(c)
        L = len(data)
        starts = [0] + ends[:-1]
        r = rng.random()
        if r < 0.08:
            cm, cuts = 'none', []
        elif r < 0.30:
            cm = 'head'       # one cut inside the first 16 bytes of some frame (header, extended length, key)
            s = rng.choice(starts)
            cuts = [s + rng.randint(1, 15)]
        elif r < 0.45 and L <= 400:
            cm, cuts = 'bytewise', list(range(1, L))
        elif r < 0.62:
            cm = 'boundaries'
            cuts = [max(0, s + rng.choice([-2, -1, 0, 1, 2, 3, 4, 5, 6, 7, 8, 9, 10, 11, 13, 14])) for s in starts + ends
                    if rng.random() < 0.6]
        elif r < 0.72:
            cm = 'bufsize'
            cuts = list(range(4096, L, 4096))
        else:
            cm = 'random'
            cuts = [rng.randint(0, L) for _ in range(rng.randint(1, 7))]
            if rng.random() < 0.4:
                cuts += [s + rng.randint(1, 14) for s in starts if rng.random() < 0.5]
        c['cuts'] = sorted(set(x for x in cuts if 0 < x < L))
        nch = len(c['cuts']) + 1
        napp = rng.choice([0, 0, 1, 1, 2, 3])
        for _ in range(napp):
            text = rng.random() < 0.5
            c['app'].append([rng.randint(0, nch), 'send', text, self._payload(rng, text, tier, allow_big=bigs == 0 and L < 5000)])
        if rng.random() < 0.18:
            c['app'].append([rng.randint(0, nch), 'close'])
        if rng.random() < 0.5:
            c['app'].sort(key=lambda a: a[0])
        nkeys = 2 * (sum(1 for f in fr if f[1] == 9) + napp) + 2
        c['keys'] = [self._key(rng, True) for _ in range(nkeys)] if mode == 'client' else []
        if rng.random() < 0.12 and L:
            c['init'] = rng.choice([L, ends[0], rng.randint(1, L), rng.randint(1, min(L, 15))])
        c['_cm'] = cm
        return c

    def gen_cup(self, rng, tier):
        """WebSocketClient: 101 response followed by server frames, cut anywhere"""
        self._want_big = False
        for _ in range(50):
            base = self.gen_case(rng, tier)
            if base['mode'] == 'client' and not base.get('lax') and len(case_stream(base)[0]) < 3000:
                break
        base['mode'] = 'client'
        for it in base['items']:      # a server does not mask
            if it['t'] == 'msg':
                it['keys'] = [None] * len(it['keys'])
                for cl in it['ctls']:
                    for ct in cl:
                        ct['key'] = None
            else:
                it['key'] = None
        head = rng.randrange(len(RESPONSES))
        H = len(RESPONSES[head])
        data, fr, ends = case_stream(base)
        L = H + len(data)
        r = rng.random()
        if r < 0.15:
            cuts = []
        elif r < 0.5:       # around the end of the header block
            cuts = [H + d for d in rng.sample([-5, -4, -3, -2, -1, 0, 1, 2, 3, 4, 6, 9], rng.randint(1, 4))]
        elif r < 0.6 and L < 500:
            cuts = list(range(1, L))
        else:
            cuts = [rng.randint(1, L) for _ in range(rng.randint(1, 6))] + [H + rng.randint(0, 3)]
        cuts = sorted(set(x for x in cuts if 0 < x < L))
        bounds = cuts + [L]
        k0 = [i for i, b in enumerate(bounds) if b > H]
        k0 = k0[0] if k0 else len(bounds)
        app = []
        for a in base['app']:
            if a[1] == 'send' and len(spec_bytes(a[3])) > 3000:
                continue
            app.append([rng.randint(k0 + 1, len(bounds))] + a[1:])
        app.sort(key=lambda a: a[0])
        return {'k': 'cup', 'head': head, 'items': base['items'], 'cuts': cuts, 'app': app, 'keys': base['keys'] or
                [self._key(rng, True) for _ in range(12)]}

    def gen_disp(self, rng, tier):
        """WebSocketsDispatcher: several sockets upgraded, their frame streams interleaved, one may disconnect"""
        socks = {}
        order = []
        for n in rng.sample([1, 2, 3], rng.randint(1, 3)):
            items = []
            for _ in range(rng.randint(1, 3)):
                text = rng.random() < 0.5
                self._want_big = False
                p = self._payload(rng, text, tier, allow_big=False)
                ln = len(p['pat']) * p['n'] + len(p['tail'])
                nfr = rng.choice([1, 1, 2, 3])
                fcuts = sorted(rng.randint(0, ln) for _ in range(nfr - 1))
                ctls = [[self._ctl(rng, True) for _ in range(rng.choice([0, 0, 1]))] for _ in range(nfr)]
                items.append({'t': 'msg', 'text': text, 'p': p, 'fcuts': fcuts,
                              'keys': [self._key(rng, True) for _ in range(nfr)], 'ctls': ctls})
            sc = {'items': items, 'cuts': [], 'req_cut': rng.choice([0, 0, rng.randint(1, len(REQUEST) - 1)]),
                  'sends': [], 'disc': rng.random() < 0.3, 'late': rng.random() < 0.7}
            L = len(case_stream(sc)[0])
            sc['cuts'] = sorted(set(rng.randint(1, max(1, L - 1)) for _ in range(rng.randint(0, 4)))) if L > 1 else []
            nch = len([x for x in sc['cuts'] if 0 < x < L]) + 1
            for _ in range(rng.choice([0, 1, 1, 2])):
                text = rng.random() < 0.5
                sc['sends'].append([rng.randint(0, nch), text, self._payload(rng, text, tier, allow_big=False)])
            sc['sends'].sort(key=lambda a: a[0])
            socks[str(n)] = sc
            order += [n] * len(disp_sock_ops(n, sc))
        rng.shuffle(order)
        return {'k': 'disp', 'socks': socks, 'order': order}

    def generate(self, rng, n, tier):
        cases = []
        for i in range(n):
            if i % 14 == 13:
                text = rng.random() < 0.5
                cases.append({'k': 'rfc', 'fin': rng.random() < 0.5, 'op': rng.choice([0, 1, 2, 8, 9, 10]),
                              'key': self._key(rng, rng.random() < 0.6), 'p': self._payload(rng, text, tier, allow_big=i % 3 == 0)})
                continue
            if i % 9 == 4:
                cases.append(self.gen_cup(rng, tier))
                continue
            if i % 11 == 6:
                cases.append(self.gen_disp(rng, tier))
                continue
            self._want_big = i % (40 if tier == 'quick' else 25) == 7     # payloads >= 65535: a fixed share of the cases
            cases.append(self.gen_case(rng, tier))
        for c in cases:
            self._count(c)
        return cases

    def _count(self, c):
        st = self.stats
        st['kinds'][c['k']] = st['kinds'].get(c['k'], 0) + 1
        if c['k'] == 'cup':
            H = len(RESPONSES[c['head']])
            st['cuts_in_handshake_response'] = st.get('cuts_in_handshake_response', 0) + sum(1 for x in c['cuts'] if x <= H)
            st['frames_in_same_read_as_response'] = st.get('frames_in_same_read_as_response', 0) + int(H not in c['cuts'] and bool(c['items']))
        if c['k'] == 'disp':
            st['dispatcher_sockets'] = st.get('dispatcher_sockets', 0) + len(c['socks'])
            st['dispatcher_disconnects'] = st.get('dispatcher_disconnects', 0) + sum(1 for v in c['socks'].values() if v['disc'])
        if c['k'] != 'ws':
            return
        if c.get('lax'):
            st['invalid_utf8_text'] = st.get('invalid_utf8_text', 0) + 1
        if c.get('init'):
            st['constructor_data'] = st.get('constructor_data', 0) + 1
        cm = c.get('_cm', '?')
        st['cut_modes'][cm] = st['cut_modes'].get(cm, 0) + 1
        data, fr, ends = case_stream(c)
        starts = [0] + ends[:-1]
        for (fin, op, key, p, tag), s in zip(fr, starts):
            n = len(p)
            cl = '0' if n == 0 else '<=125' if n <= 125 else '<=65535' if n <= 65535 else '>65535'
            st['payload_len_classes'][cl] = st['payload_len_classes'].get(cl, 0) + 1
            hdr = 2 + (2 if 126 <= n <= 65535 else 8 if n > 65535 else 0) + (4 if key is not None else 0)
            st['cuts_in_header'] += sum(1 for x in c['cuts'] if s < x < s + hdr)
        for a in c['app']:
            if a[1] == 'send':
                sp = a[3]
                n = len(sp['pat']) * sp['n'] + len(sp['tail'])
                cl = 'send 0' if n == 0 else 'send <=125' if n <= 125 else 'send <=65535' if n <= 65535 else 'send >65535'
                st['payload_len_classes'][cl] = st['payload_len_classes'].get(cl, 0) + 1
            else:
                st['app_close'] = st.get('app_close', 0) + 1
        for it in c['items']:
            if it['t'] == 'close':
                st['peer_close'] = st.get('peer_close', 0) + 1
            if it['t'] == 'msg' and it['fcuts']:
                st['fragmented_msgs'] += 1
                st['ctl_inside_fragmented'] += sum(len(x) for x in it['ctls'][:-1])

    # ---- implementation
    def impl(self, c):
        if c['k'] == 'rfc':
            return hexs(rfc_encode(c['fin'], c['op'], c['key'], spec_bytes(c['p'])))
        if c['k'] == 'cup':
            return self.impl_cup(c)
        if c['k'] == 'disp':
            return self.impl_disp(c)
        client = c['mode'] == 'client'
        sock = None if client else FakeSock(1)
        other = FakeSock(2)
        ur = Urandom(c['keys'])
        saved = ws_mod.os
        ws_mod.os = ur
        try:
            p = Parent()
            App(p).register(p)
            p.cur = {'d': [], 'w': [], 'c': 0}
            ops = case_ops(c)
            if ops and ops[0][0] == 'init':
                codec = WebSocketCodec(sock, data=ops[0][1], channel='ws').register(p)
            else:
                codec = WebSocketCodec(sock, channel='ws').register(p)
                drain(p)
            outs, used = [], []
            for op in ops:
                if op[0] != 'init':
                    p.cur = {'d': [], 'w': [], 'c': 0}
                if op[0] == 'init':
                    pass
                elif op[0] == 'recv':
                    p.fire(read(op[1]) if client else read(sock, op[1]), 'parent')
                    if not client and len(op[1]) % 3 == 0:
                        # a read for another connection of the same server must not reach this codec
                        p.fire(read(other, b'\x81\x01x'), 'parent')
                elif op[0] == 'send':
                    data = op[2].decode('utf-8') if op[1] else bytearray(op[2])
                    p.fire(write(data) if client else write(sock, data), 'ws')
                else:
                    p.fire(close() if client else close(sock), 'ws')
                drain(p)
                if p.errors:
                    raise ImplError('%s in a handler: %s' % p.errors[0])
                d = []
                for (s, m) in p.cur['d']:
                    if s is not sock:
                        raise ImplError('message delivered for the wrong socket %r' % (s,))
                    if isinstance(m, str):
                        d.append([1, hexs(m.encode('utf-8', 'surrogatepass'))])
                    else:
                        d.append([0, hexs(m)])
                for (s, b) in p.cur['w']:
                    if s is not sock:
                        raise ImplError('frame written to the wrong socket %r' % (s,))
                outs.append({'d': d, 'w': [hexs(b) for (_, b) in p.cur['w']], 'c': p.cur['c']})
                for (_, b) in p.cur['w']:
                    # the masking key the implementation actually drew for this frame (the model's key oracle is
                    # this table, so the check does not depend on *how* the code obtains its random bytes)
                    if len(b) >= 2 and b[1] & 0x80:
                        off = 2 + {126: 2, 127: 8}.get(b[1] & 0x7F, 0)
                        used.append(list(b[off:off + 4]))
            self._recorded[id(c)] = (c, used)
            return {'outs': outs, 'drawn': ur.drawn}
        finally:
            ws_mod.os = saved

    def impl_cup(self, c):
        """the real WebSocketClient (its TCPClient child replaced by a recording transport) fed with the 101
        response and the server's frames"""
        ur = Urandom(c['keys'])
        saved_os, saved_tcp = ws_mod.os, wsclient_mod.TCPClient
        ws_mod.os = ur
        wsclient_mod.TCPClient = FakeTransport
        try:
            root = Errors()
            cl = wsclient_mod.WebSocketClient('ws://example.org/chat').register(root)
        finally:
            wsclient_mod.TCPClient = saved_tcp
        try:
            tr = cl._transport
            ClientApp(tr).register(root)
            drain(root)
            outs, used = [], []
            for op in cup_ops(c):
                tr.cur = {'d': [], 'w': [], 'c': 0}
                if op[0] == 'recv':
                    root.fire(read(op[1]), 'wsclient')
                elif op[0] == 'send':
                    root.fire(write(op[2].decode('utf-8') if op[1] else bytearray(op[2])), 'ws')
                else:
                    root.fire(close(), 'ws')
                drain(root)
                if root.errors:
                    raise ImplError('%s in a handler: %s' % root.errors[0])
                outs.append({'d': [msg_obs(m) for (_, m) in tr.cur['d']], 'w': [hexs(b) for (_, b) in tr.cur['w']],
                             'c': tr.cur['c']})
                used += frame_keys([b for (_, b) in tr.cur['w']])
            self._recorded[id(c)] = (c, used)
            return {'outs': outs}
        finally:
            ws_mod.os = saved_os

    def impl_disp(self, c):
        """the real WebSocketsDispatcher under the real web HTTP component and a fake server"""
        root = Errors()
        srv = FakeServer().register(root)
        WebSocketsDispatcher('/ws').register(srv)
        ServerApp(srv).register(root)
        drain(root)
        socks = {}
        try:
            outs = []
            for op in disp_ops(c):
                n = op[1]
                sock = socks.setdefault(n, RealSock(n))
                srv.cur = {}
                if op[0] == 'up':
                    rc = c['socks'][str(n)]['req_cut']
                    for part in ([REQUEST[:rc], REQUEST[rc:]] if rc else [REQUEST]):
                        root.fire(read(sock, part), 'web')
                        drain(root)
                    sl = srv.slot(n)
                    if not (len(sl['w']) >= 1 and sl['w'][0].startswith(b'HTTP/1.1 101') and sl['connect'] == 1):
                        raise ImplError('handshake not accepted: %r' % (sl,))
                    sl['w'] = sl['w'][1:]      # the 101 response itself is not the codec's output
                elif op[0] in ('read', 'late'):
                    root.fire(read(sock, op[2]), 'web')
                elif op[0] == 'send':
                    root.fire(write(sock, op[3].decode('utf-8') if op[2] else bytearray(op[3])), 'wsserver')
                elif op[0] == 'disc':
                    root.fire(disconnect(sock), 'web')
                drain(root)
                if root.errors:
                    raise ImplError('%s in a handler: %s' % root.errors[0])
                for m, sl in srv.cur.items():
                    if m != n and (sl['d'] or sl['w'] or sl['c']):
                        raise ImplError('operation on socket %d produced output for socket %d' % (n, m))
                sl = srv.slot(n)
                o = {'s': n, 'd': [msg_obs(m) for m in sl['d']], 'w': [hexs(b) for b in sl['w']], 'c': sl['c']}
                if op[0] in ('late', 'disc'):
                    # what the HTTP server answers to frame bytes on a connection without codec is not the codec's output
                    o['w'], o['c'] = [], 0
                outs.append(o)
            return {'outs': outs}
        finally:
            for sk in socks.values():
                sk.close()

    # ---- model
    def _ops_term(self, ops):
        groups, single = [], []      # runs of one-byte reads are written  map (fun b => Recv [b]) bytes

        def flush_single():
            if single:
                groups.append('map (fun b => Recv [b]) %s' % nlist(single))
                del single[:]
        for op in ops:
            if op[0] in ('recv', 'init') and len(op[1]) == 1:
                single.append(op[1][0])
                continue
            flush_single()
            if op[0] in ('recv', 'init'):      # (constructor data is decoded at registration, like a read)
                groups.append('[Recv %s]' % coq_bytes(op[1]))
            elif op[0] == 'send':
                groups.append('[Send %s %s]' % ('true' if op[1] else 'false', coq_bytes(op[2])))
            else:
                groups.append('[Close]')
        flush_single()
        return ' ++ '.join(groups) if groups else '[]'

    def model_term(self, c):
        if c['k'] == 'cup':
            rec = self._recorded.get(id(c))
            keylist = rec[1] if rec is not None and rec[0] is c else c['keys']
            ops = []
            for op in cup_ops(c):
                if op[0] == 'recv':
                    ops.append('CRead %s' % coq_bytes(op[1]))
                elif op[0] == 'send':
                    ops.append('CApp (Send %s %s)' % ('true' if op[1] else 'false', coq_bytes(op[2])))
                else:
                    ops.append('CApp Close')
            return 'obs_cup [%s] [%s]' % ('; '.join(nlist(k) for k in keylist), '; '.join(ops))
        if c['k'] == 'disp':
            ops = []
            for op in disp_ops(c):
                n = op[1]
                if op[0] == 'up':
                    ops.append('DUpgrade %d%%nat' % n)
                elif op[0] in ('read', 'late'):
                    ops.append('DRead %d%%nat %s' % (n, coq_bytes(op[2])))
                elif op[0] == 'send':
                    ops.append('DSend %d%%nat %s %s' % (n, 'true' if op[2] else 'false', coq_bytes(op[3])))
                else:
                    ops.append('DDisconnect %d%%nat' % n)
            return 'obs_disp [%s]' % '; '.join(ops)
        if c['k'] == 'rfc':
            key = 'None' if c['key'] is None else '(Some (%d, %d, %d, %d)%%N)' % tuple(c['key'])
            return 'obs_rfc %s %d%%N %s %s' % ('true' if c['fin'] else 'false', c['op'], key, coq_bytes(spec_bytes(c['p'])))
        rec = self._recorded.get(id(c))
        keylist = rec[1] if rec is not None and rec[0] is c else c['keys']
        keys = '[%s]' % '; '.join(nlist(k) for k in keylist)
        return 'obs_ws %s %s %s (%s)' % ('true' if c.get('lax') else 'false', 'true' if c['mode'] == 'client' else 'false',
                                         keys, self._ops_term(case_ops(c)))

    def obs_for_model(self, c, obs):
        if isinstance(obs, dict) and '__crash__' in obs:
            return [-999]
        if c['k'] == 'rfc':
            return summary(bytes.fromhex(obs))
        lax = bool(c.get('lax'))

        def out(o):
            return [[[bool(t), b'' if lax and t else summary(bytes.fromhex(h))] for t, h in o['d']],
                    summary(b''.join(bytes.fromhex(h) for h in o['w'])), o['c']]
        if c['k'] == 'disp':
            return [[o['s'], out(o)] for o in obs['outs']]
        return [out(o) for o in obs['outs']]

    # ---- oracle: the property read directly, against the harness' own RFC codec
    def oracle(self, c, obs):
        if isinstance(obs, dict) and '__crash__' in obs:
            return None          # reported by the framework as "implementation raised"
        if c['k'] == 'rfc':
            return None
        if c['k'] == 'cup':
            return self._oracle_cup(c, obs)
        if c['k'] == 'disp':
            return self._oracle_disp(c, obs)
        return self._oracle_ws(c, obs)

    def _oracle_cup(self, c, obs):
        # bytes following the 101 response must be decoded exactly once: the client behaves like a client-mode
        # codec that received exactly those bytes (same cuts), whatever the cut of the response itself
        H = len(RESPONSES[c['head']])
        data = case_stream(c)[0]
        L = H + len(data)
        bounds = sorted(set(x for x in c['cuts'] if 0 < x < L)) + [L]
        k0 = [i for i, b in enumerate(bounds) if b > H]
        k0 = k0[0] if k0 else len(bounds)
        outs = obs['outs']
        for o in outs[:k0]:
            if o['d'] or o['w'] or o['c']:
                return 'output before the handshake response was complete: %r' % (o,)
        e = {'k': 'ws', 'mode': 'client', 'items': c['items'], 'cuts': [x - H for x in c['cuts'] if x > H],
             'app': [[a[0] - k0] + a[1:] for a in c['app']], 'keys': c['keys']}
        return self._oracle_ws(e, {'outs': outs[k0:]})

    def _oracle_disp(self, c, obs):
        ops = disp_ops(c)
        outs = obs['outs']
        if len(outs) != len(ops):
            return 'driver: %d outputs for %d operations' % (len(outs), len(ops))
        for k, sc in c['socks'].items():
            n = int(k)
            mine = [(op, o) for op, o in zip(ops, outs) if op[1] == n]
            late = [o for op, o in mine if op[0] == 'late']
            if any(o['d'] for o in late):
                return 'socket %d: a frame arriving after disconnect was decoded and delivered' % n
            got = [(bool(t), bytes.fromhex(h)) for op, o in mine if op[0] != 'late' for (t, h) in o['d']]
            want = [(bool(it['text']), spec_bytes(it['p'])) for it in sc['items']]
            if got != want:
                return 'socket %d: delivered %r.., its peer sent %r..' % (n, [(t, len(p), p[:8]) for t, p in got][:4],
                                                                         [(t, len(p), p[:8]) for t, p in want][:4])
            wbytes = b''.join(bytes.fromhex(h) for op, o in mine for h in o['w'])
            try:
                wframes = rfc_decode_stream(wbytes, expect_masked=False)
            except BadFrame as e:
                return 'socket %d: bytes written are not a conforming frame sequence: %s' % (n, e)
            sent = [(bool(op[2]), op[3]) for op, o in mine if op[0] == 'send']
            if [(op == 1, p) for (fin, op, p) in wframes if op in (1, 2)] != sent:
                return 'socket %d: data frames written do not decode to what the application wrote' % n
            pings = [bytes(ct['p']) for it in sc['items'] for cl in it['ctls'] for ct in cl if ct['t'] == 'ping']
            if [p for (fin, op, p) in wframes if op == 10] != pings:
                return 'socket %d: pongs do not answer the pings' % n
            if any(op not in (1, 2, 10) or not fin for (fin, op, p) in wframes):
                return 'socket %d: unexpected frame written' % n
        return None

    def _oracle_ws(self, c, obs):
        client = c['mode'] == 'client'
        data, fr, ends = case_stream(c)
        chunks, pts = case_chunks(c, data)
        bounds = pts + [len(data)]                    # end offset of chunk i
        ops = case_ops(c)
        outs = obs['outs']
        if len(outs) != len(ops):
            return 'driver: %d outputs for %d operations' % (len(outs), len(ops))

        # what the peer sent, as messages (a direct reading of the item list, no decoding involved)
        exp_msgs, pings, close_at = [], [], None     # pings: (end offset, payload)
        for ix, it in enumerate(c['items']):
            if it['t'] == 'close':
                close_at = ends[[k for k, f in enumerate(fr) if f[4] == (ix, 'close')][0]]
                break
            if it['t'] == 'msg':
                last = [k for k, f in enumerate(fr) if f[4] == (ix, 'frag')][-1]
                exp_msgs.append((ends[last], bool(it['text']), spec_bytes(it['p'])))
            for k, f in enumerate(fr):
                if f[4] == (ix, 'ping'):
                    pings.append((ends[k], f[3]))
        pings.sort()

        # when does the endpoint send its close frame: application close, or reply to the peer's close
        def chunk_of(off):       # index of the read in which the byte before offset `off` arrives
            return [i for i, b in enumerate(bounds) if off <= b][0]
        t, recv_i, local_close_t, peer_close_t, t_of_chunk = 0, 0, None, None, {}
        for k, op in enumerate(ops):
            if op[0] in ('recv', 'init'):
                t_of_chunk[recv_i] = k
                recv_i += 1
        if close_at is not None:
            peer_close_t = t_of_chunk[chunk_of(close_at)]
        for k, op in enumerate(ops):
            if op[0] == 'close':
                local_close_t = k
                break
        close_sent_t = min([x for x in (local_close_t, peer_close_t) if x is not None], default=None)

        # (1) delivered messages: exactly the peer's messages before its close frame, type and payload
        got = [(bool(t_), bytes.fromhex(h)) for o in outs for (t_, h) in o['d']]
        if c.get('lax'):
            # invalid UTF-8 in a text message: str is decode('utf-8', 'replace') of the bytes; the stream stays in sync
            exp_msgs = [(e, tx, p.decode('utf-8', 'replace').encode('utf-8') if tx else p) for (e, tx, p) in exp_msgs]
        want = [(tx, p) for (_, tx, p) in exp_msgs]
        must = [(tx, p) for (e, tx, p) in exp_msgs if close_sent_t is None or t_of_chunk[chunk_of(e)] < close_sent_t
                or peer_close_t == close_sent_t]
        if got != want and not (close_sent_t is not None and got == want[:len(got)] and len(got) >= len(must)):
            for i, (g, w) in enumerate(zip(got, want)):
                if g != w:
                    return ('message %d delivered as %s len %d %r.., peer sent %s len %d %r..'
                            % (i, 'text' if g[0] else 'binary', len(g[1]), g[1][:12], 'text' if w[0] else 'binary', len(w[1]), w[1][:12]))
            return '%d messages delivered, the peer sent %d before its close frame' % (len(got), len(want))
        # nothing is delivered after the peer's close frame has been read
        if peer_close_t is not None and any(o['d'] for o in outs[peer_close_t + 1:]):
            return 'a message is delivered after the peer\'s close frame'

        # (2) everything written must be decodable by a strict conforming peer
        wbytes = b''.join(bytes.fromhex(h) for o in outs for h in o['w'])
        try:
            wframes = rfc_decode_stream(wbytes, expect_masked=client)
        except BadFrame as e:
            return 'bytes written are not a conforming frame sequence: %s' % e
        sent_want = [(bool(op[1]), op[2]) for k, op in enumerate(ops)
                     if op[0] == 'send' and (close_sent_t is None or k < close_sent_t)]
        sent_got = [(op == 1, p) for (fin, op, p) in wframes if op in (1, 2)]
        if any(not fin for (fin, op, p) in wframes) or any(op == 0 for (fin, op, p) in wframes):
            # fragmenting would be conforming; the check reassembles only what the code is known to produce
            return 'endpoint wrote a non-final / continuation frame (not expected from this codec)'
        if sent_got != sent_want:
            return ('data frames written decode to %r.., application wrote %r..'
                    % ([(t_, len(p), p[:8]) for t_, p in sent_got][:4], [(t_, len(p), p[:8]) for t_, p in sent_want][:4]))
        # (3) pongs: same payload as the ping, in order; mandatory while no close frame has been sent
        pong_got = [p for (fin, op, p) in wframes if op == 10]
        effective = [(e, p) for (e, p) in pings]
        mand = [p for (e, p) in effective if close_sent_t is None or t_of_chunk[chunk_of(e)] < close_sent_t
                or peer_close_t == close_sent_t]
        allp = [p for (e, p) in effective]
        if not (pong_got[:len(mand)] == mand and pong_got == allp[:len(pong_got)]):
            return 'pong payloads %r.. do not answer the pings %r..' % ([bytes(p[:10]) for p in pong_got][:4], [bytes(p[:10]) for p in allp][:4])
        # (4) close: one close frame iff a close happened, and no data frame after it
        ncl = sum(1 for (fin, op, p) in wframes if op == 8)
        if ncl != (1 if close_sent_t is not None else 0):
            return '%d close frames written, expected %d' % (ncl, 1 if close_sent_t is not None else 0)
        if ncl:
            after = wframes[[k for k, f in enumerate(wframes) if f[1] == 8][0] + 1:]
            if any(op in (0, 1, 2) for (fin, op, p) in after):
                return 'a data frame is written after the close frame'
        if any(op not in (1, 2, 8, 10) for (fin, op, p) in wframes):
            return 'unexpected frame written: opcodes %r' % [op for (fin, op, p) in wframes]
        return None

    def finding_class(self, c, obs, what):
        return None

    def nontrivial(self, c, obs):
        if c['k'] == 'cup':
            return bool(c['cuts'])
        if c['k'] == 'disp':
            return len(c['order']) > 3
        if c['k'] != 'ws':
            return False
        data, fr, ends = case_stream(c)
        inside = any(x not in ends for x in c['cuts'])
        return inside or any(it['t'] == 'msg' and it['fcuts'] for it in c['items']) or bool(c['app'])

    def search(self, rng, tier):
        return [self.gen_case(rng, 'thorough') for _ in range(3000)]


# smaller shards than the framework default: the cases files evaluate in parallel
_orig_mismatches = common.coq_mismatches
common.coq_mismatches = lambda pid, imports, pairs, shard=70: _orig_mismatches(pid, imports, pairs, shard=shard)


if __name__ == '__main__':
    sys.exit(common.main(C17()))
