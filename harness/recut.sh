#!/bin/bash
# recut.sh <dir-with-patch.diff>: re-base a seeded/harmless patch on /repo HEAD with a 3-way merge (after a fix: commit touched the same lines)
d="$1"; wt=/tmp/recut_$$
git -C /repo worktree add --detach $wt HEAD -q || exit 2
if git -C $wt apply --check "$d/patch.diff" 2>/dev/null; then echo "$d: applies as is"; git -C /repo worktree remove --force $wt; exit 0; fi
if git -C $wt apply --3way "$d/patch.diff" >/dev/null 2>&1 && ! git -C $wt diff --name-only --diff-filter=U | grep -q .; then
  git -C $wt diff HEAD > "$d/patch.diff.new" && mv "$d/patch.diff.new" "$d/patch.diff"; echo "$d: re-cut"
else echo "$d: CONFLICT"; fi
git -C /repo worktree remove --force $wt
