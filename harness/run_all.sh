#!/bin/bash
# run every integrated check (quick tier unless $1 = thorough), 4 at a time; summary at the end
cd "$(dirname "$0")/.."
tier="${1:-quick}"
ids=$(cat harness/integrated.txt)
mkdir -p build/runall
printf '%s\n' $ids | xargs -P 4 -I{} bash -c "./check {} --tier $tier > build/runall/{}.log 2>&1; echo \"{} rc=\$?\" >> build/runall/summary.tmp"
sort build/runall/summary.tmp; rm -f build/runall/summary.tmp
grep -h "VIOLATION\|KNOWN-FINDING" build/runall/*.log | sort | uniq -c
