#!/bin/bash
# coqchk.sh: re-check every compiled Props/*.vo (and everything it depends on) with Coq's independent checker and
# record the axioms it reports in coq/coqchk.log (committed; DESIGN.md §11.0 quotes it). Takes several minutes and GBs.
cd "$(dirname "$0")/../coq"
mods=$(ls theories/Props/*.v | sed 's#theories/Props/\(.*\)\.v#Circ.Props.\1#')
( date -u +"%Y-%m-%dT%H:%M:%SZ"; git -C .. rev-parse --short HEAD; echo "coqchk -silent -o -Q theories Circ $mods" | tr '\n' ' '; echo
  ulimit -s unlimited 2>/dev/null; timeout 3600 coqchk -silent -o -Q theories Circ $mods 2>&1 | tail -40 ) > coqchk.log.tmp
mv coqchk.log.tmp coqchk.log; tail -15 coqchk.log
