#!/bin/bash
# validate_harmless.sh <name> <srcdir>: apply a behaviour-preserving refactoring to a fresh worktree of /repo HEAD and run the property's check; it must stay silent
cd "$(dirname "$0")/.."
name="$1"; src="$2"; prop="${name%_*}"
wt=/tmp/chkref_$name
git -C /repo worktree remove --force $wt 2>/dev/null
git -C /repo worktree add --detach $wt HEAD -q || exit 2
if ! git -C $wt apply "$src/patch.diff"; then echo "$name: patch does not apply to HEAD"; git -C /repo worktree remove --force $wt; exit 3; fi
out=$(VERIF_NO_EVIDENCE=1 VERIF_REPO=$wt ./check $prop 2>&1); rc=$?
git -C /repo worktree remove --force $wt
echo "$name: rc=$rc $(echo "$out" | grep -m1 '^VIOLATION') $(echo "$out" | grep -m1 'what:\|broken:' | cut -c1-200)"
echo "$out" | tail -1
