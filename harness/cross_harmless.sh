#!/bin/bash
# cross_harmless.sh <name> ["Cxx Cyy"]: apply harmless/<name>/patch.diff to a fresh worktree of /repo HEAD and run EVERY integrated check on it;
# every check must stay silent (a refactoring of one property's files often touches private names other harnesses look at)
cd "$(dirname "$0")/.."
name="$1"; wt=/tmp/xref_$name
git -C /repo worktree remove --force $wt 2>/dev/null
git -C /repo worktree add --detach $wt HEAD -q || exit 2
if ! git -C $wt apply "/verif/harmless/$name/patch.diff"; then echo "$name: patch does not apply to HEAD"; git -C /repo worktree remove --force $wt; exit 3; fi
mkdir -p build/xref
for p in ${2:-$(cat harness/integrated.txt)}; do echo $p; done | xargs -P 5 -I{} bash -c "VERIF_NO_EVIDENCE=1 VERIF_REPO=$wt ./check {} > build/xref/${name}_{}.log 2>&1; echo \"{} rc=\$?\"" | grep -v "rc=0" | tr '\n' ' ' > build/xref/$name.summary
git -C /repo worktree remove --force $wt
echo "$name: non-silent: $(cat build/xref/$name.summary)"
