"""Merge findings.d/*.json fragments into known_findings.json (run by hand when integrating a property; never by a check)."""
import json, os
V = os.path.dirname(os.path.dirname(os.path.abspath(__file__)))
kf = json.load(open(os.path.join(V, 'known_findings.json')))
ids = {f['id'] for f in kf['findings']}
d = os.path.join(V, 'findings.d')
integrated = set(open(os.path.join(V, 'harness', 'integrated.txt')).read().split())
for fn in sorted(os.listdir(d)) if os.path.isdir(d) else []:
    if not fn.endswith('.json') or fn[:-5] not in integrated:
        continue
    frag = json.load(open(os.path.join(d, fn)))
    for f in frag.get('findings', []):
        if f['id'] in ids:
            kf['findings'] = [f if g['id'] == f['id'] else g for g in kf['findings']]
        else:
            kf['findings'].append(f); ids.add(f['id'])
    for line in frag.get('fixed', []):
        if line not in kf['fixed']:
            kf['fixed'].append(line)
json.dump(kf, open(os.path.join(V, 'known_findings.json'), 'w'), indent=1)
print(len(kf['findings']), 'findings,', len(kf['fixed']), 'fixed')
