"""C15 — every HTTP response is a well-formed, self-delimiting message with exact body.

Drives the real HTTP component (circuits.web.http.HTTP + Dispatcher + a Controller) in-process over a fake
socket, captures the write/close events per request, and
  * oracle: decodes them with http.client.HTTPResponse (independent implementation) and compares status,
    application header, body bytes, delimiting and close behaviour with what the handler produced;
  * correspondence: compares the exact write events (Date header removed) and the close flag with
    Model/HttpResponse.v `respond`.
"""
import sys, os, io, socket, http.client, itertools
sys.path.insert(0, os.path.dirname(os.path.abspath(__file__)))
import common
from common import Prop, nlist

from circuits import Manager, BaseComponent, handler
from circuits.web.http import HTTP
from circuits.web.dispatchers import Dispatcher
from circuits.web import Controller
from circuits.web.wsgi import Gateway
from circuits.web.exceptions import Redirect
from circuits.net.events import read
from circuits.web.constants import HTTP_STATUS_CODES

BUFSIZE = 4096          # chunk size of wrappers.file_generator (circuits.net.sockets.BUFSIZE)
try:
    from circuits.net.sockets import BUFSIZE as _B
    BUFSIZE = int(_B)
except Exception:       # a rename degrades the observable instead of raising
    pass

CONTENT = ('str', 'bytes', 'list', 'yield', 'iter', 'file', 'rstream', 'wsgi_list', 'wsgi_gen', 'wsgi_write')
ERRORS = ('none', 'forbidden', 'redirect', 'raise', 'yield0', 'redirect304', 'raise_redirect')   # yield0: generator handler that never yields
WSGI = ('wsgi_list', 'wsgi_gen', 'wsgi_write')
ITER = ('iter', 'file', 'rstream', 'wsgi_gen')       # body is an iterator whose length prepare() does not compute
REQ_COOKIES = ['a=1', 'b=2']              # Cookie: a=1; b=2 is echoed by Response.prepare as Set-Cookie lines
APP_COOKIE = 'c=x; Path=/'

# the correspondence runs in shards of this many cases (8 coqc in parallel): smaller shards, shorter wall time
common.coq_mismatches.__defaults__ = (110,)
STATUSES = [None, 200, 201, 204, 205, 304, 101, 102, 404, 500, 413, 299]
NOBODY_PROP = lambda s: (100 <= s < 200) or s in (204, 304)


class FakeSock(socket.socket):
    def __init__(self):
        pass

    def getpeername(self):
        return ('127.0.0.1', 5555)

    def getsockname(self):
        return ('127.0.0.1', 8000)

    def __hash__(self):
        return id(self)

    def __eq__(self, o):
        return self is o

    def close(self):
        pass

    def __del__(self):
        pass


class FakeServer(BaseComponent):
    channel = 'web'
    host = '127.0.0.1'
    port = 8000
    secure = False
    display_banner = False

    def __init__(self):
        super().__init__()
        self.http = HTTP(self, channel='web').register(self)
        Gateway({'/w': wsgi_app}).register(self)


class Probe(BaseComponent):
    channel = 'web'

    def init(self):
        self.log = []

    @handler('write', priority=100)
    def _w(self, sock, data):
        self.log.append(('w', bytes(data)))

    @handler('close', priority=100)
    def _c(self, sock=None):
        self.log.append(('c',))


def piece(p):
    """['s'|'b', pattern, repeat] -> the python object the handler produces"""
    t, pat, n = p
    return (pat * n) if t == 's' else (pat.encode('latin1') * n)


def piece_bytes(p):
    o = piece(p)
    return o.encode('utf-8') if isinstance(o, str) else o


def piece_coq(p):
    t, pat, n = p
    b = pat.encode('utf-8') if t == 's' else pat.encode('latin1')
    if n > 8 and len(b) > 0:
        return '(repN %d%%N %s)' % (n, nlist(b))
    return nlist(b * n)


SPECS = []


class Root(Controller):
    def index(self, i='0'):
        h = SPECS[int(i)]
        res = self.response
        res.headers['X-Tag'] = h['tag']
        if h.get('ct'):
            res.headers['Content-Type'] = h['ct']
        if h.get('cl') is not None:
            res.headers['Content-Length'] = app_cl_value(h)
        if h.get('status') is not None:
            res.status = h['status']
        if h.get('cookie'):
            self.cookie['c'] = 'x'
            self.cookie['c']['path'] = '/'
        k = h['kind']
        ps = [piece(p) for p in h['chunks']]
        if k in ('str', 'bytes', 'list', 'yield') and h.get('stream'):
            res.stream = True
        if k == 'str':
            return ''.join(ps)
        if k == 'bytes':
            return b''.join(ps)
        if k == 'list':
            return list(ps)
        if k in ('yield', 'yield0'):
            return _gen(ps)          # same as a handler whose body contains the yields (yield0: none at all)
        if k == 'raise':
            raise ValueError('handler failed')
        if k == 'iter':
            res.body = _gen(ps)
            res.stream = bool(h.get('stream'))
            return res
        if k == 'file':
            return io.BytesIO(b''.join(ps))
        if k == 'rstream':
            src = ScriptedStream([piece_bytes(p) for p in h['chunks']])
            if h.get('stream'):
                return src                  # Body.__set__ wraps it in file_generator and sets Response.stream
            res.body = src
            res.stream = False              # not streamed: _on_response joins the generator's pieces
            return res
        if k == 'none':
            return None
        if k == 'forbidden':
            return self.forbidden()
        if k == 'redirect':
            return self.redirect('/t')
        if k == 'redirect304':
            return self.redirect('/t', 304)
        if k == 'raise_redirect':
            raise Redirect('/t')
        raise ValueError(k)


def _gen(ps):
    for p in ps:
        yield p


def expected_body(h):
    """the body bytes the application produced; for a stream (kind rstream: an object with read() whose successive
    reads return the pieces) everything read() returns until it returns an empty result"""
    out = []
    for p in h['chunks']:
        b = piece_bytes(p)
        if h['kind'] == 'rstream' and not b:
            break
        out.append(b)
    return b''.join(out)


def app_cl_value(h):
    """Content-Length the application sets itself: 'true' = the real length, anything else verbatim"""
    if h['cl'] == 'true':
        return str(len(expected_body(h)))
    return h['cl']


class ScriptedStream:
    """a body with a read() method whose reads may be short (pipe, raw socket, decompressor): read(n) returns the
    next scripted piece (at most n bytes of it), an empty piece or the end of the script reads as b''"""

    def __init__(self, pieces):
        self.q = list(pieces)
        self.closed = False

    def read(self, n=-1):
        if not self.q:
            return b''
        p = self.q[0]
        if n is None or n < 0 or len(p) <= n:
            self.q.pop(0)
            return p
        self.q[0] = p[n:]
        return p[:n]

    def close(self):
        self.closed = True


def reads_coq(pieces):
    """the read(BUFSIZE) results of a ScriptedStream over the pieces, as Coq terms (script order, an over-long
    piece comes back in BUFSIZE slices); the exhausted source's empty read closes the list"""
    out = []
    for p in pieces:
        t, pat, n = p
        pb = pat.encode('utf-8') if t == 's' else pat.encode('latin1')
        total = len(pb) * n
        if total <= BUFSIZE:
            out.append(piece_coq(p))
        elif len(pb) == 1:
            full, rest = divmod(total, BUFSIZE)
            out += ['(repN %d%%N %s)' % (BUFSIZE, nlist(pb))] * full + (['(repN %d%%N %s)' % (rest, nlist(pb))] if rest else [])
        else:
            b = pb * n
            out += [nlist(b[j:j + BUFSIZE]) for j in range(0, total, BUFSIZE)]
    return out + ['[]%N']


def wsgi_app(environ, start_response):
    """WSGI application behind circuits.web.wsgi.Gateway, scripted by SPECS like the controller"""
    h = SPECS[int(environ['QUERY_STRING'].split('=')[1])]
    status = h['status'] if h.get('status') is not None else 200
    headers = [('X-Tag', h['tag'])]
    if h.get('ct'):
        headers.append(('Content-Type', h['ct']))
    if h.get('cl') is not None:
        headers.append(('Content-Length', app_cl_value(h)))
    write = start_response('%d %s' % (status, HTTP_STATUS_CODES.get(status, 'X')), headers)
    ps = [piece(p) for p in h['chunks']]
    if h['kind'] == 'wsgi_list':
        return list(ps)
    if h['kind'] == 'wsgi_write':
        for p in ps:
            write(p)
        return []
    return _gen(ps)


PATHS = {'dotdot': '/x/../', 'dslash': '//'}    # request paths not in normal form: HTTP._on_read answers 301 itself


def guard301(r):
    """the request is answered by the server's own redirect to the normal form of the path, not by the handler"""
    return r.get('path') in PATHS and r['h']['kind'] not in WSGI


def req_bytes(i, r):
    path = PATHS[r['path']] if guard301(r) else '/'
    s = '%s %s%s?i=%d HTTP/%s\r\n' % (r['m'], path, 'w' if r['h']['kind'] in WSGI else '', i, r['v'])
    s += 'Host: x\r\n'
    if r.get('cookie'):
        s += 'Cookie: %s\r\n' % '; '.join(REQ_COOKIES)
    if r.get('conn'):
        s += 'Connection: %s\r\n' % r['conn']
    return (s + '\r\n').encode('ascii')


def wants_close(r):
    if r.get('conn') == 'close':
        return True
    if r.get('conn') == 'keep-alive':
        return False
    return r['v'] == '1.0'


class _BIO(io.BytesIO):
    def close(self):     # http.client closes the file at the end of the body; we still need tell()
        pass


class _CSock:
    def __init__(self, data):
        self.f = _BIO(data)

    def makefile(self, *a, **k):
        return self.f


def client_decode(data, method):
    """independent HTTP client: -> (status, headers(list), body, will_close, consumed) or raises"""
    cs = _CSock(data)
    r = http.client.HTTPResponse(cs, method=method)
    r.begin()
    will_close = bool(r.will_close)
    body = r.read()
    return r.status, r.getheaders(), body, will_close, cs.f.tell()


def rle(w):
    """a write event as the harness states it to Coq: literally up to 64 bytes, else (-2, length, checksum);
    same function as Model/HttpResponseObs.v Tw"""
    if len(w) <= 64:
        return w
    a = 7
    for x in w:
        a = (a * 257 + x + 1) % 4294967291
    return [-2, len(w), a]


def bytes_coq(b):
    """compact Coq term for a byte string: printable ASCII runs as string literals, the rest as numbers"""
    out, i, n = [], 0, len(b)
    ok = lambda x: 32 <= x < 127 and x != 34
    while i < n:
        j = i
        while j < n and ok(b[j]):
            j += 1
        if j - i >= 4:
            out.append('str "%s"' % b[i:j].decode('ascii'))
            i = j
            continue
        j = i
        while j < n and not (ok(b[j]) and all(ok(x) for x in b[j:j + 4]) and j + 4 <= n):
            j += 1
        out.append(nlist(b[i:j]))
        i = j
    return '(%s)' % ' ++ '.join(out) if out else '[]%N'


def strip_date(b):
    i = b.find(b'\r\nDate: ')
    if i < 0:
        return b
    j = b.find(b'\r\n', i + 2)
    return b[:i] + b[j:]


class C15(Prop):
    id = 'C15'
    props_file = 'Props/C15.v'
    imports = ['Model.HttpResponse', 'Model.HttpResponseObs']
    quick_n = 200
    thorough_n = 4000
    rule = ('every run: the full product {str,bytes,list,yield,iterator(stream on/off),file,404,403,redirect} x 7 (thorough: 12) statuses x '
            'HTTP/1.0|1.1 x Connection close|keep-alive|absent x GET|HEAD as single requests with small bodies, plus random '
            'sequences of 1-4 such requests on one connection with bodies up to 3 x BUFSIZE, empty pieces, non-ASCII text; '
            'raising and never-yielding handlers, WSGI Gateway applications, own Content-Length, cookies; real HTTP component over a fake socket; output decoded by http.client and, up to 2 KB, by the Coq client. non-trivial = a body-bearing response, or a '
            'sequence of >= 2 requests')
    trusted_base = ['hand-written model Model/HttpResponse.v (prepare decision + writer + independent parser) tied to /repo by this run',
                    'python oracle in harness/c15.py using http.client.HTTPResponse as the independent client',
                    'write/close events on channel web are taken as the bytes on the wire (socket layer is C11/C12)']
    assumptions = ['application sets neither Transfer-Encoding nor Connection itself (passed through verbatim / added on top of the computed framing); '
                   'a Content-Length it sets on an iterator body is the true length (on sized bodies it is overwritten: modelled and proved); '
                   'header values and cookies contain no CR/LF and are ASCII',
                   'error pages of errors.py: only length and framing are modelled, not the content',
                   'status 100 is not generated (http.client skips 100 Continue by design)']

    # ------------------------------------------------------------------ generation
    def _handler(self, rng, kind=None, small=False):
        kind = kind or rng.choice(CONTENT * 3 + ERRORS)
        h = {'kind': kind, 'tag': str(rng.randint(0, 99)), 'status': None, 'chunks': [], 'stream': False}
        if kind in CONTENT:
            h['status'] = rng.choice([None] * 6 + STATUSES)
            if rng.random() < 0.15:
                h['ct'] = 'text/plain'
            t = {'str': 's', 'bytes': 'b', 'file': 'b', 'wsgi_list': 'b', 'wsgi_write': 's'}.get(kind)
            npieces = 1 if kind in ('str', 'bytes', 'file') else rng.randint(0 if kind != 'yield' else 1, 4)
            for _ in range(npieces):
                tt = t or rng.choice('sb')
                r = rng.random()
                if r < 0.25:
                    p = [tt, '', 0]
                elif r < 0.8 or small or kind == 'wsgi_write':
                    pat = rng.choice(['a', 'bc', 'h\xe9', 'x\r\n', '0\r\n\r\n', 'hello world'])
                    p = [tt, pat, rng.randint(1, 3)]
                else:
                    p = [tt, rng.choice(['x', 'y']), rng.choice([BUFSIZE - 1, BUFSIZE, BUFSIZE + 1, 3000, 2 * BUFSIZE + 5])]
                h['chunks'].append(p)
            r = rng.random()
            if kind in ITER and r < 0.3:
                h['cl'] = 'true'          # e.g. tools.serve_file, WSGI applications: own Content-Length on an iterator
            elif kind not in ITER and kind != 'wsgi_write' and r < 0.15:
                h['cl'] = rng.choice(['999', '0', 'true'])     # overwritten by prepare() for sized bodies
            if kind == 'rstream':
                h['chunks'] = self._read_script(rng)
                h['stream'] = rng.random() < 0.75
            if kind == 'iter':
                h['stream'] = rng.random() < 0.6
            elif kind in ('str', 'bytes', 'list', 'yield') and rng.random() < 0.2:
                # Response.stream on a complete body: str, bytes, list, or a generator the core runs as a coroutine
                if rng.random() < 0.3 and kind != 'yield':
                    h['chunks'] = [] if kind == 'list' else [['s' if kind == 'str' else 'b', '', 0]]
                h['stream'] = True
        if kind not in WSGI and rng.random() < 0.25:
            h['cookie'] = True
        return h

    READ_SCRIPTS = [            # sizes of what successive read(BUFSIZE) calls return; 0 = an empty read (end of the body)
        [1000, 5000], [1, 1, 1, 1, 1, 1], [BUFSIZE, BUFSIZE], [2 * BUFSIZE], [], [3, 1, 4], [5, 0, 7], [BUFSIZE - 1, 1, BUFSIZE + 1],
        [BUFSIZE], [1, BUFSIZE], [2, 3 * BUFSIZE, 2], [0], [700, 700, 700, 0, 9]]

    @staticmethod
    def _script_pieces(sizes):
        return [['b', chr(97 + i % 26), n] for i, n in enumerate(sizes)]

    def _read_script(self, rng):
        if rng.random() < 0.5:
            return self._script_pieces(rng.choice(self.READ_SCRIPTS))
        sizes = [rng.choice([1, 2, 3, 17, 1000, BUFSIZE - 1, BUFSIZE, BUFSIZE + 1, 5000]) for _ in range(rng.randint(0, 5))]
        if sizes and rng.random() < 0.15:
            sizes.insert(rng.randrange(len(sizes) + 1), 0)
        return self._script_pieces(sizes)

    def _req(self, rng, h):
        r = {'m': rng.choice(['GET', 'GET', 'HEAD']), 'v': rng.choice(['1.1', '1.1', '1.0']),
             'conn': rng.choice([None, None, 'close', 'keep-alive', 'keep-alive']), 'h': h}
        if rng.random() < 0.25:
            r['cookie'] = True
        if rng.random() < 0.06:
            r['path'] = rng.choice(sorted(PATHS))
        return r

    # answers the server or errors.py make (all of them close the connection today) and body-less ones, as
    # predecessors of further requests: every follow-up must get ITS OWN answer whatever preceded it
    PREDECESSORS = [('path', 'dotdot'), ('path', 'dslash'), ('kind', 'none'), ('kind', 'forbidden'), ('kind', 'redirect'),
                    ('kind', 'raise'), ('kind', 'raise_redirect'), ('kind', 'redirect304'), ('kind', 'yield0'),
                    ('status', 304), ('status', 204), ('status', 404), ('status', 301)]

    def followups(self, rng, n_each=1):
        cases = []
        for (what, val), v, m0 in itertools.product(self.PREDECESSORS, ['1.1', '1.0'], ['GET', 'HEAD']):
            for _ in range(n_each):
                if what == 'kind':
                    h0 = {'kind': val, 'tag': '0a', 'status': None, 'chunks': [], 'stream': False}
                else:
                    h0 = {'kind': 'str', 'tag': '0a', 'status': val if what == 'status' else None,
                          'chunks': [['s', 'first', 1]], 'stream': False}
                r0 = {'m': m0, 'v': v, 'conn': 'keep-alive', 'h': h0}
                if what == 'path':
                    r0['path'] = val
                if rng.random() < 0.3:
                    r0['cookie'] = True
                reqs = [r0]
                for j in (1, 2):
                    h = self._handler(rng, rng.choice(['str', 'bytes', 'list', 'iter', 'rstream', 'none', 'redirect']), True)
                    h['tag'] = '%d%s' % (j, 'bc'[j - 1])
                    reqs.append({'m': rng.choice(['GET', 'GET', 'HEAD']), 'v': v, 'conn': 'keep-alive' if j == 1 else None, 'h': h})
                    if rng.random() < 0.15:
                        reqs[-1]['path'] = rng.choice(sorted(PATHS))
                cases.append({'reqs': reqs})
        return cases

    def product(self, tier='thorough'):
        cases = []
        statuses = STATUSES if tier == 'thorough' else [None, 204, 205, 304, 101, 413, 299]
        kinds = [('str', False), ('bytes', False), ('list', False), ('yield', False), ('iter', False), ('iter', True),
                 ('file', False), ('rstream', True), ('none', False), ('forbidden', False), ('redirect', False), ('raise', False), ('yield0', False)]
        if tier == 'thorough':
            kinds += [('wsgi_list', False), ('wsgi_gen', False), ('wsgi_write', False)]
        bodies = {'str': [['s', 'h\xe9llo', 1]], 'bytes': [['b', 'ab\xff', 1]], 'list': [['s', 'a', 1], ['b', '', 0], ['b', 'bc', 1]],
                  'yield': [['s', 'a', 1], ['s', 'b', 1]], 'iter': [['s', '', 0], ['s', 'abc', 1], ['b', '', 0], ['b', 'de', 1]],
                  'file': [['b', 'xyz', 1]], 'rstream': [['b', 'ab', 1], ['b', 'c', 1]], 'wsgi_list': [['b', 'ab', 1], ['b', 'c', 1]],
                  'wsgi_gen': [['b', '', 0], ['b', 'abc', 1], ['s', 'de', 1]], 'wsgi_write': [['s', 'hi', 1], ['s', '!', 1]]}
        self._bodies = bodies
        for (kind, st), status, v, conn, m in itertools.product(kinds, statuses, ['1.1', '1.0'], [None, 'close', 'keep-alive'],
                                                               ['GET', 'HEAD']):
            if kind in ERRORS and status is not None:
                continue
            h = {'kind': kind, 'tag': '7', 'status': status, 'chunks': bodies.get(kind, []), 'stream': st}
            cases.append({'reqs': [{'m': m, 'v': v, 'conn': conn, 'h': h}]})
        return cases

    def generate(self, rng, n, tier):
        cases = self.product(tier)
        # empty bodies of every shape
        for kind in CONTENT:
            if kind == 'yield':
                chunks = [['s', '', 0]]
            elif kind in ('list', 'iter'):
                chunks = rng.choice([[], [['s', '', 0], ['b', '', 0]]])
            else:
                chunks = [['b' if kind not in ('str', 'wsgi_write') else 's', '', 0]]
            for v, st in itertools.product(['1.1', '1.0'], [False, True]):
                if st and kind in ('yield', 'file') + WSGI:
                    continue
                if st and kind == 'list':
                    chunks = []
                h = {'kind': kind, 'tag': '1', 'status': None, 'chunks': chunks, 'stream': st}
                cases.append({'reqs': [{'m': 'GET', 'v': v, 'conn': 'keep-alive', 'h': h},
                                       {'m': 'GET', 'v': v, 'conn': None, 'h': self._handler(rng, 'str', True)}]})
        # the application's own Content-Length (true on iterator bodies, anything on sized ones), cookies, WSGI
        for kind, v, conn, m in itertools.product(('iter', 'file', 'wsgi_gen', 'str', 'wsgi_list', 'wsgi_write'), ['1.1', '1.0'],
                                                  [None, 'close', 'keep-alive'], ['GET', 'HEAD']):
            h = {'kind': kind, 'tag': '3', 'status': None, 'chunks': self._bodies[kind], 'stream': kind == 'iter'}
            if kind != 'wsgi_write':
                h['cl'] = 'true' if kind in ITER else '999'
            r = {'m': m, 'v': v, 'conn': conn, 'h': h}
            if conn != 'close':
                r['cookie'] = True
                h['cookie'] = kind not in WSGI and v == '1.1'
            cases.append({'reqs': [r, {'m': 'GET', 'v': '1.1', 'conn': None, 'h': self._handler(rng, 'str', True)}]})
        # bodies with a read() method whose reads are short, trickle, hit the chunk size exactly, end early ...
        for sizes, v, st in itertools.product(self.READ_SCRIPTS, ['1.1', '1.0'], [True, False]):
            h = {'kind': 'rstream', 'tag': '5', 'status': None, 'chunks': self._script_pieces(sizes), 'stream': st}
            cases.append({'reqs': [{'m': 'GET', 'v': v, 'conn': 'keep-alive', 'h': h},
                                   {'m': 'GET', 'v': v, 'conn': None, 'h': self._handler(rng, 'str', True)}]})
        for sizes in ([1000, 5000], [3, 1, 4]):
            h = {'kind': 'rstream', 'tag': '6', 'status': None, 'chunks': self._script_pieces(sizes), 'stream': True, 'cl': 'true'}
            for v, m in (('1.0', 'GET'), ('1.1', 'HEAD')):
                cases.append({'reqs': [{'m': m, 'v': v, 'conn': 'keep-alive', 'h': h},
                                       {'m': 'GET', 'v': v, 'conn': None, 'h': self._handler(rng, 'str', True)}]})
        cases += self.followups(rng, 1 if tier != 'thorough' else 4)
        # Response.stream set on a complete body (handler returns str / bytes / list / a generator run as a coroutine)
        for kind, v in itertools.product(('str', 'bytes', 'list', 'yield'), ['1.1', '1.0']):
            h = {'kind': kind, 'tag': '8', 'status': None, 'chunks': self._bodies[kind], 'stream': True}
            cases.append({'reqs': [{'m': 'GET', 'v': v, 'conn': 'keep-alive', 'h': h},
                                   {'m': 'GET', 'v': v, 'conn': None, 'h': self._handler(rng, 'str', True)}]})
        for kind in ('none', 'raise', 'yield0', 'yield', 'list'):
            h = {'kind': kind, 'tag': '4', 'status': None, 'chunks': self._bodies.get(kind, []), 'stream': False, 'cookie': True}
            cases.append({'reqs': [{'m': 'GET', 'v': '1.1', 'conn': None, 'cookie': True, 'h': h}]})
        for _ in range(n):
            k = rng.choice([1, 2, 2, 3, 4])
            reqs = []
            for j in range(k):
                r = self._req(rng, self._handler(rng))
                if j < k - 1 and rng.random() < 0.8:      # bias towards connections that stay open
                    r['v'] = '1.1' if rng.random() < 0.8 else '1.0'
                    r['conn'] = rng.choice([None, 'keep-alive']) if r['v'] == '1.1' else 'keep-alive'
                    if r['h']['kind'] in ERRORS and rng.random() < 0.7:
                        r['h'] = self._handler(rng, rng.choice(CONTENT))
                r['h']['tag'] = '%d-%s' % (j, r['h']['tag'])      # every request of a connection is recognisable
                reqs.append(r)
            cases.append({'reqs': reqs})
        st = {}
        for c in cases:
            for r in c['reqs']:
                key = '%s/%s' % (r['h']['kind'], 'stream' if r['h'].get('stream') else '-')
                st[key] = st.get(key, 0) + 1
        self.stats = {'distribution': {'handler_kinds': st, 'cases': len(cases),
                                       'sequences_ge2': len([c for c in cases if len(c['reqs']) > 1]),
                                       'big_bodies': len([c for c in cases if any(p[2] > 100 for r in c['reqs'] for p in r['h']['chunks'])])}}
        return cases

    # ------------------------------------------------------------------ implementation driver
    def impl(self, c):
        global SPECS
        SPECS[:] = [r['h'] for r in c['reqs']]
        m = Manager()
        srv = FakeServer().register(m)
        Dispatcher().register(srv)
        Root().register(srv)
        p = Probe().register(m)
        for _ in range(6):
            m.flush()
        s = FakeSock()
        out = []
        closed = False
        for i, r in enumerate(c['reqs']):
            if closed:
                break
            p.log = []
            m.fire(read(s, req_bytes(i, r)), 'web')
            idle = 0
            storm = False
            for _ in range(1500):
                m.tick(0)
                if not common.get_tasks(m) and not len(m):
                    idle += 1
                    if idle >= 3:
                        break
                else:
                    idle = 0
                if len(p.log) > 400:
                    break
            else:
                storm = True
            storm = storm or len(p.log) > 400
            ws, after = [], []
            for e in p.log:
                if e[0] == 'c':
                    closed = True
                elif closed:
                    after.append(e[1].decode('latin1'))
                else:
                    ws.append(e[1].decode('latin1'))
            out.append({'w': ws, 'closed': closed, 'after_close': after})
            if storm:       # the loop never comes to rest: keep what identifies the storm, drop the rest
                out[-1] = {'w': ws[:3], 'closed': closed, 'after_close': after[:3], 'storm': len(p.log)}
                break
        return out

    # ------------------------------------------------------------------ model side
    def _cfg(self, r, ob, i=0):
        """request + handler spec (+ for errors.py bodies the observed body) -> Coq cfg term; None = not modelled"""
        h = r['h']
        k = h['kind']
        status = h['status'] if h['status'] is not None else 200
        pre = [('X-Tag', h['tag'])]
        if h.get('ct'):
            pre.append(('Content-Type', h['ct']))
        if h.get('cl') is not None:
            pre.append(('Content-Length', app_cl_value(h)))
        cookies = (REQ_COOKIES if r.get('cookie') else []) + ([APP_COOKIE] if h.get('cookie') else [])
        close0 = wants_close(r)
        sized, stream = True, bool(h.get('stream'))
        chunks = []
        if guard301(r):
            # answered by HTTP._on_read itself; the handler never runs
            k = 'guard301'
            pre = [('Content-Type', 'text/html'), ('Location', 'http://x/?i=%d' % i)]
            cookies = REQ_COOKIES if r.get('cookie') else []
        if k in ('str', 'bytes'):
            b = b''.join(piece_bytes(p) for p in h['chunks'])
            if len(h['chunks']) != 1:
                return None
            chunks = [piece_coq(h['chunks'][0])] if b else []
        elif k == 'yield':
            b = b''.join(piece_bytes(p) for p in h['chunks'])
            chunks = ['(%s)' % ' ++ '.join(piece_coq(p) for p in h['chunks'])] if b else []
        elif k == 'list':
            chunks = [piece_coq(p) for p in h['chunks']]
        elif k == 'iter':
            sized, stream = False, bool(h.get('stream'))
            chunks = [piece_coq(p) for p in h['chunks']]
        elif k == 'wsgi_list':
            # Gateway joins the list; an empty result becomes the truthy empty string `empty` -> [b'']
            b = b''.join(piece_bytes(p) for p in h['chunks'])
            chunks = ['(%s)' % ' ++ '.join(piece_coq(p) for p in h['chunks'])] if b else ['[]%N']
        elif k == 'wsgi_gen':
            sized, stream = False, True
            chunks = [piece_coq(p) for p in h['chunks']]
        elif k == 'wsgi_write':
            # what write() collected comes back as a StringIO -> file_generator, BUFSIZE characters per piece
            txt = ''.join(piece(p) for p in h['chunks'])
            if len(txt) > BUFSIZE:
                return None
            if txt:
                sized, stream = False, True
                chunks = [nlist(txt.encode('utf-8'))]
            else:
                chunks = ['[]%N']
        elif k == 'rstream':
            sized, stream = False, bool(h.get('stream'))
            chunks = reads_coq(h['chunks'])
        elif k == 'file':
            sized, stream = False, True
            b = b''.join(piece_bytes(p) for p in h['chunks'])
            if len(h['chunks']) != 1:
                return None
            t, pat, n = h['chunks'][0]
            pb = pat.encode('latin1')
            if len(pb) == 1 and n > 8:
                full, rest = divmod(n, BUFSIZE)
                chunks = ['(repN %d%%N %s)' % (BUFSIZE, nlist(pb))] * full + (['(repN %d%%N %s)' % (rest, nlist(pb))] if rest else [])
            else:
                chunks = [nlist(b[j:j + BUFSIZE]) for j in range(0, len(b), BUFSIZE)]
        else:
            close0 = True
            sized, stream = True, False
            if r['m'] == 'HEAD' or ob is None or len(ob['w']) < 1:
                return None
            see_other = 303 if r['v'] == '1.1' else 302
            status = {'none': 404, 'yield0': 404, 'raise': 500, 'forbidden': 403, 'redirect': see_other, 'raise_redirect': 303,
                      'redirect304': 304, 'guard301': 301}[k]
            if k in ('redirect', 'raise_redirect'):
                pre += [('Content-Type', 'text/html'), ('Location', 'http://x/t')]
            # the error page is written by errors.py, not by the application: only its length is modelled
            n = sum(len(w) for w in ob['w'][1:])
            chunks = ['(repN %d%%N [120]%%N)' % n] if n else []
        reason = HTTP_STATUS_CODES.get(status, '')
        return ('{| v11 := %s; head := %s; status := %d%%N; reason := %s; close0 := %s; pre := [%s]; cookies := [%s]; '
                'sized := %s; stream := %s; chunks := %s |}') % (
            'true' if r['v'] == '1.1' else 'false', 'true' if r['m'] == 'HEAD' else 'false', status, bytes_coq(reason.encode()),
            'true' if close0 else 'false', '; '.join('(%s, %s)' % (bytes_coq(a.encode()), bytes_coq(b.encode())) for a, b in pre),
            '; '.join(bytes_coq(x.encode()) for x in cookies),
            'true' if sized else 'false', 'true' if stream else 'false',
            ('file_gen [%s]' if k == 'rstream' else '[%s]') % '; '.join(chunks))

    def _modelled(self, c, obs):
        if isinstance(obs, dict):
            return None
        terms = []
        for i, (r, ob) in enumerate(zip(c['reqs'], obs)):
            t = self._cfg(r, ob, i)
            if t is None:
                return None
            terms.append(t)
        return terms

    def model_term(self, c):
        key = common.canon(c)
        obs = getattr(self, '_last', {}).get(key)
        if obs is None:
            obs = self.safe_impl(c)
        terms = self._modelled(c, obs)
        if terms is None:
            return None
        calls = self.__dict__.setdefault('_mt_calls', {})
        calls[key] = calls.get(key, 0) + 1
        if calls[key] > self.__dict__.get('_impl_calls', {}).get(key, 1):
            # asked more often than the case was run: the framework is reporting a disagreement -> show the
            # model's bytes unhashed
            return 'obs_case_verbose [%s]' % '; '.join(terms)
        ps = []
        for r, ob in zip(c['reqs'], obs):
            data = self._parse_input(ob)
            if data is not None:
                ps.append('(%s, %s)' % ('true' if r['m'] == 'HEAD' else 'false', bytes_coq(data)))
        return 'obs_case [%s] [%s]' % ('; '.join(terms), '; '.join(ps))

    PARSE_LIMIT = 2048

    def _parse_input(self, ob):
        """the real bytes of one response, if small enough to be handed to the Coq client literally"""
        data = ''.join(ob['w']).encode('latin1')
        return data if 0 < len(data) <= self.PARSE_LIMIT else None

    def safe_impl(self, c):
        obs = Prop.safe_impl(self, c)
        if not hasattr(self, '_last'):
            self._last = {}
        key = common.canon(c)
        self._last[key] = obs
        n = self.__dict__.setdefault('_impl_calls', {})
        n[key] = n.get(key, 0) + 1
        return obs

    def obs_for_model(self, c, obs):
        if isinstance(obs, dict):
            return [-999]
        out = []
        for r, ob in zip(c['reqs'], obs):
            ws = [w.encode('latin1') for w in ob['w']]
            if ws:
                ws[0] = strip_date(ws[0])
            if r['h']['kind'] in ERRORS or guard301(r):
                ws[1:] = [b'x' * len(w) for w in ws[1:]]
            out.append([[rle(w) for w in ws], bool(ob['closed'])])
        ps = []
        for r, ob in zip(c['reqs'], obs):
            data = self._parse_input(ob)
            if data is not None:
                try:
                    status, _h, body, will_close, consumed = client_decode(data, r['m'])
                    ps.append([status, rle(body), will_close, len(data) - consumed])
                except Exception:
                    ps.append([])
        return [out, ps]

    # ------------------------------------------------------------------ oracle
    def oracle(self, c, obs):
        if isinstance(obs, dict):
            return None          # crash: reported by the framework
        for i, (r, ob) in enumerate(zip(c['reqs'], obs)):
            h = r['h']
            what = self._oracle1(r, h, ob, i)
            if what and i > 0:
                try:
                    prev = client_decode(b''.join(w.encode('latin1') for w in obs[i - 1]['w']), c['reqs'][i - 1]['m'])[0]
                    what += ' [follow-up on a kept-alive connection; the previous answer on it had status %d]' % prev
                except Exception:
                    pass
            if what:
                return 'request %d (%s %s HTTP/%s Connection:%s, handler %s status %s stream %s): %s' % (
                    i, r['m'], PATHS.get(r.get('path'), '/'), r['v'], r.get('conn'), h['kind'], h['status'], h.get('stream'), what)
        n_expected = len(c['reqs'])
        for i, ob in enumerate(obs):
            if ob['closed']:
                n_expected = i + 1
                break
        if len(obs) != n_expected:
            return 'answered %d requests, expected %d' % (len(obs), n_expected)
        return None

    def _oracle1(self, r, h, ob, idx=0):
        if ob.get('storm'):
            return ('the event loop never comes to rest: after %d write/close events for this one request responses are still '
                    'being written (first writes: %s)' % (ob['storm'], ' | '.join(w[:40].replace('\r\n', ' ') for w in ob['w'] + ob['after_close'])))
        data = b''.join(w.encode('latin1') for w in ob['w'])
        if not data:
            return 'no response written'
        try:
            status, headers, body, will_close, consumed = client_decode(data, r['m'])
        except Exception as e:
            return 'independent client cannot parse the response: %s %s' % (type(e).__name__, e)
        k = 'guard301' if guard301(r) else h['kind']
        if k in CONTENT:
            exp_status = h['status'] if h['status'] is not None else 200
            if status != exp_status:
                return 'status %d, application set %d' % (status, exp_status)
            exp = expected_body(h)
            if r['m'] == 'HEAD' or NOBODY_PROP(status):
                if body != b'' or consumed != len(data):
                    return 'HEAD/1xx/204/304 response carries %d body bytes' % (len(data) - consumed + len(body))
            elif status == 205:
                if body not in (b'', exp):
                    return 'body differs from what the application produced'
            elif body != exp:
                return 'body (%d bytes) differs from what the application produced (%d bytes)' % (len(body), len(exp))
        else:
            exp_status = {'none': (404,), 'yield0': (404,), 'raise': (500,), 'forbidden': (403,), 'redirect': (302, 303),
                          'raise_redirect': (302, 303), 'redirect304': (304,), 'guard301': (301,)}[k]
            if status not in exp_status:
                return 'status %d, but this request must be answered with %r (%s)' % (status, exp_status, k)
            if (r['m'] == 'HEAD' or status == 304) and (body != b'' or consumed != len(data)):
                return 'HEAD/304 response carries body bytes'
            loc = {'redirect': 'http://x/t', 'raise_redirect': 'http://x/t', 'guard301': 'http://x/?i=%d' % idx}.get(k)
            if loc and ('Location', loc) not in [(a.title(), b) for a, b in headers]:
                return 'redirect without Location: %s (this request\'s own target)' % loc
        if r['v'] == '1.0' and any(a.lower() == 'transfer-encoding' for a, b in headers):
            return 'chunked transfer encoding sent to an HTTP/1.0 client'
        tags = [b for a, b in headers if a.title() == 'X-Tag']
        if tags != ([] if k == 'guard301' else [h['tag']]):
            return 'application header X-Tag %r, this request\'s handler set %r' % (tags, h['tag'])
        set_cookies = [b for a, b in headers if a.lower() == 'set-cookie']
        want = (REQ_COOKIES if r.get('cookie') else []) + ([APP_COOKIE] if h.get('cookie') and k != 'guard301' else [])
        if set_cookies != want:
            return 'Set-Cookie lines %r, expected %r' % (set_cookies, want)
        if consumed != len(data):
            return '%d stray bytes after the end of the response' % (len(data) - consumed)
        if ob['after_close']:
            return '%d more bytes written for this request after the connection was closed (a second response)' % sum(
                len(w) for w in ob['after_close'])
        if will_close and not ob['closed']:
            return 'response announces/needs close (not self-delimiting or Connection: close) but the connection is left open'
        if ob['closed'] and not will_close:
            return 'connection closed although the response announces keep-alive'
        if wants_close(r) and not ob['closed']:
            return 'request asked for close but the connection is kept open'
        return None

    def nontrivial(self, c, obs):
        if isinstance(obs, dict):
            return False
        return len(obs) >= 2 or any(len(ob['w']) >= 2 for ob in obs)

    def search(self, rng, tier):
        return self.followups(rng, 6) + self.generate(rng, 1500, 'thorough')


if __name__ == '__main__':
    sys.exit(common.main(C15()))
