(* Executable model of how circuits.web writes one HTTP response:
     Response.prepare           (circuits/web/wrappers.py)  -> framing decision
     HTTP._on_response/_on_stream (circuits/web/http.py)    -> the write events and the close
   and, independently of it, a small HTTP/1.x response parser (the "independent client").
   Bytes are N.  No proofs in this file. *)
From Coq Require Import String Ascii List NArith Bool.
Import ListNotations.
Open Scope N_scope.

Definition bytes := list N.

Fixpoint str (s : string) : bytes :=
  match s with
  | EmptyString => []
  | String a r => N_of_ascii a :: str r
  end.

Definition crlf : bytes := [13; 10].

(* ------------------------------------------------------------------ number codecs *)
(* most significant digit first; fuel S (size n) always suffices for base >= 2 *)
Fixpoint to_digits (b : N) (fuel : nat) (n : N) (acc : list N) : list N :=
  match fuel with
  | O => acc
  | S f => let acc' := (n mod b) :: acc in
           if n / b =? 0 then acc' else to_digits b f (n / b) acc'
  end.
Definition digits (b n : N) : list N := to_digits b (S (N.to_nat (N.size n))) n [].

Definition dchar (d : N) : N := 48 + d.
Definition hchar (d : N) : N := if d <? 10 then 48 + d else 87 + d.
(* str(n) and hex(n)[2:] of Python *)
Definition dec (n : N) : bytes := map dchar (digits 10 n).
Definition hex (n : N) : bytes := map hchar (digits 16 n).

(* the parser's readers: int(s) / int(s, 16) restricted to plain digit strings *)
Definition dval (c : N) : option N :=
  if (48 <=? c) && (c <=? 57) then Some (c - 48) else None.
Definition hval (c : N) : option N :=
  if (48 <=? c) && (c <=? 57) then Some (c - 48)
  else if (97 <=? c) && (c <=? 102) then Some (c - 87)
  else if (65 <=? c) && (c <=? 70) then Some (c - 55)
  else None.
Definition read_num (b : N) (val : N -> option N) (l : bytes) : option N :=
  match l with
  | [] => None
  | _ => fold_left (fun a c => match a, val c with
                               | Some a, Some d => Some (a * b + d)
                               | _, _ => None
                               end) l (Some 0)
  end.
Definition undec := read_num 10 dval.
Definition unhex := read_num 16 hval.

(* ------------------------------------------------------------------ the response writer *)
Definition header := (bytes * bytes)%type.

Record cfg := {
  v11 : bool;              (* response protocol is HTTP/1.1 (else HTTP/1.0): min(request, server) *)
  head : bool;             (* request method is HEAD *)
  status : N;
  reason : bytes;
  close0 : bool;           (* Response.close before prepare(): request did not ask for keep-alive, or error path *)
  pre : list header;       (* headers the application / errors.py put on the response (Date excluded);
                              may contain the application's own Content-Length *)
  cookies : list bytes;    (* OutputString() of the morsels of Response.cookie (request cookies are echoed) *)
  sized : bool;            (* body is a list of byte strings (str, bytes, list results); else an iterator *)
  stream : bool;           (* Response.stream *)
  chunks : list bytes      (* the encoded pieces of the body, in order *)
}.

Definition lower (c : N) : N := if (65 <=? c) && (c <=? 90) then c + 32 else c.
Fixpoint beq (a b : bytes) : bool :=
  match a, b with
  | [], [] => true
  | x :: a', y :: b' => (x =? y) && beq a' b'
  | _, _ => false
  end.
Definition ci_is (k : bytes) (s : bytes) : bool := beq (map lower s) k.
Definition lookup (k : bytes) (hs : list header) : option bytes :=
  match find (fun h => ci_is k (fst h)) hs with
  | Some h => Some (snd h)
  | None => None
  end.

Definition k_cl := str "content-length".
Definition k_te := str "transfer-encoding".
Definition k_conn := str "connection".
Definition k_ct := str "content-type".

Definition nobody_status (s : N) : bool := (s <? 200) || (s =? 204) || (s =? 205) || (s =? 304).

(* prepare(): responses with a status that never has a body lose body and stream flag *)
Definition eff_chunks (c : cfg) : list bytes := if nobody_status (status c) then [] else chunks c.
Definition eff_sized (c : cfg) : bool := nobody_status (status c) || sized c.
Definition eff_stream (c : cfg) : bool := negb (nobody_status (status c)) && stream c.

Definition total_len (l : list bytes) : N := fold_right (fun s a => N.of_nat (length s) + a) 0 l.

(* Content-Length: prepare() computes it for sized bodies and overwrites whatever the application set;
   for an iterator body (generator, file) the application's own header, if any, is kept and used *)
Definition app_cl (c : cfg) : option bytes := lookup k_cl (pre c).
Definition cl_hdr (c : cfg) : option bytes :=
  if eff_sized c then Some (dec (total_len (eff_chunks c))) else app_cl c.
Definition has_cl (c : cfg) : bool := match cl_hdr c with Some _ => true | None => false end.

Definition chunked (c : cfg) : bool :=
  if has_cl c then false
  else if status c =? 413 then false else v11 c && negb (head c).

Definition close1 (c : cfg) : bool :=
  if status c =? 413 then true
  else if has_cl c then close0 c
  else if v11 c && negb (head c) then close0 c else true.

(* headers[k] = v on an existing key: the value changes, the position does not *)
Definition set_hdr (k v : bytes) (hs : list header) : list header :=
  map (fun h => if ci_is k (fst h) then (fst h, v) else h) hs.

Definition out_headers (c : cfg) : list header :=
  (if eff_sized c then set_hdr k_cl (dec (total_len (eff_chunks c))) (pre c) else pre c)
  ++ (match lookup k_ct (pre c) with
      | Some _ => []
      | None => [(str "Content-Type", str "text/html; charset=utf-8")]
      end)
  ++ (match app_cl c with
      | Some _ => []
      | None => if eff_sized c then [(str "Content-Length", dec (total_len (eff_chunks c)))] else []
      end)
  ++ map (fun v => (str "Set-Cookie", v)) (cookies c)
  ++ (if chunked c then [(str "Transfer-Encoding", str "chunked")] else [])
  ++ (if v11 c
      then (if close1 c then [(str "Connection", str "close")] else [])
      else (if close1 c then [] else [(str "Connection", str "Keep-Alive")])).

Definition hline (h : header) : bytes := fst h ++ [58; 32] ++ snd h ++ crlf.

Definition status_line (c : cfg) : bytes :=
  str "HTTP/1." ++ [if v11 c then 49 else 48] ++ [32] ++ dec (status c) ++ [32] ++ reason c ++ crlf.

Definition head_bytes (c : cfg) : bytes :=
  status_line c ++ concat (map hline (out_headers c)) ++ crlf.

Definition frame (d : bytes) : bytes := hex (N.of_nat (length d)) ++ crlf ++ d ++ crlf.
Definition term : bytes := [48; 13; 10; 13; 10].
Definition nonempty (d : bytes) : bool := match d with [] => false | _ => true end.

(* wrappers.file_generator: the body pieces of a response whose body has a read() method (Body.__set__ wraps
   it and sets Response.stream).  [reads] = what successive read(chunkSize) calls return, in order (a source
   that is exhausted returns the empty string; after the script, too): every non-empty result is yielded,
   the first empty one ends the body - however short the earlier reads were. *)
Fixpoint file_gen (reads : list bytes) : list bytes :=
  match reads with
  | [] => []
  | r :: t => if nonempty r then r :: file_gen t else []
  end.

(* the reads a source with [data] left performs when read(n) may return fewer bytes than asked for:
   [caps] = the most each successive read is willing to return (0 = as much as asked), n = chunkSize > 0 *)
Fixpoint src_reads (fuel n : nat) (caps : list nat) (data : bytes) : list bytes :=
  match fuel with
  | O => []
  | S f =>
      match data with
      | [] => [[]]
      | _ =>
          let cap := match caps with c :: _ => if Nat.eqb c 0 then n else Nat.min c n | [] => n end in
          firstn cap data :: src_reads f n (tl caps) (skipn cap data)
      end
  end.

Inductive out :=
| Out (writes : list bytes) (closed : bool).

(* only an iterator is streamed: with Response.stream set on a complete body (list of strings; e.g. a
   handler that sets the flag and returns a str, a list, or a generator that the core runs as a coroutine)
   the body is written at once like any other sized body *)
Definition streamed (c : cfg) : bool := eff_stream c && negb (eff_sized c).

(* _on_response followed by the chain of _on_stream events *)
Definition respond (c : cfg) : out :=
  let hd := head_bytes c in
  let fr := fun d => if chunked c then frame d else d in
  let tl := if chunked c then [term] else [] in
  if head c then Out [hd] (close1 c)
  else if streamed c then
    Out ([hd] ++ map fr (filter nonempty (eff_chunks c)) ++ tl) (close1 c)
  else
    let body := concat (eff_chunks c) in
    Out ([hd] ++ (if nonempty body then [fr body] else []) ++ tl) (close1 c).

Definition wire (c : cfg) : bytes :=
  match respond c with Out ws _ => concat ws end.
Definition closed (c : cfg) : bool :=
  match respond c with Out _ b => b end.

(* ------------------------------------------------------------------ the independent client *)
Fixpoint split_crlf (l : bytes) : option (bytes * bytes) :=
  match l with
  | [] => None
  | x :: r =>
      match r with
      | [] => None
      | y :: r' =>
          if (x =? 13) && (y =? 10) then Some ([], r')
          else match split_crlf r with
               | Some (a, b) => Some (x :: a, b)
               | None => None
               end
      end
  end.

Fixpoint split_at (c : N) (l : bytes) : option (bytes * bytes) :=
  match l with
  | [] => None
  | x :: r => if x =? c then Some ([], r)
              else match split_at c r with
                   | Some (a, b) => Some (x :: a, b)
                   | None => None
                   end
  end.

Fixpoint lstrip (l : bytes) : bytes :=
  match l with
  | x :: r => if (x =? 32) || (x =? 9) then lstrip r else l
  | [] => []
  end.

Fixpoint strip_prefix (p l : bytes) : option bytes :=
  match p, l with
  | [], _ => Some l
  | x :: p', y :: l' => if x =? y then strip_prefix p' l' else None
  | _ :: _, [] => None
  end.

Record presp := {
  p_v11 : bool;
  p_status : N;
  p_reason : bytes;
  p_headers : list header;
  p_body : bytes;
  p_close : bool        (* the response tells the client that the connection ends after it *)
}.

(* "HTTP/1.x SSS reason" *)
Definition parse_status_line (l : bytes) : option (bool * N * bytes) :=
  match strip_prefix (str "HTTP/1.") l with
  | Some (d :: sp :: r) =>
      if ((d =? 48) || (d =? 49)) && (sp =? 32) then
        let '(code, rsn) := match split_at 32 r with Some p => p | None => (r, []) end in
        match undec code with
        | Some s => if (100 <=? s) && (s <=? 999) then Some (d =? 49, s, rsn) else None
        | None => None
        end
      else None
  | _ => None
  end.

Fixpoint parse_headers (fuel : nat) (l : bytes) : option (list header * bytes) :=
  match fuel with
  | O => None
  | S f =>
      match split_crlf l with
      | None => None
      | Some ([], r) => Some ([], r)
      | Some (line, r) =>
          match split_at 58 line with
          | None => None
          | Some (n, v) =>
              match parse_headers f r with
              | Some (hs, r') => Some ((n, lstrip v) :: hs, r')
              | None => None
              end
          end
      end
  end.

Fixpoint take (n : nat) (l : bytes) : option (bytes * bytes) :=
  match n with
  | O => Some ([], l)
  | S k => match l with
           | [] => None
           | x :: r => match take k r with Some (a, b) => Some (x :: a, b) | None => None end
           end
  end.

Fixpoint parse_chunks (fuel : nat) (l : bytes) : option (bytes * bytes) :=
  match fuel with
  | O => None
  | S f =>
      match split_crlf l with
      | None => None
      | Some (szl, r) =>
          match unhex szl with
          | None => None
          | Some 0 => match strip_prefix crlf r with Some r' => Some ([], r') | None => None end
          | Some sz =>
              match take (N.to_nat sz) r with
              | None => None
              | Some (d, r1) =>
                  match strip_prefix crlf r1 with
                  | None => None
                  | Some r2 =>
                      match parse_chunks f r2 with
                      | Some (b, r3) => Some (d ++ b, r3)
                      | None => None
                      end
                  end
              end
          end
      end
  end.

Definition val_is (k : bytes) (v : option bytes) : bool :=
  match v with Some s => ci_is k s | None => false end.

(* [is_head]: the request was a HEAD request.  Returns the response and the unread rest. *)
Definition parse (is_head : bool) (input : bytes) : option (presp * bytes) :=
  match split_crlf input with
  | None => None
  | Some (sl, r0) =>
      match parse_status_line sl with
      | None => None
      | Some (is11, s, rsn) =>
          match parse_headers (S (length r0)) r0 with
          | None => None
          | Some (hs, r1) =>
              let conn := lookup k_conn hs in
              let conn_close := if is11 then val_is (str "close") conn
                                else negb (val_is (str "keep-alive") conn) in
              let mk := fun body cl => {| p_v11 := is11; p_status := s; p_reason := rsn;
                                          p_headers := hs; p_body := body; p_close := cl |} in
              if is_head || ((100 <=? s) && (s <? 200)) || (s =? 204) || (s =? 304)
              then Some (mk [] conn_close, r1)
              else if val_is (str "chunked") (lookup k_te hs) then
                match parse_chunks (S (length r1)) r1 with
                | Some (b, r2) => Some (mk b conn_close, r2)
                | None => None
                end
              else match lookup k_cl hs with
                   | Some v =>
                       match undec v with
                       | None => None
                       | Some n => match take (N.to_nat n) r1 with
                                   | Some (b, r2) => Some (mk b conn_close, r2)
                                   | None => None
                                   end
                       end
                   | None => Some (mk r1 true, [])     (* body runs until the connection closes *)
                   end
          end
      end
  end.

(* a client reading the responses to a sequence of requests from one connection *)
Fixpoint parse_many (heads : list bool) (input : bytes) : option (list presp) :=
  match heads with
  | [] => match input with [] => Some [] | _ => None end
  | h :: hs =>
      match parse h input with
      | None => None
      | Some (r, rest) =>
          match parse_many hs rest with
          | Some rs => Some (r :: rs)
          | None => None
          end
      end
  end.

(* what the client must recover *)
Definition expected (c : cfg) : presp :=
  {| p_v11 := v11 c; p_status := status c; p_reason := reason c;
     p_headers := out_headers c;
     p_body := if head c then [] else concat (eff_chunks c);
     p_close := close1 c |}.
