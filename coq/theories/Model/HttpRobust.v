(* Executable model of the robustness skeleton of circuits/web/http.py (class HTTP):
   _on_read, _on_exception, _on_httperror, _on_response, _on_disconnect and the two
   per-connection tables _buffers / _clients, as repaired by fixes/C14_*.patch.

   Every partial operation on the read path is an ORACLE whose answer is part of the
   input ([answers], one record per read event) and may be [Raise]:
     a_ssl     is_ssl_handshake(data)
     a_exec    parser.execute(data)  -- covers str(.., 'unicode_escape') of the request
               line and of header lines, urlsplit, the chunk-size parse, zlib; its normal
               answer is what _on_read then reads from the parser: is_headers_complete(),
               errno, is_message_complete()
     a_errreq  wrappers.Request(...) on the 400 path (answers the parsed version)
     a_req     the statement req = wrappers.Request(sock, parser.get_method(), parser.get_scheme(), ...,
               headers=...)  -- Host port int(), parse_url, cookies, getpeername(), and the evaluation
               of its arguments (get_scheme() raises AttributeError on a parser that never saw a
               valid request line)
     a_clen    int(req.headers.get('Content-Length', '0'))
     a_path    the path guard (str.encode, quote) and the redirect constructor
     a_excreq  wrappers.Request(sock, server=...) inside _on_exception (getpeername())
     a_app     the status the application answers a dispatched request with; Raise = a handler of the
               request event raised (e.g. the dispatcher's body processing on a lone surrogate)
   Nothing about *which* bytes make an oracle raise is modelled: the theorems hold for
   every answer.  No proofs and no axioms in this file. *)
From Coq Require Import List NArith ZArith Bool Arith.
Import ListNotations.
Open Scope N_scope.

Inductive res (A : Type) : Type := Raise | Ret (a : A).
Arguments Raise {A}.
Arguments Ret {A} a.

(* parsers/http.py: BAD_FIRST_LINE = 0, INVALID_HEADER = 1, INVALID_CHUNK = 2 *)
Inductive perr := BadFirstLine | InvalidHeader | InvalidChunk.

Record pflags := { hc : bool; perrno : option perr; mc : bool }.

Definition version := (N * N)%type.

(* what _on_read uses of the Request it built (and keeps in _clients) *)
Record reqinfo := { rver : version;        (* req.protocol *)
                    is_head : bool;        (* req.method == 'HEAD' *)
                    has_host : bool;       (* bool(req.headers.get('Host')) *)
                    te_chunked : bool;     (* Transfer-Encoding header says chunked *)
                    keepalive : bool }.    (* parser.should_keep_alive() when the request was built *)

Inductive pathans := PCanon | PRedirect.

Record answers := {
  a_ssl : res bool;
  a_exec : res pflags;
  a_errreq : res (version * bool);   (* parsed version, method is HEAD *)
  a_req : res reqinfo;
  a_clen : res Z;
  a_path : res pathans;
  a_excreq : res unit;
  a_app : res N }.                  (* Raise: a handler of the request event raised *)

(* per-connection state: membership in HTTP._buffers, entry of HTTP._clients *)
Record conn := { buf : bool; cli : option reqinfo }.
Definition empty_conn : conn := {| buf := false; cli := None |}.

(* call sites observed by the correspondence check, in call order *)
Inductive tag := TSsl | TExec | TErrReq | TReq | TInt | TExcReq.

(* events the component fires to itself *)
Inductive esrc := SRead | SExc.
Inductive iev :=
| IExc (src : esrc)                                (* exception(fevent = read | exception) *)
| IHttpError (code : N) (v : version) (hd : bool)     (* hd: the Request it carries has method HEAD *)
| IResponse (st : N) (v : version) (cl : bool) (hd : bool)
| IRequest (ri : reqinfo)
| IClose.

(* what the outside sees *)
Inductive eff :=
| EReject (code : N)                     (* httperror for a message that was not dispatched *)
| EWrite (st : N) (v : version) (cl : bool) (hd : bool)   (* one response: status, status-line version, says-close, head only (HEAD) *)
| EClose                                 (* close(sock) *)
| EDispatch                              (* request event delivered to the application *)
| ECrash                                 (* internal inconsistency: del of an absent table key *)
| EOutOfFuel.                            (* the self-fired events do not settle *)

(* Response.__init__ (repaired): the version put into the status line *)
Definition resp_version (v : version) : version :=
  let '(ma, mi) := v in
  if negb (ma =? 1) then (1, 1) else if 1 <? mi then (1, 1) else (1, mi).

Definition is10 (v : version) : bool := (fst v =? 1) && (snd v =? 0).

Inductive hres := HRet (q : list iev) | HRaise | HKeyError.

Definition set_buf (c : conn) (b : bool) : conn := {| buf := b; cli := cli c |}.
Definition set_cli (c : conn) (r : option reqinfo) : conn := {| buf := buf c; cli := r |}.

(* del self._buffers[sock] : KeyError when absent *)
Definition del_buf (c : conn) : option conn := if buf c then Some (set_buf c false) else None.

Definition reject (c : conn) (code : N) (v : version) (hd : bool) (tags : list tag) : conn * hres * list tag :=
  match del_buf c with
  | None => (c, HKeyError, tags)
  | Some c' => (c', HRet [IHttpError code (resp_version v) hd], tags)
  end.

(* http.py from `clen = int(...)` to the end of _on_read *)
Definition body_gate (c : conn) (a : answers) (f : pflags) (ri : reqinfo) (tags : list tag)
  : conn * hres * list tag :=
  match a_clen a with
  | Raise => (c, HRaise, tags ++ [TInt])
  | Ret n =>
      let tags := tags ++ [TInt] in
      if (negb (n =? 0)%Z || te_chunked ri) && negb (mc f) then (c, HRet [], tags)
      else if (n <? 0)%Z then reject c 400 (rver ri) (is_head ri) tags
      else if negb (is10 (rver ri)) && negb (has_host ri) then reject c 400 (rver ri) (is_head ri) tags
      else match a_path a with
           | Raise => (c, HRaise, tags)
           | Ret PRedirect => (c, HRet [IHttpError 301 (resp_version (rver ri)) (is_head ri)], tags)
           | Ret PCanon =>
               match del_buf c with
               | None => (c, HKeyError, tags)
               | Some c' => (c', HRet [IRequest ri], tags)
               end
           end
  end.

Definition headers_done (c : conn) (a : answers) (f : pflags) (tags : list tag)
  : conn * hres * list tag :=
  match cli c with
  | Some ri => body_gate c a f ri tags
  | None =>
      match a_req a with
      | Raise => (c, HRaise, tags ++ [TReq])
      | Ret ri =>
          let c' := set_cli c (Some ri) in
          if negb (fst (rver ri) =? 1)
          then (c', HRet [IHttpError 505 (resp_version (rver ri)) (is_head ri)], tags ++ [TReq])
          else body_gate c' a f ri (tags ++ [TReq])
      end
  end.

Definition after_exec (c : conn) (a : answers) (tags : list tag) : conn * hres * list tag :=
  match a_exec a with
  | Raise => (c, HRaise, tags ++ [TExec])
  | Ret f =>
      let tags := tags ++ [TExec] in
      if negb (hc f) then
        match perrno f with
        | None => (c, HRet [], tags)
        | Some e =>
            match a_errreq a with
            | Raise => (c, HRaise, tags ++ [TErrReq])
            | Ret (v, hd) =>
                (* BAD_FIRST_LINE: Request(sock, server=...) with the default version and method GET;
                   otherwise a throw-away Request with the parsed version and method, NOT put into _clients *)
                reject c 400 (match e with BadFirstLine => (1, 1) | _ => v end)
                       (match e with BadFirstLine => false | _ => hd end) (tags ++ [TErrReq])
            end
        end
      else headers_done c a f tags
  end.

(* HTTP._on_read *)
Definition on_read (secure : bool) (c : conn) (a : answers) : conn * hres * list tag :=
  if buf c then after_exec c a []
  else
    let c1 := set_buf c true in
    match a_ssl a with
    | Raise => (c1, HRaise, [TSsl])
    | Ret b =>
        if b && negb secure then ({| buf := false; cli := None |}, HRet [IClose], [TSsl])
        else after_exec c1 a [TSsl]
    end.

(* `if sock in self._clients: del self._clients[sock]` -- the pair of a rejected message was possibly never
   registered (throw-away Request of the parser-error branch), hence the guard *)
(* del self._clients[sock] : KeyError when absent *)
Definition del_cli (c : conn) : option conn :=
  match cli c with Some _ => Some (set_cli c None) | None => None end.
Definition finish (c : conn) : option conn :=
  match cli c with Some _ => del_cli c | None => Some c end.

(* one self-fired event: _on_exception / _on_httperror / _on_response (and the application) *)
Definition handle (c : conn) (a : answers) (e : iev) : conn * list eff * list iev * list tag :=
  match e with
  | IExc SRead =>
      match a_excreq a with
      | Raise => (c, [], [IExc SExc], [TExcReq])
      | Ret _ => (c, [], [IHttpError 500 (resp_version (1, 1)) false], [TExcReq])
      end
  | IExc SExc => (c, [], [], [])          (* no branch of _on_exception matches: return *)
  | IHttpError code v hd => (c, [EReject code], [IResponse code v true hd], [])
  | IResponse st v cl hd =>
      (* _on_response: status line + headers; HEAD: no body, then finished like any other response;
         otherwise the body, then finished.  Both finishing blocks: close if announced, release the pair. *)
      if hd then
        match finish c with
        | Some c' => (c', [EWrite st v cl true], if cl then [IClose] else [], [])
        | None => (c, [EWrite st v cl true; ECrash], if cl then [IClose] else [], [])   (* KeyError in _on_response *)
        end
      else
        match finish c with
        | Some c' => (c', [EWrite st v cl false], if cl then [IClose] else [], [])
        | None => (c, [EWrite st v cl false; ECrash], if cl then [IClose] else [], [])
        end
  | IRequest ri =>
      match a_app a with
      | Ret st => (c, [EDispatch], [IResponse st (resp_version (rver ri)) (negb (keepalive ri)) (is_head ri)], [])
      | Raise =>
          (* request_failure -> _on_request_failure: httperror(req, res) with the registered pair -> 500, close;
             the exception event that follows finds req.handled and returns (repaired) *)
          (c, [EDispatch], [IResponse 500 (resp_version (rver ri)) true (is_head ri)], [])
      end
  | IClose => (c, [EClose], [], [])
  end.

Fixpoint drain (fuel : nat) (q : list iev) (c : conn) (a : answers) : option (conn * list eff * list tag) :=
  match q with
  | [] => Some (c, [], [])
  | e :: q' =>
      match fuel with
      | O => None
      | S k =>
          let '(c', effs, new, tg) := handle c a e in
          match drain k (q' ++ new) c' a with
          | None => None
          | Some (c'', effs', tg') => Some (c'', effs ++ effs', tg ++ tg')
          end
      end
  end.

Definition FUEL : nat := 8.

(* a read event processed until the queue is empty again *)
Definition read_conn (secure : bool) (c : conn) (a : answers) : conn * list eff * list tag :=
  let '(c1, h, tags) := on_read secure c a in
  match h with
  | HKeyError => (c1, [ECrash], tags)
  | HRaise =>
      match drain FUEL [IExc SRead] c1 a with
      | None => (c1, [EOutOfFuel], tags)
      | Some (c2, effs, tg) => (c2, effs, tags ++ tg)
      end
  | HRet q =>
      match drain FUEL q c1 a with
      | None => (c1, [EOutOfFuel], tags)
      | Some (c2, effs, tg) => (c2, effs, tags ++ tg)
      end
  end.

(* ---- several connections, histories ---- *)
Definition tables := nat -> conn.
Definition empty_tables : tables := fun _ => empty_conn.
Definition upd (t : tables) (s : nat) (c : conn) : tables :=
  fun x => if Nat.eqb x s then c else t x.

Inductive op := Read (s : nat) (a : answers) | Disc (s : nat).

Definition step (secure : bool) (t : tables) (o : op) : tables * list eff :=
  match o with
  | Read s a => let '(c, effs, _) := read_conn secure (t s) a in (upd t s c, effs)
  | Disc s => (upd t s empty_conn, [])      (* _on_disconnect (repaired): both tables *)
  end.

Fixpoint run (secure : bool) (t : tables) (h : list op) : tables * list (list eff) :=
  match h with
  | [] => (t, [])
  | o :: r => let '(t1, e) := step secure t o in
              let '(t2, es) := run secure t1 r in (t2, e :: es)
  end.

Definition op_sock (o : op) : nat := match o with Read s _ => s | Disc s => s end.
