(* Executable model of the robustness skeleton of circuits/web/http.py (class HTTP):
   _on_read, _on_exception, _on_httperror, _on_response, _on_disconnect and the two
   per-connection tables _buffers / _clients, as repaired by fixes/C14_*.patch.

   Every partial operation on the read path is an ORACLE whose answer is part of the
   input ([answers], one record per read event) and may be [Raise]:
     a_ssl     is_ssl_handshake(data)
     a_exec    parser.execute(data)  -- covers str(.., 'unicode_escape') of the request
               line and of header lines, urlsplit, the chunk-size parse, zlib; its normal
               answer is what _on_read then reads from the parser: is_headers_complete(),
               errno, is_message_complete()
     a_errreq  wrappers.Request(...) on the 400 path (answers the parsed version)
     a_req     the statement req = wrappers.Request(sock, parser.get_method(), parser.get_scheme(), ...,
               headers=...)  -- Host port int(), parse_url, cookies, getpeername(), and the evaluation
               of its arguments (get_scheme() raises AttributeError on a parser that never saw a
               valid request line)
     a_clen    int(req.headers.get('Content-Length', '0'))
     a_path    the path guard (str.encode, quote) and the redirect constructor
     a_excreq  wrappers.Request(sock, server=...) inside _on_exception (getpeername())
     a_app     the status the application answers a dispatched request with; Raise = a handler of the
               request event raised (e.g. the dispatcher's body processing on a lone surrogate)
   Nothing about *which* bytes make an oracle raise is modelled: the theorems hold for
   every answer.  No proofs and no axioms in this file. *)
From Coq Require Import List NArith ZArith Bool Arith.
Import ListNotations.
Open Scope N_scope.

Inductive res (A : Type) : Type := Raise | Ret (a : A).
Arguments Raise {A}.
Arguments Ret {A} a.

(* parsers/http.py: BAD_FIRST_LINE = 0, INVALID_HEADER = 1, INVALID_CHUNK = 2 *)
Inductive perr := BadFirstLine | InvalidHeader | InvalidChunk.

Record pflags := { hc : bool; perrno : option perr; mc : bool }.

Definition version := (N * N)%type.

(* what _on_read uses of the Request it built (and keeps in _clients) *)
Record reqinfo := { rver : version;        (* req.protocol *)
                    is_head : bool;        (* req.method == 'HEAD' *)
                    has_host : bool;       (* bool(req.headers.get('Host')) *)
                    host_ctl : bool;       (* the Host value contains a control character, space or DEL *)
                    te_chunked : bool;     (* Transfer-Encoding header says chunked *)
                    keepalive : bool }.    (* parser.should_keep_alive() when the request was built *)

Inductive pathans := PCanon | PRedirect.

Record answers := {
  a_ssl : res bool;
  a_exec : res pflags;
  a_errreq : res (version * bool);   (* parsed version, method is HEAD *)
  a_req : res reqinfo;
  a_clen : res Z;
  a_path : res pathans;
  a_excreq : res unit;
  a_app : res (N * bool) }.         (* status, answered through an httperror event (notfound ...: forces close);
                                       Raise: a handler of the request event raised *)

(* per-connection state: membership in HTTP._buffers, entry of HTTP._clients *)
Record conn := { buf : bool; cli : option reqinfo }.
Definition empty_conn : conn := {| buf := false; cli := None |}.

(* call sites observed by the correspondence check, in call order *)
Inductive tag := TSsl | TExec | TErrReq | TReq | TInt | TExcReq.

(* events the component fires to itself *)
Inductive esrc := SRead | SExc.
Inductive iev :=
| IExc (src : esrc)                                (* exception(fevent = read | exception) *)
| IHttpError (code : N) (v : version) (hd : bool)     (* hd: the Request it carries has method HEAD *)
| IResponse (st : N) (v : version) (cl : bool) (hd : bool)
| IRequest (ri : reqinfo)
| IClose.

(* what the outside sees *)
Inductive eff :=
| EReject (code : N)                     (* httperror for a message that was not dispatched *)
| EWrite (st : N) (v : version) (cl : bool) (hd : bool)   (* one response: status, status-line version, says-close, head only (HEAD) *)
| EClose                                 (* close(sock) *)
| EDispatch                              (* request event delivered to the application *)
| ECrash                                 (* internal inconsistency: del of an absent table key *)
| EOutOfFuel.                            (* the self-fired events do not settle *)

(* Response.__init__ (repaired): the version put into the status line *)
Definition resp_version (v : version) : version :=
  let '(ma, mi) := v in
  if negb (ma =? 1) then (1, 1) else if 1 <? mi then (1, 1) else (1, mi).

Definition is10 (v : version) : bool := (fst v =? 1) && (snd v =? 0).

Inductive hres := HRet (q : list iev) | HRaise | HKeyError.

Definition set_buf (c : conn) (b : bool) : conn := {| buf := b; cli := cli c |}.
Definition set_cli (c : conn) (r : option reqinfo) : conn := {| buf := buf c; cli := r |}.

(* del self._buffers[sock] : KeyError when absent *)
Definition del_buf (c : conn) : option conn := if buf c then Some (set_buf c false) else None.

Definition reject (c : conn) (code : N) (v : version) (hd : bool) (tags : list tag) : conn * hres * list tag :=
  match del_buf c with
  | None => (c, HKeyError, tags)
  | Some c' => (c', HRet [IHttpError code (resp_version v) hd], tags)
  end.

(* http.py from `clen = int(...)` to the end of _on_read *)
Definition body_gate (c : conn) (a : answers) (f : pflags) (ri : reqinfo) (tags : list tag)
  : conn * hres * list tag :=
  match a_clen a with
  | Raise => (c, HRaise, tags ++ [TInt])
  | Ret n =>
      let tags := tags ++ [TInt] in
      if (negb (n =? 0)%Z || te_chunked ri) && negb (mc f) then (c, HRet [], tags)
      else if (n <? 0)%Z then reject c 400 (rver ri) (is_head ri) tags
      else if negb (is10 (rver ri)) && negb (has_host ri) then reject c 400 (rver ri) (is_head ri) tags
      else if host_ctl ri then reject c 400 (rver ri) (is_head ri) tags
      else match a_path a with
           | Raise => (c, HRaise, tags)
           | Ret PRedirect => (c, HRet [IHttpError 301 (resp_version (rver ri)) (is_head ri)], tags)
           | Ret PCanon =>
               match del_buf c with
               | None => (c, HKeyError, tags)
               | Some c' => (c', HRet [IRequest ri], tags)
               end
           end
  end.

Definition headers_done (c : conn) (a : answers) (f : pflags) (tags : list tag)
  : conn * hres * list tag :=
  match cli c with
  | Some ri => body_gate c a f ri tags
  | None =>
      match a_req a with
      | Raise => (c, HRaise, tags ++ [TReq])
      | Ret ri =>
          let c' := set_cli c (Some ri) in
          if negb (fst (rver ri) =? 1)
          then (c', HRet [IHttpError 505 (resp_version (rver ri)) (is_head ri)], tags ++ [TReq])
          else body_gate c' a f ri (tags ++ [TReq])
      end
  end.

Definition after_exec (c : conn) (a : answers) (tags : list tag) : conn * hres * list tag :=
  match a_exec a with
  | Raise => (c, HRaise, tags ++ [TExec])
  | Ret f =>
      let tags := tags ++ [TExec] in
      if negb (hc f) then
        match perrno f with
        | None => (c, HRet [], tags)
        | Some e =>
            match a_errreq a with
            | Raise => (c, HRaise, tags ++ [TErrReq])
            | Ret (v, hd) =>
                (* BAD_FIRST_LINE: Request(sock, server=...) with the default version and method GET;
                   otherwise a throw-away Request with the parsed version and method, NOT put into _clients *)
                reject c 400 (match e with BadFirstLine => (1, 1) | _ => v end)
                       (match e with BadFirstLine => false | _ => hd end) (tags ++ [TErrReq])
            end
        end
      else headers_done c a f tags
  end.

(* HTTP._on_read *)
Definition on_read (secure : bool) (c : conn) (a : answers) : conn * hres * list tag :=
  if buf c then after_exec c a []
  else
    let c1 := set_buf c true in
    match a_ssl a with
    | Raise => (c1, HRaise, [TSsl])
    | Ret b =>
        if b && negb secure then ({| buf := false; cli := None |}, HRet [IClose], [TSsl])
        else after_exec c1 a [TSsl]
    end.

(* `if sock in self._clients: del self._clients[sock]` -- the pair of a rejected message was possibly never
   registered (throw-away Request of the parser-error branch), hence the guard *)
(* del self._clients[sock] : KeyError when absent *)
Definition del_cli (c : conn) : option conn :=
  match cli c with Some _ => Some (set_cli c None) | None => None end.
Definition finish (c : conn) : option conn :=
  match cli c with Some _ => del_cli c | None => Some c end.

(* one self-fired event: _on_exception / _on_httperror / _on_response (and the application) *)
Definition handle (c : conn) (a : answers) (e : iev) : conn * list eff * list iev * list tag :=
  match e with
  | IExc SRead =>
      match a_excreq a with
      | Raise => (c, [], [IExc SExc], [TExcReq])
      | Ret _ => (c, [], [IHttpError 500 (resp_version (1, 1)) false], [TExcReq])
      end
  | IExc SExc => (c, [], [], [])          (* no branch of _on_exception matches: return *)
  | IHttpError code v hd => (c, [EReject code], [IResponse code v true hd], [])
  | IResponse st v cl hd =>
      (* _on_response: status line + headers; HEAD: no body, then finished like any other response;
         otherwise the body, then finished.  Both finishing blocks: close if announced, release the pair. *)
      if hd then
        match finish c with
        | Some c' => (c', [EWrite st v cl true], if cl then [IClose] else [], [])
        | None => (c, [EWrite st v cl true; ECrash], if cl then [IClose] else [], [])   (* KeyError in _on_response *)
        end
      else
        match finish c with
        | Some c' => (c', [EWrite st v cl false], if cl then [IClose] else [], [])
        | None => (c, [EWrite st v cl false; ECrash], if cl then [IClose] else [], [])
        end
  | IRequest ri =>
      match a_app a with
      | Ret (st, viaerr) =>
          (c, [EDispatch], [IResponse st (resp_version (rver ri)) (viaerr || negb (keepalive ri)) (is_head ri)], [])
      | Raise =>
          (* request_failure -> _on_request_failure: httperror(req, res) with the registered pair -> 500, close;
             the exception event that follows finds req.handled and returns (repaired) *)
          (c, [EDispatch], [IResponse 500 (resp_version (rver ri)) true (is_head ri)], [])
      end
  | IClose => (c, [EClose], [], [])
  end.

Fixpoint drain (fuel : nat) (q : list iev) (c : conn) (a : answers) : option (conn * list eff * list tag) :=
  match q with
  | [] => Some (c, [], [])
  | e :: q' =>
      match fuel with
      | O => None
      | S k =>
          let '(c', effs, new, tg) := handle c a e in
          match drain k (q' ++ new) c' a with
          | None => None
          | Some (c'', effs', tg') => Some (c'', effs ++ effs', tg ++ tg')
          end
      end
  end.

Definition FUEL : nat := 8.

(* a read event processed until the queue is empty again *)
Definition read_conn (secure : bool) (c : conn) (a : answers) : conn * list eff * list tag :=
  let '(c1, h, tags) := on_read secure c a in
  match h with
  | HKeyError => (c1, [ECrash], tags)
  | HRaise =>
      match drain FUEL [IExc SRead] c1 a with
      | None => (c1, [EOutOfFuel], tags)
      | Some (c2, effs, tg) => (c2, effs, tags ++ tg)
      end
  | HRet q =>
      match drain FUEL q c1 a with
      | None => (c1, [EOutOfFuel], tags)
      | Some (c2, effs, tg) => (c2, effs, tags ++ tg)
      end
  end.

(* ---- several connections, histories ---- *)
Definition tables := nat -> conn.
Definition empty_tables : tables := fun _ => empty_conn.
Definition upd (t : tables) (s : nat) (c : conn) : tables :=
  fun x => if Nat.eqb x s then c else t x.

Inductive op := Read (s : nat) (a : answers) | Disc (s : nat).

Definition step (secure : bool) (t : tables) (o : op) : tables * list eff :=
  match o with
  | Read s a => let '(c, effs, _) := read_conn secure (t s) a in (upd t s c, effs)
  | Disc s => (upd t s empty_conn, [])      (* _on_disconnect (repaired): both tables *)
  end.

Fixpoint run (secure : bool) (t : tables) (h : list op) : tables * list (list eff) :=
  match h with
  | [] => (t, [])
  | o :: r => let '(t1, e) := step secure t o in
              let '(t2, es) := run secure t1 r in (t2, e :: es)
  end.

Definition op_sock (o : op) : nat := match o with Read s _ => s | Disc s => s end.

(* ================================================================================================
   Second, concrete layer: the decision HttpParser(kind = 0).execute takes about the HEAD of a request
   (request line + header block) as a function of the bytes received so far on a fresh parser.
   [classify] reads parsers/http.py: execute's first-line and header phases, _parse_request_line
   (str.split(None, 2), METHOD_RE, urlsplit's fragment, VERSION_RE) and _parse_headers (CRLF CRLF search,
   ':' test, HEADER_RE on the field name, continuation lines).  There are no size limits in that code.
   Where the decision depends on library behaviour that is NOT modelled the verdict is [Unmodelled]:
   a backslash in the head (str(..., 'unicode_escape') then decodes or raises), a byte >= 128 in the
   request line (Unicode whitespace / netloc normalisation), '[' or ']' in the request target (urlsplit's
   IPv6 checks raise ValueError).  On every other byte string the verdict is definite.
   ================================================================================================ *)

Inductive verdict :=
| NeedMore                      (* nothing decided yet: execute returns, headers not complete, errno None *)
| Bad (e : perr)                (* errno set before the headers are complete *)
| HeadersOk                     (* is_headers_complete() *)
| Unmodelled.

Definition digit (c : N) : bool := (48 <=? c) && (c <=? 57).
(* str.isspace() restricted to code points < 128 *)
Definition is_sp (c : N) : bool := ((9 <=? c) && (c <=? 13)) || ((28 <=? c) && (c <=? 32)).

(* data.find(b'\r\n'): bytes before / after the first CRLF *)
Fixpoint cut_crlf (l : list N) : option (list N * list N) :=
  match l with
  | [] => None
  | a :: t =>
      match t with
      | b :: t' =>
          if (a =? 13) && (b =? 10) then Some ([], t')
          else match cut_crlf t with Some (x, y) => Some (a :: x, y) | None => None end
      | [] => None
      end
  end.

Fixpoint starts_with (p l : list N) : bool :=
  match p, l with
  | [], _ => true
  | a :: p', b :: l' => (a =? b) && starts_with p' l'
  | _ :: _, [] => false
  end.

(* data.find(b'\r\n\r\n'): bytes before the first CRLF CRLF *)
Fixpoint cut_crlf2 (l : list N) : option (list N) :=
  match l with
  | [] => None
  | a :: t => if starts_with [13; 10; 13; 10] l then Some []
              else match cut_crlf2 t with Some x => Some (a :: x) | None => None end
  end.

(* data.split(b'\r\n') *)
Fixpoint split_crlf (fuel : nat) (l : list N) : list (list N) :=
  match fuel with
  | O => [l]
  | S k => match cut_crlf l with
           | None => [l]
           | Some (x, y) => x :: split_crlf k y
           end
  end.

Fixpoint drop_sp (l : list N) : list N :=
  match l with c :: t => if is_sp c then drop_sp t else l | [] => [] end.
Fixpoint take_tok (l : list N) : list N * list N :=      (* maximal run of non-whitespace, rest *)
  match l with
  | c :: t => if is_sp c then ([], l) else let '(x, y) := take_tok t in (c :: x, y)
  | [] => ([], [])
  end.

(* line.split(None, 2) when it has exactly three parts *)
Definition split3 (line : list N) : option (list N * list N * list N) :=
  let '(t1, r1) := take_tok (drop_sp line) in
  let '(t2, r2) := take_tok (drop_sp r1) in
  let r3 := drop_sp r2 in
  match t1, t2, r3 with
  | _ :: _, _ :: _, _ :: _ => Some (t1, t2, r3)
  | _, _, _ => None
  end.

(* METHOD_RE = ^[A-Z0-9$-_.]{1,20}$ : '$-_' is the RANGE 36..95 *)
Definition method_ok (m : list N) : bool :=
  (1 <=? length m)%nat && (length m <=? 20)%nat && forallb (fun c => (36 <=? c) && (c <=? 95)) m.

(* urlsplit(target).fragment is non-empty: something follows the first '#' *)
Fixpoint has_fragment (t : list N) : bool :=
  match t with
  | c :: r => if c =? 35 then match r with [] => false | _ => true end else has_fragment r
  | [] => false
  end.

Fixpoint take_digits (l : list N) : list N * list N :=
  match l with
  | c :: t => if digit c then let '(x, y) := take_digits t in (c :: x, y) else ([], l)
  | [] => ([], [])
  end.

(* VERSION_RE = ^HTTP/(\d+).(\d+)$ with backtracking: digits, one character other than LF, digits *)
Definition digits_any_digits (s : list N) : bool :=
  let '(d1, r) := take_digits s in
  match r with
  | [] => (3 <=? length s)%nat
  | c :: d2 => negb (c =? 10) && negb (length d1 =? 0)%nat && negb (length d2 =? 0)%nat && forallb digit d2
  end.
Definition version_ok (v : list N) : bool :=
  let v' := match rev v with 10 :: r => rev r | _ => v end in     (* '$' also matches before a final LF *)
  starts_with [72; 84; 84; 80; 47] v' && digits_any_digits (skipn 5 v').

Definition first_line (line : list N) : verdict :=
  if existsb (fun c => (c =? 92) || (128 <=? c)) line then Unmodelled else
  match split3 line with
  | None => Bad BadFirstLine
  | Some (m, t, v) =>
      if negb (method_ok m) then Bad BadFirstLine
      else if existsb (fun c => (c =? 91) || (c =? 93)) t then Unmodelled
      else if has_fragment t then Bad BadFirstLine
      else if version_ok v then HeadersOk else Bad BadFirstLine
  end.

(* HEADER_RE searched in the field name: controls 0..31, DEL, ( ) < > @ , ; : / [ ] = { } SP HT backslash and the double quote *)
Definition name_bad (c : N) : bool :=
  (c <=? 31) || (c =? 127) || existsb (N.eqb c) [40; 41; 60; 62; 64; 44; 59; 58; 47; 91; 93; 61; 123; 125; 32; 9; 92; 34].

Fixpoint before_colon (l : list N) : option (list N) :=
  match l with
  | [] => None
  | c :: t => if c =? 58 then Some [] else match before_colon t with Some x => Some (c :: x) | None => None end
  end.
Fixpoint rstrip_spht (l : list N) : list N :=       (* name.rstrip(' \t') *)
  match l with
  | [] => []
  | c :: t => match rstrip_spht t with
              | [] => if (c =? 32) || (c =? 9) then [] else [c]
              | r => c :: r
              end
  end.
Definition header_line_ok (l : list N) : bool :=
  match before_colon l with
  | None => false
  | Some name => negb (existsb name_bad (rstrip_spht name))
  end.
Definition is_cont (l : list N) : bool :=
  match l with c :: _ => (c =? 32) || (c =? 9) | [] => false end.

Definition header_block (blk : list N) : verdict :=
  if existsb (fun c => c =? 92) blk then Unmodelled else
  match split_crlf (length blk) blk with
  | [] => HeadersOk
  | l1 :: ls =>
      if header_line_ok l1 && forallb (fun l => is_cont l || header_line_ok l) ls
      then HeadersOk else Bad InvalidHeader
  end.

Definition classify (bs : list N) : verdict :=
  match cut_crlf bs with
  | None => NeedMore
  | Some (line, rest) =>
      match first_line line with
      | HeadersOk =>
          if starts_with [13; 10] rest then HeadersOk
          else match cut_crlf2 rest with
               | None => NeedMore
               | Some blk => header_block blk
               end
      | v => v
      end
  end.

(* what _on_read reads from the parser when the head got this verdict *)
Definition exec_agrees (a : answers) (v : verdict) : Prop :=
  match v with
  | NeedMore => exists m, a_exec a = Ret {| hc := false; perrno := None; mc := m |}
  | Bad e => exists m, a_exec a = Ret {| hc := false; perrno := Some e; mc := m |}
  | HeadersOk => exists f, a_exec a = Ret f /\ hc f = true
  | Unmodelled => True
  end.

(* ================================================================================================
   Bursts: several read / disconnect events are already queued when the loop runs.  The queue is FIFO (all
   these events have priority 0) and a flush round dispatches what was queued before it started, so every
   read and disconnect handler runs in the first round, in order, BEFORE any event of any cascade; the
   cascades (exception / httperror / response / request / close) run in later rounds, interleaved by their
   different lengths, but they touch the tables only through the guarded release of the _clients entry
   and their effects do not depend on the tables.  Hence two phases: [phase1] threads the tables through
   _on_read / _on_disconnect, [phase2] runs the cascades.  Effects are listed read-major (grouped by the
   read that caused them, reads in queue order); the correspondence check regroups the real events the
   same way, so it is this two-phase reading of the interleaving that is compared with the real loop.
   ================================================================================================ *)
Definition pending := (nat * answers * hres)%type.        (* socket, answers, what its _on_read returned *)

Fixpoint phase1 (secure : bool) (t : tables) (h : list op) : tables * list pending * list (list tag) :=
  match h with
  | [] => (t, [], [])
  | Read s a :: r =>
      let '(c, hr, tags) := on_read secure (t s) a in
      let '(t', ps, tg) := phase1 secure (upd t s c) r in
      (t', (s, a, hr) :: ps, tags :: tg)
  | Disc s :: r => phase1 secure (upd t s empty_conn) r
  end.

(* the cascade of one read, started in connection state c *)
Definition cascade (c : conn) (a : answers) (hr : hres) : conn * list eff * list tag :=
  match hr with
  | HKeyError => (c, [ECrash], [])
  | HRaise => match drain FUEL [IExc SRead] c a with Some r => r | None => (c, [EOutOfFuel], []) end
  | HRet q => match drain FUEL q c a with Some r => r | None => (c, [EOutOfFuel], []) end
  end.

Fixpoint phase2 (t : tables) (ps : list pending) : tables * list (nat * list eff) * list (list tag) :=
  match ps with
  | [] => (t, [], [])
  | (s, a, hr) :: r =>
      let '(c, effs, tg) := cascade (t s) a hr in
      let '(t', es, tgs) := phase2 (upd t s c) r in
      (t', (s, effs) :: es, tg :: tgs)
  end.

Definition burst (secure : bool) (h : list op) : tables * list (nat * list eff) :=
  let '(t1, ps, _) := phase1 secure empty_tables h in
  let '(t2, es, _) := phase2 t1 ps in (t2, es).
