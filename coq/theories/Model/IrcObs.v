From Coq Require Import List ZArith NArith.
From Circ Require Import Lib.Obs Model.Irc.
Import ListNotations.

Definition obs_str (cmd : list N) (pfx : option (list N)) (a : list (list N)) : T :=
  Topt Tb (to_str {| command := cmd; prefix := pfx; args := a |}).

Definition obs_parse (s : list N) : T :=
  match parsemsg s with
  | PCrash => Tl []
  | POk p c a => Tl [Tb p; Topt Tb c; Tlist Tb a]
  end.
