From Coq Require Import List ZArith NArith.
From Circ Require Import Lib.Obs Model.Line Model.LineObs Model.Irc.
Import ListNotations.

Definition obs_str (cmd : list N) (pfx : option (list N)) (a : list (list N)) : T :=
  Topt Tb (to_str {| command := cmd; prefix := pfx; args := a |}).

Definition obs_parse (s : list N) : T :=
  match parsemsg s with
  | PCrash => Tl []
  | POk p c a => Tl [Tb p; Topt Tb c; Tlist Tb a]
  end.

(* several messages serialised one after the other (a rejected message writes
   nothing), the bytes cut into reads of the given sizes (the remainder is the
   last read), received by the Line protocol.  ASCII only: code points = bytes. *)
Fixpoint cut_at (sizes : list nat) (s : list N) : list (list N) :=
  match sizes with
  | [] => [s]
  | n :: r => firstn n s :: cut_at r (skipn n s)
  end.

Definition obs_irc_stream (ms : list (list N * option (list N) * list (list N))) (sizes : list nat) : T :=
  obs_client (cut_at sizes
    (flat_map (fun m => match to_str {| command := fst (fst m); prefix := snd (fst m); args := snd m |} with
                        | Some b => b | None => [] end) ms)).
