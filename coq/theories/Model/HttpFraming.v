(* Executable model of the framing done by circuits/web/parsers/http.py (HttpParser.execute,
   _parse_headers, _parse_body, _parse_chunk_size) and of the gating done around it by
   circuits/web/http.py (HTTP._on_read, server side) and circuits/protocols/http.py
   (HTTP._on_client_read, client side, used by circuits/web/client.py).

   The model is the model of the code WITH fixes/C13_*.patch applied:
     - the first-line search runs over the carried-over bytes plus the new read,
     - a chunked message is complete only when the whole last-chunk + trailer section has arrived,
     - HTTP._on_read recognises Transfer-Encoding: chunked case-insensitively (like the parser),
     - HTTP._on_response releases the request/response pair after a HEAD request,
     - an empty header section is recognised by its leading CRLF whatever follows in the same read.

   Bytes are N.  Content parsing of the first line and of the header block is NOT modelled: it is
   the Section variables [parse_fl] and [parse_hd] (oracles).  What framing needs from them:
     parse_fl line  = None            -> InvalidRequestLine (errno BAD_FIRST_LINE)
                    = Some is204      -> accepted; is204 <-> status code 204 (responses)
     parse_hd block = None            -> InvalidHeader
                    = Some (clen, ch) -> clen = int(Content-Length) if present, ch <-> Transfer-Encoding
                                         (lower-cased) == "chunked"
   [kind_resp] is the parser kind: false = HttpParser(0) (requests), true = HttpParser(1) (responses).
   Reads are non-empty byte strings (the socket layer never fires `read` with b''; execute(b'', 0)
   = "EOF" is outside the model).  No proofs in this file. *)
From Coq Require Import List NArith ZArith Bool.
Import ListNotations.
Open Scope N_scope.

Definition CR : N := 13.
Definition LF : N := 10.
Definition CRLF : list N := [CR; LF].
Definition CRLF2 : list N := [CR; LF; CR; LF].
Definition maxsize : Z := 9223372036854775807%Z.   (* sys.maxsize *)

Fixpoint list_eqb (a b : list N) : bool :=
  match a, b with
  | [], [] => true
  | x :: a', y :: b' => (x =? y) && list_eqb a' b'
  | _, _ => false
  end.

Fixpoint is_prefix (d x : list N) : bool :=
  match d, x with
  | [], _ => true
  | a :: d', b :: x' => (a =? b) && is_prefix d' x'
  | _ :: _, [] => false
  end.

(* bytes.find(d) as a split: Some (before, after) at the first occurrence of d *)
Fixpoint split_on (d x : list N) : option (list N * list N) :=
  match x with
  | [] => if is_prefix d [] then Some ([], []) else None
  | a :: t => if is_prefix d x then Some ([], skipn (length d) x)
              else match split_on d t with
                   | Some (l, r) => Some (a :: l, r)
                   | None => None
                   end
  end.

(* ---- chunk-size line: int(line.split(b';',1)[0].strip(), 16), on hex digits ---- *)
Definition is_ws (c : N) : bool := (c =? 32) || ((9 <=? c) && (c <=? 13)).
Fixpoint take_until_semi (l : list N) : list N :=
  match l with [] => [] | c :: t => if c =? 59 then [] else c :: take_until_semi t end.
Fixpoint drop_ws (l : list N) : list N :=
  match l with [] => [] | c :: t => if is_ws c then drop_ws t else l end.
Definition strip (l : list N) : list N := rev (drop_ws (rev (drop_ws l))).
Definition hexval (c : N) : option N :=
  if (48 <=? c) && (c <=? 57) then Some (c - 48)
  else if (97 <=? c) && (c <=? 102) then Some (c - 87)
  else if (65 <=? c) && (c <=? 70) then Some (c - 55)
  else None.
Fixpoint hex_acc (acc : N) (l : list N) : option N :=
  match l with
  | [] => Some acc
  | c :: t => match hexval c with Some v => hex_acc (acc * 16 + v) t | None => None end
  end.
(* None = InvalidChunkSize *)
Definition chunk_size (line : list N) : option N :=
  match strip (take_until_semi line) with [] => None | l => hex_acc 0 l end.

(* one attempt of _parse_body in chunked mode on the joined buffer x *)
Inductive c1 := CWait | CDone | CTake (d r : list N).

Definition chunk1 (x : list N) : c1 :=
  match split_on CRLF x with
  | None => CWait                                   (* size line incomplete *)
  | Some (line, rest) =>
      match chunk_size line with
      | None => CWait                               (* INVALID_CHUNK, -1: nothing consumed *)
      | Some n =>
          if n =? 0 then
            (* last chunk: complete when the trailer section is (repaired behaviour) *)
            if is_prefix CRLF rest || (match split_on CRLF2 rest with Some _ => true | None => false end)
            then CDone else CWait
          else if N.of_nat (length rest) <? n + 2 then CWait   (* data or its CRLF not all there: nothing consumed *)
          else CTake (firstn (N.to_nat n) rest) (skipn (N.to_nat n + 2) rest)
      end
  end.

Inductive pstate :=
| PFirst (buf : list N)                                   (* before the first line; carried-over bytes *)
| PHead (fl : list N) (is204 : bool) (buf : list N)       (* first line fl accepted; header bytes so far *)
| PBody (fl blk : list N) (clen rest : option Z) (body : list N)   (* identity body; rest = _clen_rest *)
| PChunk (fl blk : list N) (body buf : list N)            (* chunked body; unconsumed chunk bytes *)
| PDone (fl blk : list N) (body : list N)                 (* message complete *)
| PErr (e : N)                                            (* errno before headers complete: 0 first line, 1 header *)
| PCrash                                                  (* an exception escaped execute() *)
| POutOfFuel.

Section Parser.
Variable kind_resp : bool.
Variable parse_fl : list N -> option bool.
Variable parse_hd : list N -> option (option Z * bool).

(* _parse_body, identity transfer coding, called with the joined buffer r *)
Definition body_step (fl blk : list N) (clen rest : option Z) (body r : list N) : pstate :=
  match r, clen with
  | [], None => if kind_resp then PBody fl blk clen rest body else PDone fl blk body
  | _, _ =>
      match rest with
      | None => PCrash                              (* None -= int *)
      | Some z => let z' := (z - Z.of_nat (length r))%Z in
                  if (z' <=? 0)%Z then PDone fl blk (body ++ r)
                  else PBody fl blk clen (Some z') (body ++ r)
      end
  end.

Fixpoint chunk_adv (fuel : nat) (fl blk body x : list N) : pstate :=
  match fuel with
  | O => POutOfFuel
  | S f => match chunk1 x with
           | CWait => PChunk fl blk body x
           | CDone => PDone fl blk body
           | CTake d r => chunk_adv f fl blk (body ++ d) r
           end
  end.

(* header phase on the joined buffer x (= everything after the first line's CRLF) *)
Definition heads (fl : list N) (is204 : bool) (x : list N) : pstate :=
  if is_prefix CRLF x then
    (* empty header section (repaired behaviour): everything after the empty line is body, delimited by the
       end of the connection; _buf = [] iff nothing follows yet, which is what the 204 test looks at *)
    let r := skipn 2 x in
    if kind_resp && is204 && (match r with [] => true | _ => false end) then PDone fl [] []
    else body_step fl [] None (Some maxsize) [] r
  else
    match split_on CRLF2 x with
    | None => PHead fl is204 x
    | Some (blk, r) =>
        match parse_hd blk with
        | None => PErr 1
        | Some (Some n, _) => body_step fl blk (Some n) (Some n) [] r
        | Some (None, true) => chunk_adv (S (length r)) fl blk [] r
        | Some (None, false) => body_step fl blk None (Some maxsize) [] r
        end
    end.

(* HttpParser.execute(data, len(data)), data non-empty *)
Definition feed (s : pstate) (data : list N) : pstate :=
  match s with
  | PFirst buf =>
      let x := buf ++ data in
      match split_on CRLF x with
      | None => PFirst x
      | Some (l, r) => match parse_fl l with
                       | None => PErr 0
                       | Some is204 => heads l is204 r
                       end
      end
  | PHead fl i buf => heads fl i (buf ++ data)
  | PBody fl blk clen rest body => body_step fl blk clen rest body data
  | PChunk fl blk body buf => let x := buf ++ data in chunk_adv (S (length x)) fl blk body x
  | _ => s
  end.

Definition run (s : pstate) (chunks : list (list N)) : pstate := fold_left feed chunks s.

(* ---- the components around the parser ---- *)
Inductive event := EMsg (fl blk body : list N) | EBad | ECrash.

(* HTTP._on_read (server, kind_resp = false): Some evs = the parser is dropped from _buffers and evs fired *)
Definition srv_emit (s : pstate) : option (list event) :=
  match s with
  | PErr _ => Some [EBad]                               (* httperror 400 *)
  | PDone fl blk body => Some [EMsg fl blk body]        (* request event *)
  | PBody fl blk None _ body => Some [EMsg fl blk body] (* no Content-Length, not chunked: not deferred *)
  | _ => None
  end.

(* protocols.http.HTTP._on_client_read (client, kind_resp = true): response event + fresh parser *)
Definition cli_emit (s : pstate) : option (list event) :=
  match s with
  | PDone fl blk body => Some [EMsg fl blk body]
  | _ => None
  end.

Definition conn_read (emit : pstate -> option (list event)) (s : pstate) (data : list N)
  : pstate * list event :=
  let s' := feed s data in
  match emit s' with
  | Some evs => (PFirst [], evs)
  | None => (s', match s' with PCrash => [ECrash] | _ => [] end)
  end.

Fixpoint conn_run (emit : pstate -> option (list event)) (s : pstate) (reads : list (list N))
  : pstate * list event :=
  match reads with
  | [] => (s, [])
  | d :: ds => let '(s1, e1) := conn_read emit s d in
               let '(s2, e2) := conn_run emit s1 ds in (s2, e1 ++ e2)
  end.

End Parser.

(* oracle instances for running the model: tables recorded from the real calls *)
Fixpoint lookup {A} (tbl : list (list N * A)) (k : list N) : option A :=
  match tbl with
  | [] => None
  | (k', v) :: t => if list_eqb k k' then Some v else lookup t k
  end.
Definition tbl_fl (tbl : list (list N * option bool)) (k : list N) : option bool :=
  match lookup tbl k with Some v => v | None => None end.
Definition tbl_hd (tbl : list (list N * option (option Z * bool))) (k : list N) : option (option Z * bool) :=
  match lookup tbl k with Some v => v | None => None end.
