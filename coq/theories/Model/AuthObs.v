(* Encoders of the Auth model's results into Obs.T; oracles instantiated by tables
   recorded from the library calls of the implementation run. *)
From Coq Require Import List ZArith NArith Bool String Ascii.
From Circ Require Import Lib.Obs Model.Auth.
Import ListNotations.
Open Scope N_scope.

(* compact literals for printable-ASCII strings of the generated cases *)
Fixpoint s2l (s : string) : list N :=
  match s with EmptyString => [] | String a r => N_of_ascii a :: s2l r end.

Definition tbl_opt {A} (t : list (str * option A)) (k : str) : option A :=
  match lookup k t with Some v => v | None => None end.
Definition tbl (t : list (str * str)) (k : str) : option str := lookup k t.

(* encrypt configurations of the harness:
   0 default (md5 of a str: TypeError), 1 str, 2 lambda p: md5(p.encode()).hexdigest(),
   3 lambda p, u: u + ':' + p *)
Definition enc_of (kind : nat) (md5t : list (str * str)) : str -> str -> option str :=
  match kind with
  | 0%nat => default_enc
  | 1%nat => fun p _ => Some p
  | 2%nat => fun p _ => tbl md5t p
  | _ => fun p u => Some (u ++ COLON :: p)
  end.

Definition obs_outcome (o : outcome) : T :=
  match o with
  | Authd u => Tl [Tn 0; Tl [Tn 2; Tb u]]
  | Refused true => Tl [Tn 1; Tl [Tn 1]]
  | Refused false => Tl [Tn 1; Tl [Tn 0]]
  | Crash => Tl [Tn 2; Tl [Tn 0]]
  end.

(* fn: 0 check_auth / basic_auth with the given encrypt, 1 digest_auth *)
Definition outcome_of (b64t utf8t : list (str * option (list N))) (md5t : list (str * str))
    (keqvt : list (str * option params)) (fn kind : nat)
    (hdr : option str) (method realm : str) (users : list (str * str)) : outcome :=
  match fn with
  | 0%nat => basic_auth (tbl_opt b64t) (tbl_opt utf8t) (tbl md5t) (tbl_opt keqvt) (enc_of kind md5t)
               hdr method realm (table_of users)
  | _ => digest_auth (tbl_opt b64t) (tbl_opt utf8t) (tbl md5t) (tbl_opt keqvt) hdr method realm (table_of users)
  end.

Definition obs_auth b64t utf8t md5t keqvt fn kind hdr method realm users : T :=
  obs_outcome (outcome_of b64t utf8t md5t keqvt fn kind hdr method realm users).

(* end-to-end runs: was the protected body served? *)
Definition obs_served b64t utf8t md5t keqvt fn kind hdr method realm users : T :=
  Tbool (protected_served (outcome_of b64t utf8t md5t keqvt fn kind hdr method realm users)).

(* Several checks on one and the same request object.  Each check is the pure function
   above, decided by its own (realm, users, encrypt); the only thing that carries over
   is request.login, which a check that raises (or finds no header) leaves untouched. *)
Definition login_after (prev : T) (o : outcome) : T :=
  match o with
  | Authd u => Tl [Tn 2; Tb u]
  | Refused true => Tl [Tn 1]
  | Refused false => prev
  | Crash => prev
  end.

Definition tag_of (o : outcome) : T :=
  match o with Authd _ => Tn 0 | Refused _ => Tn 1 | Crash => Tn 2 end.

Fixpoint obs_seq_from (prev : T) (os : list outcome) : list T :=
  match os with
  | [] => []
  | o :: r => let l := login_after prev o in Tl [tag_of o; l] :: obs_seq_from l r
  end.

Definition obs_auth_seq (os : list outcome) : T := Tl (obs_seq_from (Tl [Tn 0]) os).
