From Coq Require Import List ZArith Arith.
From Circ Require Import Lib.Obs Model.Handlers.
Import ListNotations.

Fixpoint insert (x : nat) (l : list nat) : list nat :=
  match l with [] => [x] | y :: r => if Nat.leb x y then x :: l else y :: insert x r end.
Definition sort (l : list nat) : list nat := fold_right insert [] l.

Definition nonempty (d : delivery) : bool := match d_invoked d with [] => false | _ => true end.

Fixpoint insert_d (x : delivery) (l : list delivery) : list delivery :=
  match l with [] => [x] | y :: r => if Nat.leb (d_eid x) (d_eid y) then x :: l else y :: insert_d x r end.
Definition sort_d (l : list delivery) : list delivery := fold_right insert_d [] l.

(* deliveries that invoked at least one handler, as (event id, sorted handler ids) ordered by event id
   (the order of dispatch is the subject of C02/C07, not of C01), then the status (0 completed, 1 KeyError, 2 precondition violated) *)
Definition obs_nonempty (cs : list (nat * chan)) (ops : list op) : T :=
  let '(ds, _, st) := run (fresh_world cs) ops in
  Tpair (Tlist (fun d => Tl [Tnat (d_eid d); Tlist Tnat (sort (d_invoked d))]) (sort_d (filter nonempty ds))) (Tnat st).
