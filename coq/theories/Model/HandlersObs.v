From Coq Require Import List ZArith Arith.
From Circ Require Import Lib.Obs Model.Handlers.
Import ListNotations.

Fixpoint insert (x : nat) (l : list nat) : list nat :=
  match l with [] => [x] | y :: r => if Nat.leb x y then x :: l else y :: insert x r end.
Definition sort (l : list nat) : list nat := fold_right insert [] l.

Definition nonempty (d : delivery) : bool := match d_invoked d with [] => false | _ => true end.

Fixpoint insert_d (x : delivery) (l : list delivery) : list delivery :=
  match l with [] => [x] | y :: r => if Nat.leb (d_eid x) (d_eid y) then x :: l else y :: insert_d x r end.
Definition sort_d (l : list delivery) : list delivery := fold_right insert_d [] l.

(* deliveries that invoked at least one handler, as (event id, sorted handler ids) ordered by event id
   (the order of dispatch is the subject of C02/C07, not of C01), then the status (0 completed, 1 KeyError, 2 precondition violated) *)
Definition obs_nonempty (cs : list (nat * chan)) (ops : list op) : T :=
  let '(ds, _, st) := run (fresh_world cs) ops in
  Tpair (Tlist (fun d => Tl [Tnat (d_eid d); Tlist Tnat (sort (d_invoked d))]) (sort_d (filter nonempty ds))) (Tnat st).

(* the same Event OBJECT fired more than once: every firing has its own id in the model; the implementation can only
   tell the object, so the comparison is per object: `al` maps a firing id to the id of the object's first firing, and
   the handler ids of all firings of one object are merged (a multiset: sorted, duplicates kept) *)
Definition alias_of (al : list (nat * nat)) (e : nat) : nat :=
  match find (fun p => Nat.eqb (fst p) e) al with Some p => snd p | None => e end.

Fixpoint merge_adjacent (l : list (nat * list nat)) : list (nat * list nat) :=
  match l with
  | [] => []
  | (k, v) :: r =>
      match merge_adjacent r with
      | (k', v') :: r' => if Nat.eqb k k' then (k, v ++ v') :: r' else (k, v) :: (k', v') :: r'
      | [] => [(k, v)]
      end
  end.

Fixpoint insert_kv (x : nat * list nat) (l : list (nat * list nat)) : list (nat * list nat) :=
  match l with [] => [x] | y :: r => if Nat.leb (fst x) (fst y) then x :: l else y :: insert_kv x r end.
Definition sort_kv (l : list (nat * list nat)) : list (nat * list nat) := fold_right insert_kv [] l.

Definition obs_nonempty_alias (cs : list (nat * chan)) (ops : list op) (al : list (nat * nat)) : T :=
  let '(ds, _, st) := run (fresh_world cs) ops in
  let kvs := map (fun d => (alias_of al (d_eid d), d_invoked d)) (filter nonempty ds) in
  Tpair (Tlist (fun kv => Tl [Tnat (fst kv); Tlist Tnat (sort (snd kv))]) (merge_adjacent (sort_kv kvs))) (Tnat st).
