From Coq Require Import List ZArith NArith.
From Circ Require Import Lib.Obs Model.Line.
Import ListNotations.

Definition obs_client (chunks : list (list N)) : T :=
  let '(ls, b) := run [] chunks in Tpair (Tlist Tb ls) (Tb b).

Definition obs_server (socks : list nat) (evs : list (nat * list N)) : T :=
  let '(out, m) := run_srv empty_bufs evs in
  Tpair (Tlist (fun e => Tpair (Tnat (fst e)) (Tb (snd e))) out)
        (Tlist (fun k => Tb (m k)) socks).
