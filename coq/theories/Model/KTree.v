(* KTree: executable model of the component-tree layer of circuits
     circuits/core/components.py : register, unregister, _do_prepare_unregister_complete, _updateRoot
     circuits/core/manager.py    : registerChild, unregisterChild, fireEvent (queue of the root),
                                   _EventQueue.drainFrom, flush/tick, the handler cache and its dirty flag
   for a pool of components 0..n-1 that all carry one catch-all logging handler and the built-in
   prepare_unregister_complete handler.  Single thread, nothing is running.
   The order in which one flush dispatches its batch (heap order, ties between drained queues) is an
   argument (the schedule); the model only requires it to be a permutation of the batch.
   No proofs in this file. *)
From Coq Require Import List Arith Bool.
Import ListNotations.

Definition comp := nat.

Inductive ev :=
| Probe (i : nat)
| Registered (c p : comp)
| Unregistered (c p : comp)
| PrepUnreg (c : comp)            (* prepare_unregister(c), complete=True, complete_channels=(c,) *)
| PrepDone (c : comp)             (* prepare_unregister_complete on channel (c,) *)
| Other.                          (* anything else the implementation dispatched (never queued by the model) *)

Definition ev_eqb (a b : ev) : bool :=
  match a, b with
  | Probe i, Probe j => i =? j
  | Registered c p, Registered c' p' => (c =? c') && (p =? p')
  | Unregistered c p, Unregistered c' p' => (c =? c') && (p =? p')
  | PrepUnreg c, PrepUnreg c' => c =? c'
  | PrepDone c, PrepDone c' => c =? c'
  | Other, Other => true
  | _, _ => false
  end.

(* cache key = (event name, channels); every pool component has channel '*' *)
Inductive key := KProbe | KReg | KUnreg | KPrep | KDone (c : comp) | KOther.

Definition key_of (e : ev) : key :=
  match e with
  | Probe _ => KProbe | Registered _ _ => KReg | Unregistered _ _ => KUnreg
  | PrepUnreg _ => KPrep | PrepDone c => KDone c | Other => KOther
  end.

Definition key_eqb (a b : key) : bool :=
  match a, b with
  | KProbe, KProbe | KReg, KReg | KUnreg, KUnreg | KPrep, KPrep | KOther, KOther => true
  | KDone c, KDone d => c =? d
  | _, _ => false
  end.

(* one dispatch: the root that dispatched, the event, the components whose logging handler ran,
   and (ghost) whether every one of them had that root as its root at that moment *)
Record drec := mkd { d_root : comp; d_ev : ev; d_recv : list comp; d_ok : bool }.

Record st := mkst {
  par : comp -> comp;                       (* .parent *)
  rt : comp -> comp;                        (* .root *)
  kid : comp -> comp -> bool;               (* kid p c  <->  c in p.components *)
  pend : comp -> bool;                      (* _unregister_pending *)
  q : comp -> list ev;                      (* _queue, oldest first *)
  dirty : comp -> bool;                     (* _cache_needs_refresh *)
  cache : comp -> list (key * list comp);   (* _cache: key -> components whose handlers are listed *)
  (* ghost history, newest first *)
  regd : list (comp * comp);                (* completed registrations (c, p) *)
  unregd : list (comp * comp);              (* completed unregistrations (c, former parent) *)
  disp : list drec                          (* every dispatch *)
}.

Definition upd {A} (f : comp -> A) (k : comp) (v : A) : comp -> A :=
  fun j => if j =? k then v else f j.
Definition upd2 (f : comp -> comp -> bool) (p c : comp) (v : bool) : comp -> comp -> bool :=
  fun a b => if (a =? p) && (b =? c) then v else f a b.

Definition set_par s f := mkst f (rt s) (kid s) (pend s) (q s) (dirty s) (cache s) (regd s) (unregd s) (disp s).
Definition set_rt s f := mkst (par s) f (kid s) (pend s) (q s) (dirty s) (cache s) (regd s) (unregd s) (disp s).
Definition set_kid s f := mkst (par s) (rt s) f (pend s) (q s) (dirty s) (cache s) (regd s) (unregd s) (disp s).
Definition set_pend s f := mkst (par s) (rt s) (kid s) f (q s) (dirty s) (cache s) (regd s) (unregd s) (disp s).
Definition set_q s f := mkst (par s) (rt s) (kid s) (pend s) f (dirty s) (cache s) (regd s) (unregd s) (disp s).
Definition set_dirty s f := mkst (par s) (rt s) (kid s) (pend s) (q s) f (cache s) (regd s) (unregd s) (disp s).
Definition set_cache s f := mkst (par s) (rt s) (kid s) (pend s) (q s) (dirty s) f (regd s) (unregd s) (disp s).
Definition set_regd s l := mkst (par s) (rt s) (kid s) (pend s) (q s) (dirty s) (cache s) l (unregd s) (disp s).
Definition set_unregd s l := mkst (par s) (rt s) (kid s) (pend s) (q s) (dirty s) (cache s) (regd s) l (disp s).
Definition set_disp s l := mkst (par s) (rt s) (kid s) (pend s) (q s) (dirty s) (cache s) (regd s) (unregd s) l.

Definition init : st :=
  mkst (fun c => c) (fun c => c) (fun _ _ => false) (fun _ => false) (fun _ => [])
       (fun _ => false) (fun _ => []) [] [] [].

Inductive res (A : Type) :=
| Ok (a : A)
| PreViolated      (* the op does not satisfy the property's preconditions in this state *)
| BadSched         (* the schedule is not a permutation of the batch *)
| OutOfFuel        (* recursion deeper than the pool: RecursionError in the implementation *)
| Crash.           (* delattr of a missing attribute / set.remove of a missing element *)
Arguments Ok {A} a.
Arguments PreViolated {A}.
Arguments BadSched {A}.
Arguments OutOfFuel {A}.
Arguments Crash {A}.

(* fireEvent: the event goes to the queue of the firing component's root *)
Definition enq (x : comp) (e : ev) (s : st) : st := set_q s (upd (q s) x (q s x ++ [e])).

(* _updateRoot(root): self.root = root; for c in self.components: c._updateRoot(root) *)
Fixpoint upd_root (n fuel : nat) (kd : comp -> comp -> bool) (r c : comp) (f : comp -> comp)
  : option (comp -> comp) :=
  match fuel with
  | O => None
  | S fu =>
      fold_left (fun acc k => match acc with
                              | None => None
                              | Some g => if kd c k then upd_root n fu kd r k g else Some g
                              end)
                (seq 0 n) (Some (upd f c r))
  end.

(* getHandlers recursion over .components: who is reached from c *)
Fixpoint reachb (n fuel : nat) (kd : comp -> comp -> bool) (c x : comp) : bool :=
  match fuel with
  | O => false
  | S fu => if x =? c then true
            else existsb (fun k => if kd c k then reachb n fu kd k x else false) (seq 0 n)
  end.

Definition members (n : nat) (kd : comp -> comp -> bool) (r : comp) : list comp :=
  filter (reachb n (S n) kd r) (seq 0 n).

Fixpoint find_key (k : key) (l : list (key * list comp)) : option (list comp) :=
  match l with
  | [] => None
  | (k', ms) :: t => if key_eqb k k' then Some ms else find_key k t
  end.

(* _dispatcher, first part: refresh the cache if dirty, then look the handlers up (or compute and store) *)
Definition lookup (n : nat) (r : comp) (e : ev) (s : st) : st * list comp :=
  let s1 := if dirty s r then set_dirty (set_cache s (upd (cache s) r [])) (upd (dirty s) r false) else s in
  match find_key (key_of e) (cache s1 r) with
  | Some ms => (s1, ms)
  | None => let ms := members n (kid s1) r in
            (set_cache s1 (upd (cache s1) r ((key_of e, ms) :: cache s1 r)), ms)
  end.

(* _do_prepare_unregister_complete (with the refresh of the own cache flag, /repo b76568c) *)
Definition complete (n : nat) (c : comp) (s : st) : res st :=
  if negb (pend s c) then Crash else
  let p := par s c in
  let s1 := enq (rt s c) (Unregistered c p) (set_pend s (upd (pend s) c false)) in
  let s2 := if p =? c then Ok s1
            else if negb (kid s1 p c) then Crash
            else Ok (set_par (set_dirty (set_kid s1 (upd2 (kid s1) p c false))
                                        (upd (dirty s1) (rt s1 p) true))
                             (upd (par s1) c c)) in
  match s2 with
  | Ok s3 =>
      match upd_root n (S n) (kid s3) c c (rt s3) with
      | None => OutOfFuel
      | Some f => Ok (set_unregd (set_dirty (set_rt s3 f) (upd (dirty s3) c true)) ((c, p) :: unregd s3))
      end
  | r => r
  end.

(* register(c, p); precondition of the property: c detached and not pending, p outside c's subtree
   (for a detached c that subtree is the tree whose root is c) *)
Definition register (n : nat) (c p : comp) (s : st) : res st :=
  if (c <? n) && (p <? n) && (par s c =? c) && negb (pend s c) && negb (rt s p =? c) && negb (c =? p) then
    let R := rt s p in
    let s1 := set_rt (set_par s (upd (par s) c p)) (upd (rt s) c R) in
    (* registerChild *)
    let s2 := set_kid s1 (upd2 (kid s1) p c true) in
    let s3 := set_q s2 (upd (upd (q s2) R (q s2 R ++ q s2 c)) c []) in
    let s4 := set_dirty s3 (upd (dirty s3) R true) in
    match upd_root n (S n) (kid s4) R c (rt s4) with
    | None => OutOfFuel
    | Some f => let s5 := set_rt s4 f in
                Ok (set_regd (enq (rt s5 c) (Registered c p) s5) ((c, p) :: regd s5))
    end
  else PreViolated.

(* unregister(c) on an attached component; a no-op when already pending *)
Definition unregister (n : nat) (c : comp) (s : st) : res st :=
  if (c <? n) && negb (par s c =? c) then
    if pend s c then Ok s
    else Ok (enq (rt s c) (PrepUnreg c)
                 (set_dirty (set_pend s (upd (pend s) c true)) (upd (dirty s) (rt s c) true)))
  else PreViolated.

Definition fire (n : nat) (x : comp) (i : nat) (s : st) : res st :=
  if x <? n then Ok (enq (rt s x) (Probe i) s) else PreViolated.

(* what a handler may do while it handles an event: the same three operations, under the same
   preconditions, evaluated at the moment the handler runs.  The root whose flush is in progress cannot be
   registered elsewhere (registerChild asserts that the queue it drains is not being flushed). *)
Inductive act :=
| AReg (c p : comp)
| AUnreg (c : comp)
| AFire (x : comp) (i : nat).

Definition run_act (n : nat) (r : comp) (a : act) (s : st) : res st :=
  match a with
  | AReg c p => if c =? r then PreViolated else register n c p s
  | AUnreg c => unregister n c s
  | AFire x i => fire n x i s
  end.

Fixpoint run_acts (n : nat) (r : comp) (l : list act) (s : st) : res st :=
  match l with
  | [] => Ok s
  | a :: t => match run_act n r a s with Ok s' => run_acts n r t s' | x => x end
  end.

(* one entry of a schedule: the event, and for the receivers whose handler did something the operations it
   performed (in the order of the receivers: handlers run by descending priority = ascending index) *)
Definition item := (ev * list (comp * list act))%type.

Fixpoint acts_of (x : comp) (hs : list (comp * list act)) : list act :=
  match hs with
  | [] => []
  | (y, l) :: t => if x =? y then l else acts_of x t
  end.

(* the handlers of the receivers ms run one after the other; ok: every receiver had r as its root when
   its handler ran *)
Fixpoint run_handlers (n : nat) (r : comp) (ms : list comp) (hs : list (comp * list act)) (ok : bool) (s : st)
  : res (st * bool) :=
  match ms with
  | [] => Ok (s, ok)
  | x :: t => match run_acts n r (acts_of x hs) s with
              | Ok s' => run_handlers n r t hs (ok && (rt s x =? r)) s'
              | PreViolated => PreViolated
              | BadSched => BadSched
              | OutOfFuel => OutOfFuel
              | Crash => Crash
              end
  end.

(* only events of the kinds probe / registered / unregistered have handlers that act, and only receivers act *)
Definition hs_ok (e : ev) (ms : list comp) (hs : list (comp * list act)) : bool :=
  forallb (fun h => existsb (Nat.eqb (fst h)) ms) hs &&
  match e with
  | Probe _ | Registered _ _ | Unregistered _ _ => true
  | _ => match hs with [] => true | _ => false end
  end.

(* _dispatcher for one event of the batch, dispatched by root r *)
Definition dispatch (n : nat) (r : comp) (it : item) (s : st) : res st :=
  let '(e, hs) := it in
  let '(s1, ms) := lookup n r e s in
  if hs_ok e ms hs then
    match run_handlers n r ms hs true s1 with
    | Ok (s1', ok) =>
        let s2 := set_disp s1' (mkd r e ms ok :: disp s1') in
        match e with
        | PrepUnreg c => Ok (enq (rt s2 r) (PrepDone c) s2)            (* _eventDone: complete event *)
        | PrepDone c => if existsb (Nat.eqb c) ms then complete n c s2 else Ok s2
        | _ => Ok s2
        end
    | PreViolated => PreViolated
    | BadSched => BadSched
    | OutOfFuel => OutOfFuel
    | Crash => Crash
    end
  else BadSched.

Fixpoint dispatch_all (n : nat) (r : comp) (sched : list item) (s : st) : res st :=
  match sched with
  | [] => Ok s
  | e :: t => match dispatch n r e s with
              | Ok s' => dispatch_all n r t s'
              | x => x
              end
  end.

Fixpoint remove1 (e : ev) (l : list ev) : option (list ev) :=
  match l with
  | [] => None
  | x :: t => if ev_eqb e x then Some t
              else match remove1 e t with Some t' => Some (x :: t') | None => None end
  end.

Fixpoint is_perm (sched batch : list ev) : bool :=
  match sched with
  | [] => match batch with [] => true | _ => false end
  | e :: t => match remove1 e batch with Some b => is_perm t b | None => false end
  end.

(* root._flush(): the batch is what is queued now; events fired meanwhile wait for the next flush *)
Definition flush (n : nat) (r : comp) (sched : list item) (s : st) : res st :=
  if is_perm (map fst sched) (q s r) then dispatch_all n r sched (set_q s (upd (q s) r [])) else BadSched.

(* tick(): no tasks, not running: if len(self._queue): self.flush()  (= self.root._flush()) *)
Definition tick1 (n : nat) (r : comp) (sched : list item) (s : st) : res st :=
  match q s r with
  | [] => match sched with [] => Ok s | _ => BadSched end
  | _ => flush n (rt s r) sched s
  end.

Fixpoint ticks (n : nat) (r : comp) (scheds : list (list item)) (s : st) : res st :=
  match scheds with
  | [] => Ok s
  | sc :: t => match tick1 n r sc s with Ok s' => ticks n r t s' | x => x end
  end.

Inductive op :=
| OReg (c p : comp)
| OUnreg (c : comp)
| OFire (x : comp) (i : nat)
| OTick (r : comp) (scheds : list (list item))
| OFlush (x : comp) (sched : list item).

Definition step (n : nat) (o : op) (s : st) : res st :=
  match o with
  | OReg c p => register n c p s
  | OUnreg c => unregister n c s
  | OFire x i => fire n x i s
  | OTick r scheds => if (r <? n) && (par s r =? r) then ticks n r scheds s else PreViolated
  | OFlush x sched => if x <? n then flush n (rt s x) sched s else PreViolated
  end.

Fixpoint run (n : nat) (h : list op) (s : st) : res st :=
  match h with
  | [] => Ok s
  | o :: t => match step n o s with Ok s' => run n t s' | x => x end
  end.
