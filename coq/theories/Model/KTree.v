(* KTree: executable model of the component-tree layer of circuits
     circuits/core/components.py : register, unregister, _do_prepare_unregister_complete, _updateRoot
     circuits/core/manager.py    : registerChild, unregisterChild, fireEvent (queue of the root),
                                   _EventQueue.drainFrom, flush/tick, the handler cache and its dirty flag,
                                   _fire's linking of effects to the event being handled and _effectDone
                                   (completion of prepare_unregister)
   for a pool of components 0..n-1 that all carry one catch-all handler (priority 100 - index) and the
   built-in prepare_unregister_complete handler.  Single thread, nothing is running.
   The catch-all handler of a component may act while it handles a probe / registered / unregistered /
   prepare_unregister event: it performs register / unregister / fire operations (act), under the same
   preconditions as the operations of a history, evaluated when the handler runs.
   Two things are arguments of the model (the schedule): the order in which one flush dispatches its batch
   (heap order; only required to be a permutation of the batch) and, per dispatched event, what the handlers
   of its receivers did.  The theorems quantify over both.
   No proofs in this file. *)
From Coq Require Import List Arith Bool.
Import ListNotations.

Definition comp := nat.

Inductive ev :=
| Probe (i : nat)
| Registered (c p : comp)
| Unregistered (c p : comp)
| PrepUnreg (c : comp)            (* prepare_unregister(c), complete=True, complete_channels=(c,) *)
| PrepDone (c : comp)             (* prepare_unregister_complete on channel (c,) *)
| Other.                          (* anything else the implementation dispatched (never queued by the model) *)

Definition ev_eqb (a b : ev) : bool :=
  match a, b with
  | Probe i, Probe j => i =? j
  | Registered c p, Registered c' p' => (c =? c') && (p =? p')
  | Unregistered c p, Unregistered c' p' => (c =? c') && (p =? p')
  | PrepUnreg c, PrepUnreg c' => c =? c'
  | PrepDone c, PrepDone c' => c =? c'
  | Other, Other => true
  | _, _ => false
  end.

(* cache key = (event name, channels); every pool component has channel '*' *)
Inductive key := KProbe | KReg | KUnreg | KPrep | KDone (c : comp) | KOther.

Definition key_of (e : ev) : key :=
  match e with
  | Probe _ => KProbe | Registered _ _ => KReg | Unregistered _ _ => KUnreg
  | PrepUnreg _ => KPrep | PrepDone c => KDone c | Other => KOther
  end.

Definition key_eqb (a b : key) : bool :=
  match a, b with
  | KProbe, KProbe | KReg, KReg | KUnreg, KUnreg | KPrep, KPrep | KOther, KOther => true
  | KDone c, KDone d => c =? d
  | _, _ => false
  end.

(* one dispatch: the root that dispatched, the event, the components whose logging handler ran,
   and (ghost) whether every one of them had that root as its root at that moment *)
Record drec := mkd { d_root : comp; d_ev : ev; d_recv : list comp; d_ok : bool }.

(* Completion tracking (Event.cause / Event.effects), flattened.  Only prepare_unregister events ask for
   completion.  Every such event gets an id when it is fired.  An event fired by a handler while the flushing
   root handles an event that belongs to the closure of some prepare_unregister events (its tags) belongs to
   the same closures; out A = number of events of the closure of A that have not been dispatched yet.  The
   implementation keeps, per event, 1 + the number of its unfinished direct effects; both counts are zero at
   the same moments, and that is when prepare_unregister_complete is fired. *)
Record efx := mkfx {
  qt : comp -> list (list nat);             (* tags of the queued events, parallel to q *)
  nxt : nat;                                (* next id *)
  out : nat -> nat;                         (* undispatched members of a closure *)
  wl : list (nat * comp)                    (* dispatched prepare_unregister(c) events (id, c) that still wait *)
}.

Record st := mkst {
  par : comp -> comp;                       (* .parent *)
  rt : comp -> comp;                        (* .root *)
  kid : comp -> comp -> bool;               (* kid p c  <->  c in p.components *)
  pend : comp -> bool;                      (* _unregister_pending *)
  q : comp -> list ev;                      (* _queue, oldest first *)
  dirty : comp -> bool;                     (* _cache_needs_refresh *)
  cache : comp -> list (key * list comp);   (* _cache: key -> components whose handlers are listed *)
  (* ghost history, newest first *)
  regd : list (comp * comp);                (* completed registrations (c, p) *)
  unregd : list (comp * comp);              (* completed unregistrations (c, former parent) *)
  disp : list drec;                         (* every dispatch *)
  fx : efx                                  (* completion tracking of prepare_unregister events *)
}.

Definition upd {A} (f : comp -> A) (k : comp) (v : A) : comp -> A :=
  fun j => if j =? k then v else f j.
Definition upd2 (f : comp -> comp -> bool) (p c : comp) (v : bool) : comp -> comp -> bool :=
  fun a b => if (a =? p) && (b =? c) then v else f a b.

Definition set_par s f := mkst f (rt s) (kid s) (pend s) (q s) (dirty s) (cache s) (regd s) (unregd s) (disp s) (fx s).
Definition set_rt s f := mkst (par s) f (kid s) (pend s) (q s) (dirty s) (cache s) (regd s) (unregd s) (disp s) (fx s).
Definition set_kid s f := mkst (par s) (rt s) f (pend s) (q s) (dirty s) (cache s) (regd s) (unregd s) (disp s) (fx s).
Definition set_pend s f := mkst (par s) (rt s) (kid s) f (q s) (dirty s) (cache s) (regd s) (unregd s) (disp s) (fx s).
Definition set_q s f := mkst (par s) (rt s) (kid s) (pend s) f (dirty s) (cache s) (regd s) (unregd s) (disp s) (fx s).
Definition set_dirty s f := mkst (par s) (rt s) (kid s) (pend s) (q s) f (cache s) (regd s) (unregd s) (disp s) (fx s).
Definition set_cache s f := mkst (par s) (rt s) (kid s) (pend s) (q s) (dirty s) f (regd s) (unregd s) (disp s) (fx s).
Definition set_regd s l := mkst (par s) (rt s) (kid s) (pend s) (q s) (dirty s) (cache s) l (unregd s) (disp s) (fx s).
Definition set_unregd s l := mkst (par s) (rt s) (kid s) (pend s) (q s) (dirty s) (cache s) (regd s) l (disp s) (fx s).
Definition set_disp s l := mkst (par s) (rt s) (kid s) (pend s) (q s) (dirty s) (cache s) (regd s) (unregd s) l (fx s).

Definition set_fx s x := mkst (par s) (rt s) (kid s) (pend s) (q s) (dirty s) (cache s) (regd s) (unregd s) (disp s) x.

Definition init : st :=
  mkst (fun c => c) (fun c => c) (fun _ _ => false) (fun _ => false) (fun _ => [])
       (fun _ => false) (fun _ => []) [] [] [] (mkfx (fun _ => []) 0 (fun _ => 0) []).

Inductive res (A : Type) :=
| Ok (a : A)
| PreViolated      (* the op does not satisfy the property's preconditions in this state *)
| BadSched         (* the schedule is not a permutation of the batch *)
| OutOfFuel        (* recursion deeper than the pool: RecursionError in the implementation *)
| Crash.           (* delattr of a missing attribute / set.remove of a missing element *)
Arguments Ok {A} a.
Arguments PreViolated {A}.
Arguments BadSched {A}.
Arguments OutOfFuel {A}.
Arguments Crash {A}.

(* fireEvent: the event goes to the queue of the firing component's root *)
Definition enq (x : comp) (e : ev) (s : st) : st := set_q s (upd (q s) x (q s x ++ [e])).

(* _updateRoot(root): self.root = root; for c in self.components: c._updateRoot(root) *)
Fixpoint upd_root (n fuel : nat) (kd : comp -> comp -> bool) (r c : comp) (f : comp -> comp)
  : option (comp -> comp) :=
  match fuel with
  | O => None
  | S fu =>
      fold_left (fun acc k => match acc with
                              | None => None
                              | Some g => if kd c k then upd_root n fu kd r k g else Some g
                              end)
                (seq 0 n) (Some (upd f c r))
  end.

(* getHandlers recursion over .components: who is reached from c *)
Fixpoint reachb (n fuel : nat) (kd : comp -> comp -> bool) (c x : comp) : bool :=
  match fuel with
  | O => false
  | S fu => if x =? c then true
            else existsb (fun k => if kd c k then reachb n fu kd k x else false) (seq 0 n)
  end.

Definition members (n : nat) (kd : comp -> comp -> bool) (r : comp) : list comp :=
  filter (reachb n (S n) kd r) (seq 0 n).

Fixpoint find_key (k : key) (l : list (key * list comp)) : option (list comp) :=
  match l with
  | [] => None
  | (k', ms) :: t => if key_eqb k k' then Some ms else find_key k t
  end.

(* _dispatcher, first part: refresh the cache if dirty, then look the handlers up (or compute and store) *)
Definition lookup (n : nat) (r : comp) (e : ev) (s : st) : st * list comp :=
  let s1 := if dirty s r then set_dirty (set_cache s (upd (cache s) r [])) (upd (dirty s) r false) else s in
  match find_key (key_of e) (cache s1 r) with
  | Some ms => (s1, ms)
  | None => let ms := members n (kid s1) r in
            (set_cache s1 (upd (cache s1) r ((key_of e, ms) :: cache s1 r)), ms)
  end.

(* the members of the detached subtree of c, other than c, whose own unregistration is pending *)
Definition refire_list (n : nat) (c : comp) (s : st) : list comp :=
  let kd := if par s c =? c then kid s else upd2 (kid s) (par s c) c false in
  filter (fun d => negb (d =? c) && pend s d) (members n kd c).

(* their prepare_unregister is fired again, now into the queue of their new root c *)
Definition refire (l : list comp) (c : comp) (s : st) : st :=
  fold_left (fun s' d => enq c (PrepUnreg d) s') l s.

(* _do_prepare_unregister_complete (with the refresh of the own cache flag, /repo b76568c, and with
   fixes/C07_nested_unregister_completes.patch: a stale completion event is ignored, and the unregistration
   of pending members of the detached subtree is started again in the new tree) *)
Definition complete (n : nat) (c : comp) (s : st) : res st :=
  if negb (pend s c) then Ok s else
  let p := par s c in
  let s1 := enq (rt s c) (Unregistered c p) (set_pend s (upd (pend s) c false)) in
  let s2 := if p =? c then Ok s1
            else if negb (kid s1 p c) then Crash
            else Ok (set_par (set_dirty (set_kid s1 (upd2 (kid s1) p c false))
                                        (upd (dirty s1) (rt s1 p) true))
                             (upd (par s1) c c)) in
  match s2 with
  | Ok s3 =>
      match upd_root n (S n) (kid s3) c c (rt s3) with
      | None => OutOfFuel
      | Some f => Ok (refire (refire_list n c s) c
                        (set_unregd (set_dirty (set_rt s3 f) (upd (dirty s3) c true)) ((c, p) :: unregd s3)))
      end
  | r => r
  end.

(* register(c, p); precondition of the property: c detached and not pending, p outside c's subtree
   (for a detached c that subtree is the tree whose root is c) *)
Definition register (n : nat) (c p : comp) (s : st) : res st :=
  if (c <? n) && (p <? n) && (par s c =? c) && negb (pend s c) && negb (rt s p =? c) && negb (c =? p) then
    let R := rt s p in
    let s1 := set_rt (set_par s (upd (par s) c p)) (upd (rt s) c R) in
    (* registerChild *)
    let s2 := set_kid s1 (upd2 (kid s1) p c true) in
    let s3 := set_q s2 (upd (upd (q s2) R (q s2 R ++ q s2 c)) c []) in
    let s4 := set_dirty s3 (upd (dirty s3) R true) in
    match upd_root n (S n) (kid s4) R c (rt s4) with
    | None => OutOfFuel
    | Some f => let s5 := set_rt s4 f in
                Ok (set_regd (enq (rt s5 c) (Registered c p) s5) ((c, p) :: regd s5))
    end
  else PreViolated.

(* unregister(c) on an attached component; a no-op when already pending *)
Definition unregister (n : nat) (c : comp) (s : st) : res st :=
  if (c <? n) && negb (par s c =? c) then
    if pend s c then Ok s
    else Ok (enq (rt s c) (PrepUnreg c)
                 (set_dirty (set_pend s (upd (pend s) c true)) (upd (dirty s) (rt s c) true)))
  else PreViolated.

Definition fire (n : nat) (x : comp) (i : nat) (s : st) : res st :=
  if x <? n then Ok (enq (rt s x) (Probe i) s) else PreViolated.

(* ------------------------------------------------------------------ completion tracking (see efx) *)

(* context of a fire: the root whose flush is in progress and the closures of the event it is handling;
   None = nothing is being handled, or the event being handled has no cause *)
Definition ctx := option (comp * list nat).

(* _fire links the new event to the event being handled only on the root that is flushing *)
Definition inherited (c : ctx) (R : comp) : list nat :=
  match c with Some (r, tg) => if R =? r then tg else [] | None => [] end.

Definition bump (f : nat -> nat) (l : list nat) : nat -> nat :=
  fold_left (fun g A => upd g A (S (g A))) l f.

(* an event e is appended to the queue of root R *)
Definition emit_fx (c : ctx) (R : comp) (e : ev) (x : efx) : efx :=
  let inh := inherited c R in
  match e with
  | PrepUnreg _ => mkfx (upd (qt x) R (qt x R ++ [nxt x :: inh])) (S (nxt x))
                        (upd (bump (out x) inh) (nxt x) 1) (wl x)
  | _ => mkfx (upd (qt x) R (qt x R ++ [inh])) (nxt x) (bump (out x) inh) (wl x)
  end.

(* drainFrom *)
Definition drain_fx (R c : comp) (x : efx) : efx :=
  mkfx (upd (upd (qt x) R (qt x R ++ qt x c)) c []) (nxt x) (out x) (wl x).

Definition with_fx (r : res st) (x : efx) : res st :=
  match r with Ok s => Ok (set_fx s x) | e => e end.

Definition emitX (c : ctx) (R : comp) (e : ev) (s : st) : st := set_fx (enq R e s) (emit_fx c R e (fx s)).

Definition registerX (c0 : ctx) (n : nat) (c p : comp) (s : st) : res st :=
  with_fx (register n c p s) (emit_fx c0 (rt s p) (Registered c p) (drain_fx (rt s p) c (fx s))).

Definition unregisterX (c0 : ctx) (n : nat) (c : comp) (s : st) : res st :=
  with_fx (unregister n c s) (if pend s c then fx s else emit_fx c0 (rt s c) (PrepUnreg c) (fx s)).

Definition fireX (c0 : ctx) (n : nat) (x : comp) (i : nat) (s : st) : res st :=
  with_fx (fire n x i s) (emit_fx c0 (rt s x) (Probe i) (fx s)).

(* prepare_unregister_complete has no cause: the events its handler fires are not linked *)
Definition completeX (n : nat) (c : comp) (s : st) : res st :=
  with_fx (complete n c s)
          (if pend s c
           then fold_left (fun x d => emit_fx None c (PrepUnreg d) x) (refire_list n c s)
                          (emit_fx None (rt s c) (Unregistered c (par s c)) (fx s))
           else fx s).

Fixpoint wl_find (A : nat) (l : list (nat * comp)) : option comp :=
  match l with [] => None | (B, c) :: t => if A =? B then Some c else wl_find A t end.

Fixpoint wl_remove (A : nat) (l : list (nat * comp)) : list (nat * comp) :=
  match l with [] => [] | (B, c) :: t => if A =? B then t else (B, c) :: wl_remove A t end.

Definition dec (x : efx) (A : nat) : efx := mkfx (qt x) (nxt x) (upd (out x) A (out x A - 1)) (wl x).
Definition set_wl (x : efx) (l : list (nat * comp)) : efx := mkfx (qt x) (nxt x) (out x) l.

(* _effectDone: the dispatched event leaves the closures it belongs to; a closure that becomes empty fires
   the completion event of its prepare_unregister (by the dispatching root, nothing being handled) *)
Fixpoint finish_anc (r : comp) (tg : list nat) (s : st) : st :=
  match tg with
  | [] => s
  | A :: t =>
      let s1 := match wl_find A (wl (fx s)) with
                | None => s
                | Some c => let x := dec (fx s) A in
                            if out x A =? 0
                            then emitX None (rt s r) (PrepDone c) (set_fx s (set_wl x (wl_remove A (wl x))))
                            else set_fx s x
                end in
      finish_anc r t s1
  end.

Definition finish (r : comp) (e : ev) (tg : list nat) (s : st) : st :=
  match e with
  | PrepUnreg c =>
      match tg with
      | [] => emitX None (rt s r) (PrepDone c) s
      | B :: t => let x := dec (fx s) B in
                  let s1 := if out x B =? 0 then emitX None (rt s r) (PrepDone c) (set_fx s x)
                            else set_fx s (set_wl x ((B, c) :: wl x)) in
                  finish_anc r t s1
      end
  | _ => finish_anc r tg s
  end.

(* ------------------------------------------------------------------ handlers that act *)

(* what a handler may do while it handles an event: the same three operations, under the same
   preconditions, evaluated at the moment the handler runs.  The root whose flush is in progress cannot be
   registered elsewhere (registerChild asserts that the queue it drains is not being flushed). *)
Inductive act :=
| AReg (c p : comp)
| AUnreg (c : comp)
| AFire (x : comp) (i : nat).

Definition run_act (c0 : ctx) (n : nat) (r : comp) (a : act) (s : st) : res st :=
  match a with
  | AReg c p => if c =? r then PreViolated else registerX c0 n c p s
  | AUnreg c => unregisterX c0 n c s
  | AFire x i => fireX c0 n x i s
  end.

Fixpoint run_acts (c0 : ctx) (n : nat) (r : comp) (l : list act) (s : st) : res st :=
  match l with
  | [] => Ok s
  | a :: t => match run_act c0 n r a s with Ok s' => run_acts c0 n r t s' | x => x end
  end.

(* one entry of a schedule: the event, and for the receivers whose handler did something the operations it
   performed (in the order of the receivers: handlers run by descending priority = ascending index) *)
Definition item := (ev * list (comp * list act))%type.

Fixpoint acts_of (x : comp) (hs : list (comp * list act)) : list act :=
  match hs with
  | [] => []
  | (y, l) :: t => if x =? y then l else acts_of x t
  end.

(* the handlers of the receivers ms run one after the other; ok: every receiver had r as its root when
   its handler ran *)
Fixpoint run_handlers (c0 : ctx) (n : nat) (r : comp) (ms : list comp) (hs : list (comp * list act)) (ok : bool)
  (s : st) : res (st * bool) :=
  match ms with
  | [] => Ok (s, ok)
  | x :: t => match run_acts c0 n r (acts_of x hs) s with
              | Ok s' => run_handlers c0 n r t hs (ok && (rt s x =? r)) s'
              | PreViolated => PreViolated
              | BadSched => BadSched
              | OutOfFuel => OutOfFuel
              | Crash => Crash
              end
  end.

(* only handlers of probe / registered / unregistered / prepare_unregister events act, and only receivers *)
Definition hs_ok (e : ev) (ms : list comp) (hs : list (comp * list act)) : bool :=
  forallb (fun h => existsb (Nat.eqb (fst h)) ms) hs &&
  match e with
  | Probe _ | Registered _ _ | Unregistered _ _ | PrepUnreg _ => true
  | _ => match hs with [] => true | _ => false end
  end.

(* _dispatcher for one event of the batch (with the closures tg it belongs to), dispatched by root r *)
Definition dispatch (n : nat) (r : comp) (it : item * list nat) (s : st) : res st :=
  let '((e, hs), tg) := it in
  let '(s1, ms) := lookup n r e s in
  if hs_ok e ms hs then
    (* _fire links to the event being handled iff that event has a cause *)
    let c0 : ctx := match tg with [] => None | _ => Some (r, tg) end in
    match run_handlers c0 n r ms hs true s1 with
    | Ok (s1', ok) =>
        let s2 := set_disp s1' (mkd r e ms ok :: disp s1') in
        let r3 := match e with
                  | PrepDone c => if existsb (Nat.eqb c) ms then completeX n c s2 else Ok s2
                  | _ => Ok s2
                  end in
        match r3 with
        | Ok s3 => Ok (finish r e tg s3)
        | x => x
        end
    | PreViolated => PreViolated
    | BadSched => BadSched
    | OutOfFuel => OutOfFuel
    | Crash => Crash
    end
  else BadSched.

Fixpoint dispatch_all (n : nat) (r : comp) (sched : list (item * list nat)) (s : st) : res st :=
  match sched with
  | [] => Ok s
  | e :: t => match dispatch n r e s with
              | Ok s' => dispatch_all n r t s'
              | x => x
              end
  end.

Fixpoint remove1 (e : ev) (l : list ev) : option (list ev) :=
  match l with
  | [] => None
  | x :: t => if ev_eqb e x then Some t
              else match remove1 e t with Some t' => Some (x :: t') | None => None end
  end.

Fixpoint is_perm (sched batch : list ev) : bool :=
  match sched with
  | [] => match batch with [] => true | _ => false end
  | e :: t => match remove1 e batch with Some b => is_perm t b | None => false end
  end.

(* the tags of the first entry of the batch that is the event e, and the batch without that entry *)
Fixpoint take_tags (e : ev) (l : list ev) (tl : list (list nat)) : list nat * (list ev * list (list nat)) :=
  match l, tl with
  | x :: t, tg :: tl1 => if ev_eqb e x then (tg, (t, tl1))
                         else let '(g, (t', tl')) := take_tags e t tl1 in (g, (x :: t', tg :: tl'))
  | _, _ => ([], (l, tl))
  end.

Fixpoint attach (sched : list item) (bev : list ev) (btg : list (list nat)) : list (item * list nat) :=
  match sched with
  | [] => []
  | it :: t => let '(g, (bev', btg')) := take_tags (fst it) bev btg in (it, g) :: attach t bev' btg'
  end.

(* root._flush(): the batch is what is queued now; events fired meanwhile wait for the next flush *)
Definition flush (n : nat) (r : comp) (sched : list item) (s : st) : res st :=
  if is_perm (map fst sched) (q s r) then
    let x := fx s in
    dispatch_all n r (attach sched (q s r) (qt x r))
                 (set_fx (set_q s (upd (q s) r [])) (mkfx (upd (qt x) r []) (nxt x) (out x) (wl x)))
  else BadSched.

(* tick(): no tasks, not running: if len(self._queue): self.flush()  (= self.root._flush()) *)
Definition tick1 (n : nat) (r : comp) (sched : list item) (s : st) : res st :=
  match q s r with
  | [] => match sched with [] => Ok s | _ => BadSched end
  | _ => flush n (rt s r) sched s
  end.

Fixpoint ticks (n : nat) (r : comp) (scheds : list (list item)) (s : st) : res st :=
  match scheds with
  | [] => Ok s
  | sc :: t => match tick1 n r sc s with Ok s' => ticks n r t s' | x => x end
  end.

Inductive op :=
| OReg (c p : comp)
| OUnreg (c : comp)
| OFire (x : comp) (i : nat)
| OTick (r : comp) (scheds : list (list item))
| OFlush (x : comp) (sched : list item).

Definition step (n : nat) (o : op) (s : st) : res st :=
  match o with
  | OReg c p => registerX None n c p s
  | OUnreg c => unregisterX None n c s
  | OFire x i => fireX None n x i s
  | OTick r scheds => if (r <? n) && (par s r =? r) then ticks n r scheds s else PreViolated
  | OFlush x sched => if x <? n then flush n (rt s x) sched s else PreViolated
  end.

Fixpoint run (n : nat) (h : list op) (s : st) : res st :=
  match h with
  | [] => Ok s
  | o :: t => match step n o s with Ok s' => run n t s' | x => x end
  end.
