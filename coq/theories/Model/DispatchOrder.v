(* Executable model of the event queue and dispatcher of circuits/core/manager.py
   (C02): _EventQueue (FIFO deque + heap keyed by (priority, counter), the
   "decrement first" _flush_batch counter, re-entrant dispatchEvents) and the
   handler loop of Manager._dispatcher (handlers sorted by priority, descending,
   stable; break after the handler that left event.stopped set).

   The machine is small-step with an explicit control stack, so that handlers
   that fire events, stop their event and call flush() recursively to any depth
   are all ordinary programs.  Priorities are an arbitrary type K with a
   boolean comparison [leb]; heapq's array heap is abstracted to "a bag from
   which the minimum of the (priority, counter) keys is removed".
   No proofs in this file. *)
From Coq Require Import List Arith Bool ZArith.
Import ListNotations.

Section Dispatch.
Variable K : Type.
Variable leb : K -> K -> bool.          (* p <= q on priority values *)

(* what a generated handler / the main program does, in order *)
(* AGen = `return <generator object>`: ends the body of a handler (the rest of the body is dead code);
   the dispatcher registers the generator as a task (event.waitingHandlers += 1), which no observable
   of this property depends on, and then falls through to the same `if event.stopped: break` *)
(* how an event is fired: plainly; `e.cancel()` right after fire(e) (before any dispatch); `e.stop()` called
   from outside before the event is dispatched *)
Inductive mode := MNormal | MCancel | MPreStop.
(* ARaise fs = the handler raises (rest of its body is dead code); the dispatcher's `except BaseException`
   clause then fires, in this order, the reserved events fs = [<name>_failure (if event.failure);] exception,
   with default priority — queued fires like any other — and goes on with the same handler loop *)
(* an event is fired on a tuple of channels [chs] (fire(e, 'a', 'b')): channel ids are nat *)
Inductive act := AFire (name : nat) (k : K) (md : mode) (chs : list nat) | AFlush | AStop | AGen
               | ARaise (fs : list (nat * K * list nat)).
Record handler := { hid : nat; hprio : K; hbody : list act }.
Variable hs_of : nat -> nat -> list handler.   (* getHandlers(event, channel), in its iteration order, per event name and channel *)

(* queue entry (priority, counter, (event, channels)); the counter doubles as the event id *)
Record item := { ikey : K; ictr : nat; iname : nat; imode : mode; ichans : list nat }.

Definition eqk (a b : K) : bool := leb a b && leb b a.
(* Python tuple comparison (p1, c1, _) < (p2, c2, _) *)
Definition item_lt (a b : item) : bool :=
  if eqk (ikey a) (ikey b) then ictr a <? ictr b else negb (leb (ikey b) (ikey a)).

(* heappop: remove the minimum *)
Fixpoint pop_min (h : list item) : option (item * list item) :=
  match h with
  | [] => None
  | x :: r => match pop_min r with
              | None => Some (x, [])
              | Some (m, r') => if item_lt m x then Some (m, x :: r') else Some (x, r)
              end
  end.

(* sorted(handlers, key=priority, reverse=True): stable, descending *)
Fixpoint insert_desc (h : handler) (l : list handler) : list handler :=
  match l with
  | [] => [h]
  | x :: r => if leb (hprio x) (hprio h) then h :: x :: r else x :: insert_desc h r
  end.
Definition sort_desc (l : list handler) : list handler := fold_right insert_desc [] l.

Definition is_cancel (m : mode) : bool := match m with MCancel => true | _ => false end.
Definition is_pre (m : mode) : bool := match m with MPreStop => true | _ => false end.
(* the handlers the dispatcher will loop over for a popped entry: `if event.cancelled: return` comes before
   the handler lookup, so a cancelled event occupies its slot of the pass and gets the empty list *)
(* the handlers of an event delivered on several channels: the union over its channels, every handler once
   (a handler that matches several of the channels - a '*' handler, or '*' among the channels - runs once),
   sorted together by descending priority.  [handlers_raw] is the list without the de-duplication. *)
Fixpoint dedup (seen : list nat) (l : list handler) : list handler :=
  match l with
  | [] => []
  | h :: r => if existsb (Nat.eqb (hid h)) seen then dedup seen r else h :: dedup (hid h :: seen) r
  end.
Definition handlers_chain (x : item) : list handler := flat_map (hs_of (iname x)) (ichans x).
Definition handlers_raw (x : item) : list handler := sort_desc (handlers_chain x).
Definition handlers_for (x : item) : list handler :=
  if is_cancel (imode x) then [] else sort_desc (dedup [] (handlers_chain x)).

(* the order a pass has to dispatch a snapshot in, as a function: for each priority value in ascending order
   ([ks] lists the distinct priority values, ascending) the entries of that priority in queue order *)
Definition bucket (ks : list K) (l : list item) : list item :=
  flat_map (fun k => filter (fun x => eqk (ikey x) k) l) ks.

Inductive frame :=
| FBody (ctx : option (nat * nat)) (acts : list act)    (* main program (None) or handler body (event id, handler id) *)
| FLoop                                                   (* inside dispatchEvents, at the head of `while self._flush_batch > 0` *)
| FDisp (x : item) (rem : list handler) (chk : bool).     (* inside _dispatcher's for loop; chk: a handler just returned *)

Inductive tr :=
| TFire (x : item)            (* fire(): entry appended to the FIFO *)
| TSnap                       (* a pass begins: the FIFO is moved to the heap *)
| TDisp (x : item)            (* heappop + call of the dispatcher *)
| TInv (e h d : nat)          (* handler h invoked for event e at handler nesting depth d *)
| TStop (e h : nat)           (* event.stop() in handler h of event e *)
| TRet (e h : nat)            (* handler returns *)
| TGen (e h : nat)            (* ... and what it returns is a generator (registered as a task) *)
| TRaise (e h : nat)          (* handler h of event e raises *)
| TDone (e : nat)             (* the dispatcher's handler loop for e is over *)
| TFlushB | TFlushE.          (* flush() called / returns *)

Record state := {
  fifo : list item; heap : list item; counter : nat; batch : nat;
  stopped : list nat; stack : list frame; trace : list tr (* oldest first *); crashed : bool }.

Definition init (prog : list act) : state :=
  {| fifo := []; heap := []; counter := 0; batch := 0; stopped := [];
     stack := [FBody None prog]; trace := []; crashed := false |}.

Definition is_body (f : frame) : bool :=
  match f with FBody (Some _) _ => true | _ => false end.
Definition depth (k : list frame) : nat := length (filter is_body k).

Definition is_stopped (e : nat) (l : list nat) : bool := existsb (Nat.eqb e) l.

Definition upd (s : state) (k : list frame) (t : list tr) : state :=
  {| fifo := fifo s; heap := heap s; counter := counter s; batch := batch s;
     stopped := stopped s; stack := k; trace := trace s ++ t; crashed := crashed s |}.

Definition step (s : state) : option state :=
  match stack s with
  | [] => None
  | FBody ctx [] :: k =>
      Some (upd s k (match ctx with Some (e, h) => [TRet e h] | None => [] end))
  | FBody ctx (AFire n p md cs :: acts) :: k =>
      (* _EventQueue.append: counter += 1; queue.append((priority, counter, ...)) *)
      let x := {| ikey := p; ictr := counter s; iname := n; imode := md; ichans := cs |} in
      Some {| fifo := fifo s ++ [x]; heap := heap s; counter := S (counter s); batch := batch s;
              stopped := stopped s; stack := FBody ctx acts :: k; trace := trace s ++ [TFire x];
              crashed := crashed s |}
  | FBody ctx (AStop :: acts) :: k =>
      match ctx with
      | Some (e, h) =>
          Some {| fifo := fifo s; heap := heap s; counter := counter s; batch := batch s;
                  stopped := e :: stopped s; stack := FBody ctx acts :: k;
                  trace := trace s ++ [TStop e h]; crashed := crashed s |}
      | None => Some (upd s (FBody ctx acts :: k) [])
      end
  | FBody ctx (AGen :: acts) :: k =>
      match ctx with
      | Some (e, h) => Some (upd s (FBody ctx [] :: k) [TGen e h])   (* return: the remaining actions never run *)
      | None => Some (upd s (FBody ctx acts :: k) [])                 (* not generated for the main program *)
      end
  | FBody ctx (ARaise fs :: acts) :: k =>
      match ctx with
      | Some (e, h) => Some (upd s (FBody ctx (map (fun f => AFire (fst (fst f)) (snd (fst f)) MNormal (snd f)) fs) :: k) [TRaise e h])
      | None => Some (upd s (FBody ctx acts :: k) [])                 (* not generated for the main program *)
      end
  | FBody ctx (AFlush :: acts) :: k =>
      (* dispatchEvents: if _flush_batch == 0: snapshot len(queue), move to the heap *)
      if batch s =? 0 then
        Some {| fifo := []; heap := heap s ++ fifo s; counter := counter s; batch := length (fifo s);
                stopped := stopped s; stack := FLoop :: FBody ctx acts :: k;
                trace := trace s ++ [TFlushB; TSnap]; crashed := crashed s |}
      else Some (upd s (FLoop :: FBody ctx acts :: k) [TFlushB])
  | FLoop :: k =>
      if batch s =? 0 then Some (upd s k [TFlushE])
      else (* decrement first, then heappop, then dispatcher(...) *)
        match pop_min (heap s) with
        | None => (* IndexError: pop from an empty heap *)
            Some {| fifo := fifo s; heap := heap s; counter := counter s; batch := pred (batch s);
                    stopped := stopped s; stack := []; trace := trace s; crashed := true |}
        | Some (m, h') =>
            Some {| fifo := fifo s; heap := h'; counter := counter s; batch := pred (batch s);
                    stopped := stopped s;
                    stack := FDisp m (handlers_for m) false :: FLoop :: k;
                    trace := trace s ++ [TDisp m]; crashed := crashed s |}
        end
  | FDisp x rem chk :: k =>
      (* `if event.stopped: break` is looked at after a handler returned, never before the first one *)
      if chk && (is_stopped (ictr x) (stopped s) || is_pre (imode x)) then Some (upd s k [TDone (ictr x)])
      else match rem with
           | [] => Some (upd s k [TDone (ictr x)])
           | h :: rem' =>
               Some (upd s (FBody (Some (ictr x, hid h)) (hbody h) :: FDisp x rem' true :: k)
                           [TInv (ictr x) (hid h) (S (depth k))])
           end
  end.

Fixpoint run (fuel : nat) (s : state) : state :=
  match fuel with
  | O => s
  | S f => match step s with None => s | Some s' => run f s' end
  end.

(* ---- trace functions the theorems speak about *)
Definition fires (t : list tr) : list item :=
  flat_map (fun e => match e with TFire x => [x] | _ => [] end) t.
Definition disps (t : list tr) : list item :=
  flat_map (fun e => match e with TDisp x => [x] | _ => [] end) t.
Definition invs (e : nat) (t : list tr) : list nat :=
  flat_map (fun a => match a with TInv e' h _ => if e' =? e then [h] else [] | _ => [] end) t.
Definition is_snap (e : tr) : bool := match e with TSnap => true | _ => false end.
(* the entries fired since the last snapshot: what the next pass will take *)
Fixpoint pf_from (acc : list item) (t : list tr) : list item :=
  match t with
  | [] => acc
  | TFire x :: r => pf_from (acc ++ [x]) r
  | TSnap :: r => pf_from [] r
  | _ :: r => pf_from acc r
  end.
Definition pending_fires (t : list tr) : list item := pf_from [] t.

End Dispatch.

Arguments AFire {K}. Arguments AFlush {K}. Arguments AStop {K}. Arguments AGen {K}. Arguments ARaise {K}.
Arguments Build_handler {K}. Arguments hid {K}. Arguments hprio {K}. Arguments hbody {K}.
Arguments Build_item {K}. Arguments ikey {K}. Arguments ictr {K}. Arguments iname {K}. Arguments imode {K}. Arguments ichans {K}.
Arguments FBody {K}. Arguments FLoop {K}. Arguments FDisp {K}.
Arguments TFire {K}. Arguments TSnap {K}. Arguments TDisp {K}. Arguments TInv {K}. Arguments TStop {K}.
Arguments TRet {K}. Arguments TGen {K}. Arguments TRaise {K}. Arguments TDone {K}. Arguments TFlushB {K}. Arguments TFlushE {K}.
Arguments fifo {K}. Arguments heap {K}. Arguments counter {K}. Arguments batch {K}. Arguments stopped {K}.
Arguments stack {K}. Arguments trace {K}. Arguments crashed {K}.
Arguments init {K}. Arguments fires {K}. Arguments disps {K}. Arguments invs {K}. Arguments pending_fires {K}.
Arguments pf_from {K}. Arguments bucket {K}. Arguments is_snap {K}. Arguments depth {K}. Arguments is_body {K}.

(* ---- instance used to run the model: priorities are integers (the harness maps
   the Python numbers order-preservingly, p -> 2p) *)
Definition handlerZ := handler Z.
(* handler definitions per event name, and per (name, channel) the handler ids in getHandlers order *)
Fixpoint lookup_defs (tbl : list (nat * list handlerZ)) (n : nat) : list handlerZ :=
  match tbl with
  | [] => []
  | (m, l) :: r => if Nat.eqb m n then l else lookup_defs r n
  end.
Fixpoint lookup_ord (ord : list (nat * nat * list nat)) (n c : nat) : list nat :=
  match ord with
  | [] => []
  | (m, d, l) :: r => if Nat.eqb m n && Nat.eqb d c then l else lookup_ord r n c
  end.
Definition pick (defs : list handlerZ) (i : nat) : list handlerZ :=
  match find (fun h => Nat.eqb (hid h) i) defs with Some h => [h] | None => [] end.
Definition hs_tbl (tbl : list (nat * list handlerZ)) (ord : list (nat * nat * list nat)) (n c : nat) : list handlerZ :=
  flat_map (pick (lookup_defs tbl n)) (lookup_ord ord n c).
Definition runZ (tbl : list (nat * list handlerZ)) (ord : list (nat * nat * list nat)) (fuel : nat)
                (prog : list (act Z)) : state Z :=
  run Z Z.leb (hs_tbl tbl ord) fuel (init prog).
