(* Encoders of the StreamWrite model's behaviour into Lib/Obs.T for the correspondence check (harness/c11.py).
   One record per operation: what the OS boundary and the event bus saw during that operation, and the
   endpoint's state after it.  Byte strings are run-length encoded so that multi-megabyte payloads stay small. *)
From Coq Require Import List ZArith NArith Bool.
From Circ Require Import Lib.Obs Model.StreamWrite.
Import ListNotations.

(* per-operation trace of [run] *)
Fixpoint trace (p : policy) (st : state) (ops : list op) : list (list ev * state) :=
  match ops with
  | [] => []
  | o :: r => let '(st1, e1) := step p st o in (e1, st1) :: trace p st1 r
  end.

(* payload literal: runs, each packed as 256 * count + byte (keeps the generated case files small) *)
Definition pl (runs : list N) : list N :=
  flat_map (fun r => repeat (N.modulo r 256) (N.to_nat (N.div r 256))) runs.

Fixpoint rle_go (cur cnt : N) (l : list N) : list (N * N) :=
  match l with
  | [] => [(cur, cnt)]
  | x :: r => if N.eqb x cur then rle_go cur (N.succ cnt) r else (cur, cnt) :: rle_go x 1%N r
  end.
Definition rle (l : list N) : list (N * N) :=
  match l with [] => [] | x :: r => rle_go x 1%N r end.

(* the OS accepts whatever it is offered (the harness' accept-all outcome is k = 10^9) *)
Definition full : op := Tick (Accept 1000000000%N).

Definition enc_rle (l : list N) : T := Tlist (fun r => TN (256 * snd r + fst r)) (rle l).

Definition enc_send (e : ev) : list T :=
  match e with
  | Send d n => [Tpair (enc_rle d) (Tnat n)]
  | SendErr d x => [Tpair (enc_rle d) (Tn (- Z.of_N x))]
  | _ => []
  end.

Definition is_sockclose (e : ev) := match e with SockClose => true | _ => false end.
Definition is_error (e : ev) := match e with EvError => true | _ => false end.
Definition is_disc (e : ev) := match e with EvDisc => true | _ => false end.

Definition bit (b : bool) (w : Z) : Z := if b then w else 0%Z.

(* one record: [sends; flags; buffered bytes]
   flags = 32*closereq + 16*descriptor closed in this op + 8*error event + 4*disconnect event
           + 2*closed afterwards + writer interest afterwards (+ 64 if the model met a transition it does not
           transcribe: never equal to an implementation record);
   closereq and the number of buffered bytes are internal (read from _closeflag/_closeq and
   _buffer/_buffers): compared only when the harness could read them ([withint]) *)
Definition tables (st : state) : ostate := match st with Open s => s | Closed s => s end.
Definition is_unmodelled (e : ev) := match e with Unmodelled => true | _ => false end.

Definition enc_rec (withint : bool) (r : list ev * state) : T :=
  let '(evs, st) := r in
  let s := tables st in
  let cr := withint && closereq s in
  let nb := if withint then length (concat (buf s)) else 0%nat in
  Tl [ Tl (flat_map enc_send evs);
       Tn (bit (existsb is_unmodelled evs) 64 + bit cr 32 + bit (existsb is_sockclose evs) 16
           + bit (existsb is_error evs) 8 + bit (existsb is_disc evs) 4
           + bit (match st with Closed _ => true | Open _ => false end) 2
           + bit (writing s) 1)%Z;
       Tnat nb ].

Definition obs_run (k : kind) (withint : bool) (ops : list op) : T :=
  Tlist (enc_rec withint) (trace (fixed k) init ops).

(* ---- Server with its tables: per-operation records of the connections the operation addresses *)
Fixpoint mtrace (socks : list nat) (m : srv) (ops : list mop) : list (nat * (list ev * state)) :=
  match ops with
  | [] => []
  | o :: r =>
      let '(m1, e1) := mstep m o in
      let who := match o with On t _ => [t] | CloseAll => socks end in
      map (fun t => (t, (projev t e1, view m1 t))) who ++ mtrace socks m1 r
  end.

Definition obs_mrun (withint : bool) (socks : list nat) (ops : list mop) : T :=
  let tr := mtrace socks (fresh socks) ops in
  Tlist (fun s => Tlist (fun r => enc_rec withint (snd r))
                        (filter (fun r => Nat.eqb (fst r) s) tr)) socks.
