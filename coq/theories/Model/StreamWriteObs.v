(* Encoders of the StreamWrite model's behaviour into Lib/Obs.T for the correspondence check (harness/c11.py).
   One record per operation: what the OS boundary and the event bus saw during that operation, and the
   endpoint's state after it.  Byte strings are run-length encoded so that multi-megabyte payloads stay small. *)
From Coq Require Import List ZArith NArith Bool.
From Circ Require Import Lib.Obs Model.StreamWrite.
Import ListNotations.

(* per-operation trace of [run] *)
Fixpoint trace (p : policy) (st : state) (ops : list op) : list (list ev * state) :=
  match ops with
  | [] => []
  | o :: r => let '(st1, e1) := step p st o in (e1, st1) :: trace p st1 r
  end.

(* payload literal: runs, each packed as 256 * count + byte (keeps the generated case files small) *)
Definition pl (runs : list N) : list N :=
  flat_map (fun r => repeat (N.modulo r 256) (N.to_nat (N.div r 256))) runs.

Fixpoint rle_go (cur cnt : N) (l : list N) : list (N * N) :=
  match l with
  | [] => [(cur, cnt)]
  | x :: r => if N.eqb x cur then rle_go cur (N.succ cnt) r else (cur, cnt) :: rle_go x 1%N r
  end.
Definition rle (l : list N) : list (N * N) :=
  match l with [] => [] | x :: r => rle_go x 1%N r end.

(* the OS accepts whatever it is offered (the harness' accept-all outcome is k = 10^9) *)
Definition full : op := Tick (Accept 1000000000%N).

Definition enc_rle (l : list N) : T := Tlist (fun r => TN (256 * snd r + fst r)) (rle l).

Definition enc_send (e : ev) : list T :=
  match e with
  | Send d n => [Tpair (enc_rle d) (Tnat n)]
  | SendErr d x => [Tpair (enc_rle d) (Tn (- Z.of_N x))]
  | _ => []
  end.

Definition is_sockclose (e : ev) := match e with SockClose => true | _ => false end.
Definition is_error (e : ev) := match e with EvError => true | _ => false end.
Definition is_disc (e : ev) := match e with EvDisc => true | _ => false end.

Definition bit (b : bool) (w : Z) : Z := if b then w else 0%Z.

(* one record: [sends; flags; buffered bytes]
   flags = 32*closereq + 16*descriptor closed in this op + 8*error event + 4*disconnect event
           + 2*closed afterwards + writer interest afterwards;
   closereq and the number of buffered bytes are internal (read from _closeflag/_closeq and
   _buffer/_buffers): compared only when the harness could read them ([withint]) *)
Definition enc_rec (withint : bool) (r : list ev * state) : T :=
  let '(evs, st) := r in
  let cr := match st with Closed => false | Open s => withint && closereq s end in
  let nb := match st with Closed => 0%nat | Open s => if withint then length (concat (buf s)) else 0%nat end in
  Tl [ Tl (flat_map enc_send evs);
       Tn (bit cr 32 + bit (existsb is_sockclose evs) 16 + bit (existsb is_error evs) 8
           + bit (existsb is_disc evs) 4
           + bit (match st with Closed => true | Open _ => false end) 2
           + bit (match st with Closed => false | Open s => writing s end) 1)%Z;
       Tnat nb ].

Definition obs_run (k : kind) (withint : bool) (ops : list op) : T :=
  Tlist (enc_rec withint) (trace (fixed k) init ops).
