(* Encoders of the StreamWrite model's behaviour into Lib/Obs.T for the correspondence check (harness/c11.py).
   One record per operation: what the OS boundary and the event bus saw during that operation, and the
   endpoint's state after it.  Byte strings are run-length encoded so that multi-megabyte payloads stay small. *)
From Coq Require Import List ZArith NArith Bool.
From Circ Require Import Lib.Obs Model.StreamWrite.
Import ListNotations.

(* per-operation trace of [run] *)
Fixpoint trace (p : policy) (st : state) (ops : list op) : list (list ev * state) :=
  match ops with
  | [] => []
  | o :: r => let '(st1, e1) := step p st o in (e1, st1) :: trace p st1 r
  end.

(* payload literal: runs (byte, count) *)
Definition pl (runs : list (N * N)) : list N :=
  flat_map (fun r => repeat (fst r) (N.to_nat (snd r))) runs.

Fixpoint rle_go (cur cnt : N) (l : list N) : list (N * N) :=
  match l with
  | [] => [(cur, cnt)]
  | x :: r => if N.eqb x cur then rle_go cur (N.succ cnt) r else (cur, cnt) :: rle_go x 1%N r
  end.
Definition rle (l : list N) : list (N * N) :=
  match l with [] => [] | x :: r => rle_go x 1%N r end.

Definition enc_rle (l : list N) : T := Tlist (fun r => Tpair (TN (fst r)) (TN (snd r))) (rle l).

Definition enc_send (e : ev) : list T :=
  match e with
  | Send d n => [Tpair (enc_rle d) (Tnat n)]
  | SendErr d x => [Tpair (enc_rle d) (Tn (- Z.of_N x))]
  | _ => []
  end.

Definition is_sockclose (e : ev) := match e with SockClose => true | _ => false end.
Definition is_error (e : ev) := match e with EvError => true | _ => false end.
Definition is_disc (e : ev) := match e with EvDisc => true | _ => false end.

Definition enc_rec (withint : bool) (r : list ev * state) : T :=
  let '(evs, st) := r in
  Tl [ Tl (flat_map enc_send evs);
       Tbool (existsb is_sockclose evs); Tbool (existsb is_error evs); Tbool (existsb is_disc evs);
       Tbool (match st with Closed => true | Open _ => false end);
       Tbool (match st with Closed => false | Open s => writing s end);
       if withint then
         match st with
         | Closed => Tl [Tpair (Tl []) (Tbool false)]
         | Open s => Tl [Tpair (enc_rle (concat (buf s))) (Tbool (closereq s))]
         end
       else Tl [] ].

Definition obs_run (k : kind) (withint : bool) (ops : list op) : T :=
  Tlist (enc_rec withint) (trace (fixed k) init ops).
