(* Encoder of Model/WaitChannels.v runs into Lib/Obs.T for the correspondence on the multi-channel cases. *)
From Coq Require Import List ZArith Bool.
From Circ Require Import Lib.Obs Model.WaitChannels.
Import ListNotations.
Open Scope Z_scope.

(* ticks: the steps of each loop iteration after the wait was installed; mid: number of iterations after which the
   handler table is looked at for the first time.  Observable: how the waiter was resumed (0 not, 2 result,
   3 TimeoutError), in which pass over the tasks, the installed temporaries [#<name>, #<name>_done, tick] at [mid] and
   at the end, and the crash flag. *)
Definition obs_mc (cs : list chan) (obj : option nat) (tmo : Z) (ticks : list (list step)) (mid : nat) : T :=
  let run n := fold_left do_step (concat (firstn n ticks)) (init cs obj tmo) in
  let res s := Tl [Tnat (length (w_ev s)); Tnat (length (w_done s)); Tbool (w_tick s)] in
  let s := run (length ticks) in
  Tl [Tn (if Nat.eqb (w_resumed s) 1 then 2 else if Nat.eqb (w_thrown s) 1 then 3 else 0);
      Tnat (w_when s); res (run mid); res s; Tbool (w_crash s)].
