(* Executable model of circuits/web/tools.py (check_auth, basic_auth, digest_auth)
   and of the parts of circuits/web/_httpauth.py they reach (parseAuthorization,
   _parseBasicAuthorization, _parseDigestAuthorization, checkResponse,
   _checkBasicResponse, _checkDigestResponse, _computeDigestResponse, _A1, _A2).

   Strings are lists of code points (N).  Library calls are Section variables
   (oracles): base64 decoding, UTF-8 decoding, md5-hexdigest, urllib's
   parse_keqv_list (parse_http_list s).  [None] from an oracle = the call raises.
   Every Python exception on the modelled path is the explicit outcome [Crash].

   The model describes the code with fixes/C20_*.patch applied:
     - a Digest header whose parameters do not validate is refused
       (check_auth returns False, not a truthy httperror object);
     - a user name without entry in the table is refused before any response is
       computed (no str(None) password). *)
From Coq Require Import List NArith Bool.
Import ListNotations.
Open Scope N_scope.

Definition str := list N.

Fixpoint str_eqb (a b : str) : bool :=
  match a, b with
  | [], [] => true
  | x :: a', y :: b' => (x =? y) && str_eqb a' b'
  | _, _ => false
  end.

(* dict.get on a table given as association list *)
Fixpoint lookup {A} (k : str) (t : list (str * A)) : option A :=
  match t with
  | [] => None
  | (k', v) :: r => if str_eqb k k' then Some v else lookup k r
  end.

(* s.split(c, 1) when c occurs: (before, after) *)
Fixpoint split_at (c : N) (s : str) : option (str * str) :=
  match s with
  | [] => None
  | x :: t => if x =? c then Some ([], t)
              else match split_at c t with
                   | Some (a, b) => Some (x :: a, b)
                   | None => None
                   end
  end.

(* str.lower() on the ASCII range (the generator keeps scheme tokens inside
   code points whose lower() is this function; see notes/C20.md) *)
Definition lower1 (c : N) : N := if (65 <=? c) && (c <=? 90) then c + 32 else c.
Definition lower (s : str) : str := map lower1 s.

(* string constants *)
Definition s_basic : str := [98; 97; 115; 105; 99].
Definition s_digest : str := [100; 105; 103; 101; 115; 116].
Definition s_username : str := [117; 115; 101; 114; 110; 97; 109; 101].
Definition s_realm : str := [114; 101; 97; 108; 109].
Definition s_nonce : str := [110; 111; 110; 99; 101].
Definition s_uri : str := [117; 114; 105].
Definition s_response : str := [114; 101; 115; 112; 111; 110; 115; 101].
Definition s_qop : str := [113; 111; 112].
Definition s_cnonce : str := [99; 110; 111; 110; 99; 101].
Definition s_nc : str := [110; 99].
Definition s_algorithm : str := [97; 108; 103; 111; 114; 105; 116; 104; 109].
Definition s_auth_scheme : str := [97; 117; 116; 104; 95; 115; 99; 104; 101; 109; 101].
Definition s_MD5 : str := [77; 68; 53].
Definition s_MD5_sess : str := [77; 68; 53; 45; 115; 101; 115; 115].
Definition s_auth : str := [97; 117; 116; 104].
Definition s_auth_int : str := [97; 117; 116; 104; 45; 105; 110; 116].
Definition COLON : N := 58.
Definition SP : N := 32.

Definition params := list (str * str).
Definition has (k : str) (p : params) : bool :=
  match lookup k p with Some _ => true | None => false end.

(* dict.get of a {user: password} table *)
Definition table_of (t : list (str * str)) : str -> option str := fun u => lookup u t.

(* _parseDigestAuthorization after the dict has been built: true = accepted *)
Definition digest_valid (p : params) : bool :=
  has s_username p && has s_realm p && has s_nonce p && has s_uri p && has s_response p
  && negb (has s_qop p && negb (has s_cnonce p && has s_nc p))
  && negb ((has s_cnonce p || has s_nc p) && negb (has s_qop p)).

(* a1 ++ ":" ++ a2 ++ ":" ++ ... *)
Fixpoint colon_join (l : list str) : str :=
  match l with
  | [] => []
  | [x] => x
  | x :: r => x ++ COLON :: colon_join r
  end.

Inductive outcome :=
| Authd (user : str)       (* check_auth returned True, request.login = user *)
| Refused (marked : bool)  (* returned False; marked: request.login was set to False *)
| Crash.                   (* an exception left check_auth; request.login untouched *)

Section Auth.
  Variable b64 : str -> option (list N).       (* base64_decodebytes(s.encode('utf-8')) *)
  Variable utf8 : list N -> option str.        (* bytes.decode('utf-8') *)
  Variable md5 : str -> option str.            (* md5(s.encode('utf-8')).hexdigest() *)
  Variable keqv : str -> option params.        (* parse_keqv_list(parse_http_list(s)), as dict items *)
  (* the effective encrypt(password[, username]) of the Basic check; None = raises.
     The default encoder (md5 applied to a str) always raises TypeError. *)
  Variable enc : str -> str -> option str.

  (* _computeDigestResponse with A1=None; None = an exception
     (unknown algorithm, SHA1, auth-int, unknown qop, MD5-sess without cnonce) *)
  Definition digest_response (p : params) (password method : str) : option str :=
    let alg := match lookup s_algorithm p with Some a => a | None => s_MD5 end in
    let is_md5 := str_eqb alg s_MD5 in
    let is_sess := str_eqb alg s_MD5_sess in
    if negb (is_md5 || is_sess) then None      (* KeyError, or SHA1: sha1.new does not exist *)
    else
      let qop := lookup s_qop p in
      let qop' := match qop with Some q => q | None => s_auth end in
      if negb (str_eqb qop' s_auth) then None  (* auth-int: KeyError 'H'; other: NotImplementedError *)
      else
        match lookup s_uri p, lookup s_username p, lookup s_realm p, lookup s_nonce p with
        | Some uri, Some user, Some realm, Some nonce =>
          match md5 (colon_join [method; uri]) with
          | None => None
          | Some h_a2 =>
            let a1 :=
              if is_md5 then Some (colon_join [user; realm; password])
              else match md5 (colon_join [user; realm; password]), lookup s_cnonce p with
                   | Some h, Some cn => Some (colon_join [h; nonce; cn])
                   | _, _ => None
                   end in
            match a1 with
            | None => None
            | Some a1 =>
              match md5 a1 with
              | None => None
              | Some h_a1 =>
                let request :=
                  match qop with
                  | Some q =>
                      match lookup s_nc p, lookup s_cnonce p with
                      | Some nc, Some cn => Some (colon_join [nonce; nc; cn; q; h_a2])
                      | _, _ => None
                      end
                  | None => Some (colon_join [nonce; h_a2])
                  end in
                match request with
                | None => None
                | Some rq => md5 (colon_join [h_a1; rq])
                end
              end
            end
          end
        | _, _, _, _ => None
        end.

  (* what parseAuthorization returns *)
  Inductive parsed :=
  | PCrash                                  (* exception *)
  | PNone                                   (* digest parameters do not validate *)
  | PBasic (user password : str)
  | PDigest (p : params).

  Definition parse_authorization (cred : str) : parsed :=
    match split_at SP cred with
    | None => PCrash                                        (* ValueError: unpack *)
    | Some (scheme, rest) =>
      let scheme := lower scheme in
      if str_eqb scheme s_basic then
        match b64 rest with
        | None => PCrash
        | Some bytes =>
          match split_at COLON bytes with
          | None => PCrash                                  (* ValueError: unpack *)
          | Some (ub, pb) =>
            match utf8 ub, utf8 pb with
            | Some u, Some p => PBasic u p
            | _, _ => PCrash
            end
          end
        end
      else if str_eqb scheme s_digest then
        match keqv rest with
        | None => PCrash
        | Some p => if digest_valid p
                    then if has s_auth_scheme p then PCrash (* assert *) else PDigest p
                    else PNone
        end
      else PCrash                                           (* KeyError: unknown scheme *)
    end.

  (* check_auth; [hdr = None]: no Authorization header *)
  (* [users]: the configured table as the function user name -> entry.  A dict (or a callable
     returning a dict) is [table_of items]; a callable taking the user name and returning the
     (possibly pre-encrypted) password is any function; [None] = users.get(...) is None. *)
  Definition check_auth (hdr : option str) (method realm : str) (users : str -> option str) : outcome :=
    match hdr with
    | None => Refused false
    | Some cred =>
      match parse_authorization cred with
      | PCrash => Crash
      | PNone => Refused true
      | PBasic u p =>
        match users u with
        | None => Refused true
        | Some entry =>
          match enc p u with
          | None => Crash
          | Some e => if str_eqb e entry then Authd u else Refused true
          end
        end
      | PDigest ps =>
        match lookup s_username ps with
        | None => Crash   (* unreachable: digest_valid *)
        | Some u =>
          match users u with
          | None => Refused true
          | Some entry =>
            match lookup s_realm ps, lookup s_response ps with
            | Some r, Some resp =>
              if negb (str_eqb r realm) then Refused true
              else match digest_response ps entry method with
                   | None => Crash
                   | Some x => if str_eqb x resp then Authd u else Refused true
                   end
            | _, _ => Crash  (* unreachable: digest_valid *)
            end
          end
        end
      end
    end.

  (* basic_auth / digest_auth: the protected handler continues (result None) exactly
     when check_auth is truthy; otherwise a 401 with a challenge is returned.  *)
  Definition protected_served (o : outcome) : bool :=
    match o with Authd _ => true | _ => false end.
End Auth.

(* tools.basic_auth passes the caller's encrypt on; tools.digest_auth calls
   check_auth without encrypt, i.e. with the default encoder, which raises
   TypeError when applied to the str password of a Basic header. *)
Definition default_enc : str -> str -> option str := fun _ _ => None.
Definition basic_auth b64 utf8 md5 keqv enc := check_auth b64 utf8 md5 keqv enc.
Definition digest_auth b64 utf8 md5 keqv := check_auth b64 utf8 md5 keqv default_enc.
