From Coq Require Import List ZArith NArith Bool.
From Circ Require Import Lib.Obs Model.Auth Model.VHost.
Import ListNotations.
Open Scope N_scope.

Fixpoint join_of (t : list (str * str * str)) (a b : str) : str :=
  match t with
  | [] => []
  | (a', b', v) :: r => if str_eqb a a' && str_eqb b b' then v else join_of r a b
  end.

Definition obs_vhost (jt : list (str * str * str)) (domains : list (str * str))
    (tg : option (list (option str))) (remote : option str) (h x p : str) : T :=
  Tb (on_request (join_of jt) domains tg {| remote_ip := remote; host := h; xfh := x; path := p |}).
