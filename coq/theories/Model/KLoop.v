(* C08 — executable model of Manager.run / stop / tick / flush / _dispatcher / processTask
   (circuits/core/manager.py) for programs of scripted handlers.  Model only: no proofs here.

   What is modelled (code as it is after fixes/C08_1..3):
     run()        _running := True; _exit_code := None; _executing_thread := current; fire started;
                  while running or len(queue): tick();  3 fade-out ticks;  finally: tick();
                  while len(queue): flush();  _executing_thread := None;  raise SystemExit(_exit_code) if set
     stop(code)   not running -> return;  _running := False; _exit_code := code; fire stopped;
                  3 inline ticks iff no executing thread;  raise SystemExit(code) if code is not None
     tick()       step every task of a copy of the task set once (order = schedule input); fire
                  generate_events if running; flush if the queue is not empty
     flush()      _EventQueue.dispatchEvents: batch counter, "decrement first", one dispatcher call per entry
     _dispatcher  handlers in priority order; KeyboardInterrupt -> stop(); SystemExit(c) -> stop(c) with the
                  SystemExit of stop() suppressed; other exceptions -> fire exception; a generator result
                  becomes a task;  generate_events: wait decision (remaining / queue / running / tasks) and the
                  FallBackGenerator's idle wait, during which the second thread acts (script [ext])
     processTask  next(); StopIteration -> unregister; KeyboardInterrupt/SystemExit as above (the dead
                  generator stays registered until the next tick); other exceptions -> unregister, fire exception
   Not modelled: priorities (all events have priority 0, so the heap is FIFO), channels, values, call/wait,
   success/complete feedback (C02, C04-C06 own these). *)
From Coq Require Import List ZArith Bool Arith.
Import ListNotations.

Inductive evk := KStarted | KStopped | KGE | KExc | KUser (n : nat).

Definition evk_eqb (a b : evk) : bool :=
  match a, b with
  | KStarted, KStarted | KStopped, KStopped | KGE, KGE | KExc, KExc => true
  | KUser n, KUser m => Nat.eqb n m
  | _, _ => false
  end.

(* how a handler body / a generator step ends *)
Inductive res := RYield | RRet | RExit (c : option Z) | RKbd | RErr.
(* thr = true: the call is made by a second thread which the handler joins *)
(* AStopChild: stop(c) called on a registered CHILD component -- a manager of its own on which run() was never
   invoked -- from the loop's thread or (thr) a joined second thread *)
Inductive act := AFire (thr : bool) (n : nat) | AStop (thr : bool) (c : option Z)
               | AStopChild (thr : bool) (c : option Z).
Definition seg := (list act * res)%type.
Inductive body := BPlain (a : list act) (r : res) | BGen (segs : list seg).
Definition prog := evk -> list body.          (* handlers of an event, in priority order *)

(* what the second thread does while the loop idles in FallBackGenerator *)
(* where the second thread's stop(c) -- `_running = False; _exit_code = c; fire(stopped)`, then the inline ticks
   iff no executing thread, then raise -- is pre-empted until run() has returned in the loop's thread:
     PJoin   nowhere: it finishes stop() before the loop moves
     PEarly  after the two writes, BEFORE fire(stopped): only possible while the loop is not blocked, i.e. here
             in the timed idle wait (in the unbounded wait the loop cannot move before the fire wakes it, so the
             entry behaves like PJoin there)
     PLate   right after fire(stopped) has woken the loop *)
Inductive pmode := PJoin | PEarly | PLate.
Inductive xact := XNop | XFire (n : nat) | XStop (m : pmode) (c : option Z) | XStopChild (c : option Z).

Inductive tr :=
| TFire (k : evk)                    (* ghost: event appended to the queue *)
| TDisp (k : evk)                    (* the dispatcher is entered for the event *)
| TH (k : evk) (i : nat)             (* plain handler i of k is invoked *)
| TC (k : evk) (i g : nat)           (* generator handler i of k is called and creates generator g *)
| TG (g j : nat)                     (* generator g runs its step j *)
| TReq (c : option Z)                (* stop request: stop(c) called, SystemExit(c) or KeyboardInterrupt raised *)
| TT2 (c : Z)                        (* SystemExit(c) raised by stop(c) in the second thread *)
| TWait (inf : bool)                 (* FallBackGenerator waits (inf: without time limit) *)
| TTick
| TOut (c : option (option Z))       (* run()/top-level stop() returned (None) or raised SystemExit c (Some c) *)
| TLen (n : nat)                     (* len(manager) observed by the harness *)
| TLate                              (* the stopping second thread is pre-empted after fire(stopped) *)
| TEarly                             (* ... before fire(stopped) *)
| TChildStop (c : option Z).         (* stop(c) was called on a child component *)

Definition task := (nat * nat * list seg)%type.     (* generator id, next step index, remaining steps *)

Record st := mk {
  running : bool; executing : bool; xcode : option Z;
  fifo : list evk; heap : list evk; batch : nat;
  tasks : list task; nextg : nat;
  sched : list (list nat);             (* order in which the task set is iterated, one entry per tick *)
  ext : list xact;
  mid : list (option (option Z));     (* per generate_events fired by tick(): Some c = a second thread's complete
                                          stop(c) lands between tick()'s `if self._running` and that fire *)
  trace : list tr;
  pend : option (bool * option Z);     (* a pre-empted stopping second thread (true: before its fire(stopped),
                                          false: after it) and its code: the rest of its stop(code) runs once
                                          run() has returned *)
  bad : bool }.                        (* depth fuel exhausted / pop from an empty heap *)

Definition set_running v s := mk v (executing s) (xcode s) (fifo s) (heap s) (batch s) (tasks s) (nextg s) (sched s) (ext s) (mid s) (trace s) (pend s) (bad s).
Definition set_executing v s := mk (running s) v (xcode s) (fifo s) (heap s) (batch s) (tasks s) (nextg s) (sched s) (ext s) (mid s) (trace s) (pend s) (bad s).
Definition set_xcode v s := mk (running s) (executing s) v (fifo s) (heap s) (batch s) (tasks s) (nextg s) (sched s) (ext s) (mid s) (trace s) (pend s) (bad s).
Definition set_fifo v s := mk (running s) (executing s) (xcode s) v (heap s) (batch s) (tasks s) (nextg s) (sched s) (ext s) (mid s) (trace s) (pend s) (bad s).
Definition set_heap v s := mk (running s) (executing s) (xcode s) (fifo s) v (batch s) (tasks s) (nextg s) (sched s) (ext s) (mid s) (trace s) (pend s) (bad s).
Definition set_batch v s := mk (running s) (executing s) (xcode s) (fifo s) (heap s) v (tasks s) (nextg s) (sched s) (ext s) (mid s) (trace s) (pend s) (bad s).
Definition set_tasks v s := mk (running s) (executing s) (xcode s) (fifo s) (heap s) (batch s) v (nextg s) (sched s) (ext s) (mid s) (trace s) (pend s) (bad s).
Definition set_nextg v s := mk (running s) (executing s) (xcode s) (fifo s) (heap s) (batch s) (tasks s) v (sched s) (ext s) (mid s) (trace s) (pend s) (bad s).
Definition set_sched v s := mk (running s) (executing s) (xcode s) (fifo s) (heap s) (batch s) (tasks s) (nextg s) v (ext s) (mid s) (trace s) (pend s) (bad s).
Definition set_ext v s := mk (running s) (executing s) (xcode s) (fifo s) (heap s) (batch s) (tasks s) (nextg s) (sched s) v (mid s) (trace s) (pend s) (bad s).
Definition set_mid v s := mk (running s) (executing s) (xcode s) (fifo s) (heap s) (batch s) (tasks s) (nextg s) (sched s) (ext s) v (trace s) (pend s) (bad s).
Definition set_trace v s := mk (running s) (executing s) (xcode s) (fifo s) (heap s) (batch s) (tasks s) (nextg s) (sched s) (ext s) (mid s) v (pend s) (bad s).
Definition set_pend v s := mk (running s) (executing s) (xcode s) (fifo s) (heap s) (batch s) (tasks s) (nextg s) (sched s) (ext s) (mid s) (trace s) v (bad s).
Definition set_bad s := mk (running s) (executing s) (xcode s) (fifo s) (heap s) (batch s) (tasks s) (nextg s) (sched s) (ext s) (mid s) (trace s) (pend s) true.

Definition init (sc : list (list nat)) (xs : list xact) : st :=
  mk false false None [] [] 0 [] 0 sc xs [] [] None false.

(* a registered child component: a manager in the state in which __init__ leaves it *)
Definition never_run : st := init [] [].

Definition qlen (s : st) : nat := length (fifo s) + length (heap s).     (* len(self._queue) *)
Definition logt (x : tr) (s : st) : st := set_trace (trace s ++ [x]) s.
Definition fire (k : evk) (s : st) : st := logt (TFire k) (set_fifo (fifo s ++ [k]) s).

(* what escapes a handler body / a generator step *)
Inductive exn :=
| XStopped (c : Z)          (* SystemExit raised by an effective stop(c) called in the body *)
| XExit (c : option Z)      (* SystemExit(c) raised by the body itself *)
| XKbd | XErr.

Definition end_of (r : res) : option exn :=
  match r with RExit c => Some (XExit c) | RKbd => Some XKbd | RErr => Some XErr | _ => None end.

Definition gid_of (t : task) : nat := fst (fst t).
Fixpoint find_task (g : nat) (l : list task) : option task :=
  match l with [] => None | t :: r => if Nat.eqb (gid_of t) g then Some t else find_task g r end.
Definition remove_task (g : nat) (s : st) : st :=
  set_tasks (filter (fun t => negb (Nat.eqb (gid_of t) g)) (tasks s)) s.
Definition update_task (g j : nat) (sg : list seg) (s : st) : st :=
  set_tasks (map (fun t => if Nat.eqb (gid_of t) g then (g, j, sg) else t) (tasks s)) s.
Definition memb (g : nat) (l : list nat) : bool := existsb (Nat.eqb g) l.
(* iteration order of the copy of the task set: the recorded order first, anything it does not name after *)
Definition order (entry ids : list nat) : list nat :=
  nodup Nat.eq_dec (filter (fun g => memb g ids) entry) ++ filter (fun g => negb (memb g entry)) ids.

Definition is_some {A} (o : option A) : bool := match o with Some _ => true | None => false end.

Section Loop.
(* legacy_order = true: stop() as `_running = False; fire(stopped); _exit_code = code` (the code recorded AFTER
   the wake-up of the loop) -- only used to refute that order; the code has legacy_order = false *)
Variable legacy_order : bool.
(* ge_may_block_stopped = true: the dispatcher's wait decision for generate_events WITHOUT its `or not
   self._running` clause -- only used to show what that clause is for; the code has false *)
Variable ge_may_block_stopped : bool.
Variable P : prog.
Variable ticker : st -> st.          (* tick() one nesting level further down (stop's inline ticks) *)

(* Manager.stop; the bool says whether it raised SystemExit(code) *)
Definition stop (c : option Z) (s : st) : st * bool :=
  if negb (running s) then (s, false) else
  let s1 := fire KStopped (set_xcode c (set_running false s)) in
  let s2 := if executing s1 then s1 else ticker (ticker (ticker s1)) in
  (s2, is_some c).

Definition req_stop (c : option Z) (s : st) : st * bool := stop c (logt (TReq c) s).

Definition t2_raise (c : option Z) (raised : bool) (s : st) : st :=
  if raised then match c with Some z => logt (TT2 z) s | None => s end else s.

Definition exec_act (a : act) (s : st) : st * option exn :=
  match a with
  | AFire _ n => (fire (KUser n) s, None)
  | AStop false c =>
      let '(s', raised) := req_stop c s in
      (s', if raised then match c with Some z => Some (XStopped z) | None => None end else None)
  | AStop true c =>
      let '(s', raised) := req_stop c s in (t2_raise c raised s', None)
  | AStopChild thr c =>
      (* Manager.stop on the child's own state: it is not running, so (C08_idle_stop) nothing happens and nothing
         is raised; the root's loop state is not touched *)
      let '(_, raised) := stop c never_run in
      (logt (TChildStop c) s,
       if raised && negb thr then match c with Some z => Some (XStopped z) | None => None end else None)
  end.

Fixpoint exec_acts (l : list act) (s : st) : st * option exn :=
  match l with
  | [] => (s, None)
  | a :: r => let '(s1, e) := exec_act a s in
              match e with Some x => (s1, Some x) | None => exec_acts r s1 end
  end.

(* the except clauses of _dispatcher / processTask that end in stop() *)
Definition on_stop_exn (x : exn) (s : st) : st :=
  match x with
  | XStopped c => fst (stop (Some c) s)
  | XExit c => fst (req_stop c s)
  | XKbd => fst (req_stop None s)
  | XErr => s
  end.

Definition on_exn (x : exn) (s : st) : st :=
  match x with XErr => fire KExc s | _ => on_stop_exn x s end.

Definition run_handler (k : evk) (i : nat) (b : body) (s : st) : st :=
  match b with
  | BPlain acts r =>
      let '(s1, e) := exec_acts acts (logt (TH k i) s) in
      match e with
      | Some x => on_exn x s1
      | None => match end_of r with Some x => on_exn x s1 | None => s1 end
      end
  | BGen segs =>
      let g := nextg s in
      logt (TC k i g) (set_tasks (tasks s ++ [(g, 0, segs)]) (set_nextg (S g) s))
  end.

Fixpoint run_handlers (k : evk) (i : nat) (bs : list body) (s : st) : st :=
  match bs with [] => s | b :: r => run_handlers k (S i) r (run_handler k i b s) end.

(* one action of the second thread (timed: during the timed idle wait); the bool says whether it woke the loop *)
Definition do_xact (timed : bool) (x : xact) (s : st) : st * bool :=
  match x with
  | XNop => (s, false)
  | XFire n => (fire (KUser n) s, true)
  | XStopChild c => let '(_, _) := stop c never_run in (logt (TChildStop c) s, false)
  | XStop m c =>
      let w := running s in
      let joined := let '(s', raised) := req_stop c s in (t2_raise c raised s', w) in
      if running s && executing s then
        (* the second thread's stop(c), statement by statement, up to the point where it is pre-empted;
           the loop runs on; the rest is finish_late *)
        let s0 := set_running false (logt (TReq c) s) in
        match m with
        | PJoin => joined
        | PEarly =>
            if timed then
              let s1 := if legacy_order then s0 else set_xcode c s0 in
              (set_pend (Some (true, c)) (logt TEarly s1), w)
            else joined
        | PLate =>
            let s1 := if legacy_order then s0 else set_xcode c s0 in
            (set_pend (Some (false, c)) (logt TLate (fire KStopped s1)), w)
        end
      else joined
  end.

(* `while event.time_left < 0: self._continue.wait(10000)` *)
Fixpoint idle_wait (xs : list xact) (s : st) : st :=
  match xs with
  | [] => let s0 := logt (TWait true) (set_ext [] s) in
          if running s0 then fst (req_stop None s0) else set_bad s0
  | x :: r => let '(s', woke) := do_xact false x (logt (TWait true) (set_ext r s)) in
              if woke then s' else idle_wait r s'
  end.

Definition timed_wait (s : st) : st :=
  let s0 := logt (TWait false) s in
  match ext s0 with [] => s0 | x :: r => fst (do_xact true x (set_ext r s0)) end.

(* _dispatcher(event, channels, remaining) with remaining = batch (already decremented) *)
Definition dispatch (k : evk) (s : st) : st :=
  let s0 := logt (TDisp k) s in
  match k with
  | KGE =>
      if (0 <? batch s0) || (0 <? qlen s0) || (negb ge_may_block_stopped && negb (running s0)) then s0
      else match tasks s0 with
           | _ :: _ => timed_wait s0
           | [] => idle_wait (ext s0) s0
           end
  | _ => run_handlers k 0 (P k) s0
  end.

Fixpoint floop (n : nat) (s : st) : st :=
  match n with
  | O => if Nat.eqb (batch s) 0 then s else set_bad s
  | S n' =>
      match batch s with
      | O => s
      | S b => match heap s with
               | [] => set_bad s                       (* heappop from an empty heap *)
               | k :: h => floop n' (dispatch k (set_heap h (set_batch b s)))
               end
      end
  end.

Definition flush (s : st) : st :=
  let s1 := if Nat.eqb (batch s) 0
            then set_batch (length (fifo s)) (set_heap (heap s ++ fifo s) (set_fifo [] s))
            else s in
  floop (batch s1) s1.

Definition on_exn_task (g j : nat) (x : exn) (s : st) : st :=
  match x with
  | XErr => fire KExc (remove_task g s)
  | _ => on_stop_exn x (update_task g j [] s)     (* the generator is finished but still registered *)
  end.

Definition proc_task (t : task) (s : st) : st :=
  let '(g, j, sg) := t in
  match sg with
  | [] => remove_task g s                               (* StopIteration *)
  | (acts, r) :: rest =>
      let '(s1, e) := exec_acts acts (logt (TG g j) s) in
      match e with
      | Some x => on_exn_task g (S j) x s1
      | None => match r with
                | RYield => update_task g (S j) rest s1
                | RRet => remove_task g s1
                | RExit c => on_exn_task g (S j) (XExit c) s1
                | RKbd => on_exn_task g (S j) XKbd s1
                | RErr => on_exn_task g (S j) XErr s1
                end
      end
  end.

Definition proc_gid (g : nat) (s : st) : st :=
  match find_task g (tasks s) with None => s | Some t => proc_task t s end.

Fixpoint proc_gids (l : list nat) (s : st) : st :=
  match l with [] => s | g :: r => proc_gids r (proc_gid g s) end.

Definition tick (s : st) : st :=
  let s0 := logt TTick s in
  (* one schedule entry per tick: the order in which the copy of the task set is iterated *)
  let '(e, s0') := match sched s0 with [] => ([], s0) | e :: r => (e, set_sched r s0) end in
  let s1 := proc_gids (order e (map gid_of (tasks s0'))) s0' in
  let s2 := if running s1
            then (* `if self._running:` passed; a second thread's whole stop(c) may land here, before the fire *)
                 let '(m, s1') := match mid s1 with [] => (None, s1) | m :: r => (m, set_mid r s1) end in
                 let s1'' := match m with
                             | None => s1'
                             | Some c => let '(s', raised) := req_stop c s1' in t2_raise c raised s'
                             end in
                 fire KGE s1''
            else s1 in
  if 0 <? qlen s2 then flush s2 else s2.

End Loop.

(* tick with nesting depth d for stop()'s inline ticks *)
Fixpoint tickd (lg gb : bool) (P : prog) (d : nat) : st -> st :=
  match d with O => set_bad | S d' => tick lg gb P (tickd lg gb P d') end.

(* the rest of a pre-empted second-thread stop(c), executed after run() has returned: pre-empted before the fire:
   fire stopped now; (legacy order: record the code now;) no executing thread any more -> three inline ticks in
   the second thread; raise SystemExit *)
Definition finish_late (lg gb : bool) (P : prog) (d : nat) (s : st) : st :=
  match pend s with
  | None => s
  | Some (early, c) =>
      let s0 := set_pend None s in
      let s1 := if early then fire KStopped s0 else s0 in
      let s1' := if lg then set_xcode c s1 else s1 in
      let t := tickd lg gb P d in
      let s2 := if executing s1' then s1' else t (t (t s1')) in
      t2_raise c true s2
  end.

Fixpoint main_loop (lg gb : bool) (P : prog) (d fuel : nat) (s : st) : option st :=
  match fuel with
  | O => None
  | S f => if running s || (0 <? qlen s) then main_loop lg gb P d f (tickd lg gb P d s) else Some s
  end.

Fixpoint drain (lg gb : bool) (P : prog) (d fuel : nat) (s : st) : option st :=
  match fuel with
  | O => None
  | S f => if 0 <? qlen s then drain lg gb P d f (flush lg gb P (tickd lg gb P d) s) else Some s
  end.

(* Manager.run(); None = out of fuel (or bad) *)
Definition run (lg gb : bool) (P : prog) (d fuel : nat) (s : st) : option (st * option Z) :=
  let s1 := fire KStarted (set_executing true (set_xcode None (set_running true s))) in
  match main_loop lg gb P d fuel s1 with
  | None => None
  | Some s2 =>
      let t := tickd lg gb P d in
      match drain lg gb P d fuel (t (t (t (t s2)))) with
      | None => None
      | Some s4 => if bad s4 then None else
                   let s5 := set_executing false s4 in Some (s5, xcode s5)
      end
  end.

(* ---- the harness' top-level script (used by the correspondence only) *)
Inductive op :=
| ORun                          (* run() in the checking thread *)
| OStop (c : option Z)          (* stop(c) called by the checking thread outside run() *)
| OSetRunning                   (* the manual main loop: _running := True without run() *)
| OFire (n : nat)
| OFlush                        (* flush() until the queue is empty *)
| OLen.

Definition exec_op (lg gb : bool) (P : prog) (d fuel : nat) (o : op) (s : st) : option st :=
  match o with
  | ORun => match run lg gb P d fuel s with
            | None => None
            | Some (s', c) =>
                Some (finish_late lg gb P d (logt (TOut (match c with Some z => Some (Some z) | None => None end)) s'))
            end
  | OStop c => let '(s', raised) := req_stop (tickd lg gb P d) c s in
               Some (logt (TOut (if raised then Some c else None)) s')
  | OSetRunning => Some (set_running true s)
  | OFire n => Some (fire (KUser n) s)
  | OFlush => drain lg gb P d fuel s
  | OLen => Some (logt (TLen (qlen s)) s)
  end.

Fixpoint exec_ops (lg gb : bool) (P : prog) (d fuel : nat) (os : list op) (s : st) : option st :=
  match os with
  | [] => Some s
  | o :: r => match exec_op lg gb P d fuel o s with None => None | Some s' => exec_ops lg gb P d fuel r s' end
  end.

(* programs as association lists *)
Fixpoint prog_of (l : list (evk * list body)) (k : evk) : list body :=
  match l with [] => [] | (k', bs) :: r => if evk_eqb k' k then bs else prog_of r k end.
