(* C03 — the cross-thread wake-up protocol of circuits, as an interleaving transition system.

   One loop thread (id 0) runs Manager.tick() for ever; any number of firing threads (ids 1,2,...)
   call fire().  Every transition performs at most ONE access to shared memory or ONE
   synchronisation operation, at the granularity of one source line of
     manager.py  _fire / _EventQueue.append / dispatchEvents / _dispatcher / tick
     events.py   generate_events.reduce_time_left
     helpers.py  FallBackGenerator._on_generate_events / resume
     pollers.py  BasePoller._on_generate_events / resume / _generate_events / _read_ctrl
   A transition is named by (thread, label); [step] is a partial function: [None] = the
   thread cannot perform that action in that state (wrong program point, lock held by someone
   else, wait not signalled ...).  [accepts] replays a whole observed trace.
   Executable definitions only; the proofs are in Proofs/WakeP.v. *)
From Coq Require Import List Arith Bool.
Import ListNotations.

Inductive tl := Neg | Zero | Pos.                 (* sign of generate_events._time_left *)
Inductive hk := HNone | HPlain | HWake.           (* generate_events.handler: None / a handler whose
                                                     component has no resume() / the waiter (fallback
                                                     generator or poller), whose component has resume() *)
Inductive ev := EvG (g : nat) | EvF (t k : nat) | EvO (n : nat).
                                                  (* g-th generate_events / k-th event of firing thread t /
                                                     n-th other event fired by the loop thread itself *)
Inductive mode := Fallback | Poller.

Record grec := { gtl : tl; ghd : hk }.

(* program points inside generate_events.reduce_time_left (the NEXT thing the thread does) *)
Inductive rpc := RAcq | RTest | RWrite | RHd | RGet | RSig | RRel.

(* firing thread: position inside Manager._fire (foreign branch); [h] = local copy of _currently_handling
   when it is a generate_events *)
Inductive fpc :=
| FIdle | FRead | FCnt (h : option nat) | FApp (h : option nat)
| FRed (g : nat) (r : rpc) | FRel | FRet.

Record fth := { fp : fpc; fapp : nat; fret : nat }.   (* events appended / fire() calls returned *)

(* loop thread *)
Inductive lpc :=
| LIdle | LCnt                       (* between flushes; own-thread fire: counter line done *)
| LSnap | LMove (n : nat) | LBatch   (* dispatchEvents *)
| LOSet (e : ev) | LODisp (e : ev)   (* _dispatcher of a non-generate_events event *)
| LGAcq (g : nat) | LGSet (g : nat) | LGTest | LGRed (r : rpc) | LGRel   (* arming generate_events under the lock *)
| LH                                 (* handler loop: next handler *)
| LTimer (r : rpc)                   (* a plain handler calling event.reduce_time_left(positive) *)
| WAcq | WTest | WClear | WRel | WTestPos | WRdTl | WWaitT (x : tl) | WAfter (r : rpc)
| WTestNeg | WWaitU                  (* FallBackGenerator._on_generate_events *)
| PRead | PSel (x : tl) | PDrain     (* poller: read time_left, select/poll, drain control pipe *)
| LClr.                              (* _currently_handling = None *)

Inductive lbl :=
| ACount                      (* self._counter += 1 *)
| AAppG (t0 : tl) | AAppO | AAppF   (* deque.append of generate_events(initial time_left) / other / foreign *)
| ASnap | AMove | ACall (e : ev)    (* len(deque) snapshot; popleft+heappush; dispatcher(event, ...) *)
| ASetH | ADisp (e : ev) | AClr     (* _currently_handling = event; a user handler runs; = None *)
| AAcq | ARel                       (* RLock acquire / release *)
| AArmTest                          (* if remaining > 0 or len(self._queue) or not self._running *)
| ASetHd (k : hk)                   (* event.handler = event_handler *)
| ARdTl                            (* a read of generate_events._time_left (which test it feeds follows from the program point) *)
| ARWrite | ARHd | ARGet | ASig    (* reduce_time_left: write, handler tests, resume() signal *)
| AClear | AWait (woken : bool)
| ASelect (w ready : bool)            (* select/poll/epoll called: control descriptor in the watched set? readable? *)
| APreen                             (* the call failed on a stale descriptor; Select weeds out its descriptor lists *)
| APipeRd
| AFReadH | ARet.

Record state := {
  md : mode;
  pk : bool;                     (* configuration: the poller's maintenance (preen) keeps the control descriptor *)
  watched : bool;                (* the control descriptor is in the set the poller passes to select/poll/epoll *)
  dq : list (nat * ev);          (* _EventQueue._queue (deque), with the counter of each entry *)
  hp : list (nat * ev);          (* _EventQueue._priority_queue (all priorities equal: key = counter) *)
  ctr : nat; batch : nat;
  handling : option (option nat);(* _currently_handling: None | Some None (other event) | Some (Some g) *)
  gs : nat -> grec;              (* the generate_events objects *)
  ngen : nat; nother : nat; cur : nat;
  lock : option (nat * nat);     (* owner thread, depth - 1 *)
  flag : bool; pipe : nat;       (* FallBackGenerator._continue ; bytes in the poller control pipe *)
  lp : lpc; fts : nat -> fth;
  disp : list ev                 (* ghost: events handed to _dispatcher, in order *)
}.

Definition init_k (m : mode) (k : bool) : state :=
  {| md := m; pk := k; watched := true; dq := []; hp := []; ctr := 0; batch := 0; handling := None;
     gs := fun _ => {| gtl := Neg; ghd := HNone |}; ngen := 0; nother := 0; cur := 0;
     lock := None; flag := false; pipe := 0; lp := LIdle;
     fts := fun _ => {| fp := FIdle; fapp := 0; fret := 0 |}; disp := [] |}.

(* the code as it is: descriptor maintenance never drops the control descriptor *)
Definition init (m : mode) : state := init_k m true.

(* ---------------------------------------------------------------- field updates *)
Definition set_watched s v := {| md := md s; pk := pk s; watched := v; dq := dq s; hp := hp s; ctr := ctr s; batch := batch s; handling := handling s; gs := gs s; ngen := ngen s; nother := nother s; cur := cur s; lock := lock s; flag := flag s; pipe := pipe s; lp := lp s; fts := fts s; disp := disp s |}.
Definition set_dq s v := {| md := md s; pk := pk s; watched := watched s; dq := v; hp := hp s; ctr := ctr s; batch := batch s; handling := handling s; gs := gs s; ngen := ngen s; nother := nother s; cur := cur s; lock := lock s; flag := flag s; pipe := pipe s; lp := lp s; fts := fts s; disp := disp s |}.
Definition set_hp s v := {| md := md s; pk := pk s; watched := watched s; dq := dq s; hp := v; ctr := ctr s; batch := batch s; handling := handling s; gs := gs s; ngen := ngen s; nother := nother s; cur := cur s; lock := lock s; flag := flag s; pipe := pipe s; lp := lp s; fts := fts s; disp := disp s |}.
Definition set_ctr s v := {| md := md s; pk := pk s; watched := watched s; dq := dq s; hp := hp s; ctr := v; batch := batch s; handling := handling s; gs := gs s; ngen := ngen s; nother := nother s; cur := cur s; lock := lock s; flag := flag s; pipe := pipe s; lp := lp s; fts := fts s; disp := disp s |}.
Definition set_batch s v := {| md := md s; pk := pk s; watched := watched s; dq := dq s; hp := hp s; ctr := ctr s; batch := v; handling := handling s; gs := gs s; ngen := ngen s; nother := nother s; cur := cur s; lock := lock s; flag := flag s; pipe := pipe s; lp := lp s; fts := fts s; disp := disp s |}.
Definition set_handling s v := {| md := md s; pk := pk s; watched := watched s; dq := dq s; hp := hp s; ctr := ctr s; batch := batch s; handling := v; gs := gs s; ngen := ngen s; nother := nother s; cur := cur s; lock := lock s; flag := flag s; pipe := pipe s; lp := lp s; fts := fts s; disp := disp s |}.
Definition set_gs s v := {| md := md s; pk := pk s; watched := watched s; dq := dq s; hp := hp s; ctr := ctr s; batch := batch s; handling := handling s; gs := v; ngen := ngen s; nother := nother s; cur := cur s; lock := lock s; flag := flag s; pipe := pipe s; lp := lp s; fts := fts s; disp := disp s |}.
Definition set_ngen s v := {| md := md s; pk := pk s; watched := watched s; dq := dq s; hp := hp s; ctr := ctr s; batch := batch s; handling := handling s; gs := gs s; ngen := v; nother := nother s; cur := cur s; lock := lock s; flag := flag s; pipe := pipe s; lp := lp s; fts := fts s; disp := disp s |}.
Definition set_nother s v := {| md := md s; pk := pk s; watched := watched s; dq := dq s; hp := hp s; ctr := ctr s; batch := batch s; handling := handling s; gs := gs s; ngen := ngen s; nother := v; cur := cur s; lock := lock s; flag := flag s; pipe := pipe s; lp := lp s; fts := fts s; disp := disp s |}.
Definition set_cur s v := {| md := md s; pk := pk s; watched := watched s; dq := dq s; hp := hp s; ctr := ctr s; batch := batch s; handling := handling s; gs := gs s; ngen := ngen s; nother := nother s; cur := v; lock := lock s; flag := flag s; pipe := pipe s; lp := lp s; fts := fts s; disp := disp s |}.
Definition set_lock s v := {| md := md s; pk := pk s; watched := watched s; dq := dq s; hp := hp s; ctr := ctr s; batch := batch s; handling := handling s; gs := gs s; ngen := ngen s; nother := nother s; cur := cur s; lock := v; flag := flag s; pipe := pipe s; lp := lp s; fts := fts s; disp := disp s |}.
Definition set_flag s v := {| md := md s; pk := pk s; watched := watched s; dq := dq s; hp := hp s; ctr := ctr s; batch := batch s; handling := handling s; gs := gs s; ngen := ngen s; nother := nother s; cur := cur s; lock := lock s; flag := v; pipe := pipe s; lp := lp s; fts := fts s; disp := disp s |}.
Definition set_pipe s v := {| md := md s; pk := pk s; watched := watched s; dq := dq s; hp := hp s; ctr := ctr s; batch := batch s; handling := handling s; gs := gs s; ngen := ngen s; nother := nother s; cur := cur s; lock := lock s; flag := flag s; pipe := v; lp := lp s; fts := fts s; disp := disp s |}.
Definition set_lp s v := {| md := md s; pk := pk s; watched := watched s; dq := dq s; hp := hp s; ctr := ctr s; batch := batch s; handling := handling s; gs := gs s; ngen := ngen s; nother := nother s; cur := cur s; lock := lock s; flag := flag s; pipe := pipe s; lp := v; fts := fts s; disp := disp s |}.
Definition set_fts s v := {| md := md s; pk := pk s; watched := watched s; dq := dq s; hp := hp s; ctr := ctr s; batch := batch s; handling := handling s; gs := gs s; ngen := ngen s; nother := nother s; cur := cur s; lock := lock s; flag := flag s; pipe := pipe s; lp := lp s; fts := v; disp := disp s |}.
Definition set_disp s v := {| md := md s; pk := pk s; watched := watched s; dq := dq s; hp := hp s; ctr := ctr s; batch := batch s; handling := handling s; gs := gs s; ngen := ngen s; nother := nother s; cur := cur s; lock := lock s; flag := flag s; pipe := pipe s; lp := lp s; fts := fts s; disp := v |}.

Definition upd {A} (f : nat -> A) (i : nat) (v : A) : nat -> A := fun j => if Nat.eqb j i then v else f j.

Definition set_gtl s g v := set_gs s (upd (gs s) g {| gtl := v; ghd := ghd (gs s g) |}).
Definition set_ghd s g v := set_gs s (upd (gs s) g {| gtl := gtl (gs s g); ghd := v |}).
Definition set_fp s i p := set_fts s (upd (fts s) i {| fp := p; fapp := fapp (fts s i); fret := fret (fts s i) |}).

(* ---------------------------------------------------------------- primitives *)
Definition tl_eqb (a b : tl) : bool :=
  match a, b with Neg, Neg | Zero, Zero | Pos, Pos => true | _, _ => false end.

Definition ev_eqb (a b : ev) : bool :=
  match a, b with
  | EvG x, EvG y => Nat.eqb x y
  | EvF t k, EvF u j => Nat.eqb t u && Nat.eqb k j
  | EvO x, EvO y => Nat.eqb x y
  | _, _ => false
  end.

(* RLock: thread [me] acquires / releases *)
Definition acquire (me : nat) (s : state) : option state :=
  match lock s with
  | None => Some (set_lock s (Some (me, 0)))
  | Some (o, d) => if Nat.eqb o me then Some (set_lock s (Some (o, S d))) else None
  end.

Definition release (me : nat) (s : state) : option state :=
  match lock s with
  | Some (o, d) =>
      if Nat.eqb o me then
        Some (set_lock s (match d with O => None | S d' => Some (o, d') end))
      else None
  | None => None
  end.

(* the resume() of the waiter's component *)
Definition signal (s : state) : state :=
  set_pipe (set_flag s (match md s with Fallback => true | Poller => flag s end))
           (match md s with Fallback => pipe s | Poller => S (pipe s) end).

(* `time_left >= 0 and (self._time_left < 0 or self._time_left > time_left)` for time_left = x in {Zero, Pos} *)
Definition must_write (old x : tl) : bool :=
  match x, old with
  | Zero, Neg | Zero, Pos | Pos, Neg => true
  | _, _ => false
  end.

(* one step of reduce_time_left(x) on generate_events g by thread me at program point r.
   Result: new shared state and the next program point (None = the call has returned). *)
Definition red_step (me g : nat) (x : tl) (r : rpc) (a : lbl) (s : state) : option (state * option rpc) :=
  match r, a with
  | RAcq, AAcq => match acquire me s with Some s' => Some (s', Some RTest) | None => None end
  | RTest, ARdTl => Some (s, Some (if must_write (gtl (gs s g)) x then RWrite else RRel))
  | RWrite, ARWrite =>
      let s' := set_gtl s g x in
      Some (s', Some (match x with Zero => RHd | _ => RRel end))
  | RHd, ARHd => Some (s, Some (match ghd (gs s g) with HNone => RRel | _ => RGet end))
  | RGet, ARGet => Some (s, Some (match ghd (gs s g) with HWake => RSig | _ => RRel end))
  | RSig, ASig => Some (signal s, Some RRel)
  | RRel, ARel => match release me s with Some s' => Some (s', None) | None => None end
  | _, _ => None
  end.

(* remove the first entry carrying event e *)
Fixpoint remove_ev (e : ev) (l : list (nat * ev)) : option (nat * list (nat * ev)) :=
  match l with
  | [] => None
  | (k, e') :: r =>
      if ev_eqb e e' then Some (k, r)
      else match remove_ev e r with Some (k', r') => Some (k', (k, e') :: r') | None => None end
  end.

Definition after_event (s : state) : state :=
  set_lp s (match batch s with O => LIdle | _ => LBatch end).

Definition is_foreign (e : ev) : bool := match e with EvF _ _ => true | _ => false end.

(* ---------------------------------------------------------------- the loop thread *)
Definition lstep (a : lbl) (s : state) : option state :=
  match lp s, a with
  (* own-thread branch of _fire: plain append, no lock *)
  | LIdle, ACount => Some (set_lp (set_ctr s (S (ctr s))) LCnt)
  | LCnt, AAppO =>
      Some (set_lp (set_nother (set_dq s (dq s ++ [(ctr s, EvO (nother s))])) (S (nother s))) LIdle)
  | LCnt, AAppG t0 =>
      match t0 with
      | Zero => None
      | _ =>
        let g := ngen s in
        let s1 := set_dq s (dq s ++ [(ctr s, EvG g)]) in
        let s2 := set_gs s1 (upd (gs s1) g {| gtl := t0; ghd := HNone |}) in
        Some (set_lp (set_ngen s2 (S g)) LSnap)
      end
  (* dispatchEvents *)
  | LSnap, ASnap =>
      let n := length (dq s) in
      Some (set_lp (set_batch s n) (match n with O => LBatch | _ => LMove n end))
  | LMove (S n), AMove =>
      match dq s with
      | x :: r => Some (set_lp (set_hp (set_dq s r) (hp s ++ [x])) (match n with O => LBatch | _ => LMove n end))
      | [] => None
      end
  | LBatch, ACall e =>
      match batch s with
      | O => None
      | S b =>
          match remove_ev e (hp s) with
          | Some (k, r) =>
              if forallb (fun p => Nat.leb k (fst p)) r then
                let s1 := set_disp (set_batch (set_hp s r) b) (disp s ++ [e]) in
                Some (set_lp s1 (match e with EvG g => LGAcq g | _ => LOSet e end))
              else None
          | None => None
          end
      end
  (* _dispatcher, ordinary event *)
  | LOSet e, ASetH => Some (set_lp (set_handling s (Some None)) (LODisp e))
  | LODisp e, ADisp e' => if ev_eqb e e' then Some s else None
  | LODisp e, AClr => Some (after_event (set_handling s None))
  (* _dispatcher, generate_events: arm under the lock *)
  | LGAcq g, AAcq => match acquire 0 s with Some s' => Some (set_lp s' (LGSet g)) | None => None end
  | LGSet g, ASetH =>
      (* `remaining > 0 or len(self._queue) ...`: the queue length is read only when remaining = 0 *)
      Some (set_lp (set_cur (set_handling s (Some (Some g))) g) (if 0 <? batch s then LGRed RAcq else LGTest))
  | LGTest, AArmTest =>
      Some (set_lp s (if (0 <? batch s) || (0 <? length (dq s) + length (hp s)) then LGRed RAcq else LGRel))
  | LGRed r, _ =>
      match red_step 0 (cur s) Zero r a s with
      | Some (s', Some r') => Some (set_lp s' (LGRed r'))
      | Some (s', None) => Some (set_lp s' LGRel)
      | None => None
      end
  | LGRel, ARel => match release 0 s with Some s' => Some (set_lp s' LH) | None => None end
  (* handler loop *)
  | LH, ASetHd HPlain => Some (set_lp (set_ghd s (cur s) HPlain) (LTimer RAcq))
  | LH, ASetHd HWake =>
      Some (set_lp (set_ghd s (cur s) HWake) (match md s with Fallback => WAcq | Poller => PRead end))
  | LTimer r, _ =>
      match red_step 0 (cur s) Pos r a s with
      | Some (s', Some r') => Some (set_lp s' (LTimer r'))
      | Some (s', None) => Some (set_lp s' LH)
      | None => None
      end
  (* FallBackGenerator._on_generate_events *)
  | WAcq, AAcq => match acquire 0 s with Some s' => Some (set_lp s' WTest) | None => None end
  | WTest, ARdTl => Some (set_lp s WClear)
  | WClear, AClear => Some (set_lp (set_flag s false) WRel)
  | WRel, ARel => match release 0 s with Some s' => Some (set_lp s' WTestPos) | None => None end
  | WTestPos, ARdTl =>
      Some (set_lp s (match gtl (gs s (cur s)) with Pos => WRdTl | _ => WTestNeg end))
  | WRdTl, ARdTl => Some (set_lp s (WWaitT (gtl (gs s (cur s)))))
  | WWaitT x, AWait w =>
      (* Event.wait(x): returns True iff the flag is set; False = the timeout expired
         (x = 0, and the unreachable x < 0, expire at once; a positive one expiring is the Timeout transition) *)
      if Bool.eqb w (flag s) then Some (set_lp s (WAfter RAcq)) else None
  | WAfter r, _ =>
      match red_step 0 (cur s) Zero r a s with
      | Some (s', Some r') => Some (set_lp s' (WAfter r'))
      | Some (s', None) => Some (set_lp s' WTestNeg)
      | None => None
      end
  | WTestNeg, ARdTl =>
      Some (set_lp s (match gtl (gs s (cur s)) with Neg => WWaitU | _ => LClr end))
  | WWaitU, AWait w => if Bool.eqb w (flag s) then Some (set_lp s WTestNeg) else None
  (* poller *)
  | PRead, ARdTl => Some (set_lp s (PSel (gtl (gs s (cur s)))))
  | PSel x, ASelect w ready =>
      (* the waiter wakes iff the control descriptor is watched AND a byte is in the pipe *)
      if Bool.eqb w (watched s) && Bool.eqb ready (watched s && (0 <? pipe s)) then
        if ready then Some (set_lp s PDrain)
        else match x with
             | Neg => None                    (* select without timeout and nothing readable never returns *)
             | _ => Some (set_lp s LClr)
             end
      else None
  | PSel x, APreen => Some (set_lp (set_watched s (watched s && pk s)) LClr)
  | PDrain, APipeRd => Some (set_lp (set_pipe s (pred (pipe s))) LClr)
  | LClr, AClr => Some (after_event (set_handling s None))
  | _, _ => None
  end.

(* ---------------------------------------------------------------- a firing thread (index i, lock id S i) *)
Definition fstep (i : nat) (a : lbl) (s : state) : option state :=
  let me := S i in
  let ft := fts s i in
  match fp ft, a with
  | FIdle, AAcq => match acquire me s with Some s' => Some (set_fp s' i FRead) | None => None end
  | FRead, AFReadH =>
      Some (set_fp s i (FCnt (match handling s with Some (Some g) => Some g | _ => None end)))
  | FCnt h, ACount => Some (set_fp (set_ctr s (S (ctr s))) i (FApp h))
  | FApp h, AAppF =>
      let s1 := set_dq s (dq s ++ [(ctr s, EvF i (fapp ft))]) in
      Some (set_fts s1 (upd (fts s1) i
             {| fp := match h with Some g => FRed g RAcq | None => FRel end;
                fapp := S (fapp ft); fret := fret ft |}))
  | FRed g r, _ =>
      match red_step me g Zero r a s with
      | Some (s', Some r') => Some (set_fp s' i (FRed g r'))
      | Some (s', None) => Some (set_fp s' i FRel)
      | None => None
      end
  | FRel, ARel => match release me s with Some s' => Some (set_fp s' i FRet) | None => None end
  | FRet, ARet =>
      Some (set_fts s (upd (fts s) i {| fp := FIdle; fapp := fapp ft; fret := S (fret ft) |}))
  | _, _ => None
  end.

(* thread 0 = loop, thread S i = firing thread i *)
Definition step (s : state) (ta : nat * lbl) : option state :=
  match fst ta with
  | O => lstep (snd ta) s
  | S i => fstep i (snd ta) s
  end.

Fixpoint run (s : state) (tr : list (nat * lbl)) : option state :=
  match tr with
  | [] => Some s
  | a :: r => match step s a with Some s' => run s' r | None => None end
  end.

Definition accepts (m : mode) (tr : list (nat * lbl)) : bool :=
  match run (init m) tr with Some _ => true | None => false end.

(* index of the first action the model cannot follow (for diagnostics) *)
Fixpoint first_reject (s : state) (i : nat) (tr : list (nat * lbl)) : option nat :=
  match tr with
  | [] => None
  | a :: r => match step s a with Some s' => first_reject s' (S i) r | None => Some i end
  end.

(* ---------------------------------------------------------------- what the property speaks about *)
Definition pending (s : state) : list ev := map snd (hp s) ++ map snd (dq s).

(* the loop thread sits in its idle wait and the wake object is not signalled *)
Definition blocked (s : state) : bool :=
  match lp s with
  | WWaitU => negb (flag s)
  | WWaitT Pos => negb (flag s)
  | PSel Neg | PSel Pos => negb (watched s && (0 <? pipe s))
  | _ => false
  end.

(* event k of firing thread t has been handed over: its fire() call has returned *)
Definition returned (s : state) (e : ev) : bool :=
  match e with EvF t k => k <? fret (fts s t) | _ => false end.
