From Coq Require Import List ZArith NArith Bool.
From Circ Require Import Lib.Obs Model.Auth Model.Session.
Import ListNotations.
Open Scope N_scope.

Definition sha_of (t : list (str * str)) (k : str) : str :=
  match lookup k t with Some v => v | None => [] end.

Definition mkreq (c : option str) (i a : str) : req := {| cookie := c; ip := i; agent := a |}.

Definition obs_session (shat : list (str * str)) (h : list (req * action * str)) : T :=
  Tlist (fun o : str * data => Tl [Tb (fst o); Topt TN (snd o)]) (run (sha_of shat) [] h).

(* http.cookies.SimpleCookie as an oracle: raw Cookie header -> value of the session cookie
   (None = the name is not in request.cookie), recorded from the real Request *)
Definition cookie_tbl (ct : list (str * option str)) (raw : str) : option str :=
  match lookup raw ct with Some v => v | None => None end.
