From Coq Require Import List ZArith NArith Bool.
From Circ Require Import Lib.Obs Model.Auth Model.Session Model.VHost.
Import ListNotations.
Open Scope N_scope.

Definition sha_of (t : list (str * str)) (k : str) : str :=
  match lookup k t with Some v => v | None => [] end.

Definition mkreq (c : option str) (i a : str) : req := {| cookie := c; ip := i; agent := a |}.

Definition obs_session (shat : list (str * str)) (h : list (req * action * str)) : T :=
  Tlist (fun o : str * data => Tl [Tb (fst o); Topt TN (snd o)]) (run (sha_of shat) [] h).

(* http.cookies.SimpleCookie as an oracle: raw Cookie header -> value of the session cookie
   (None = the name is not in request.cookie), recorded from the real Request *)
Definition cookie_tbl (ct : list (str * option str)) (raw : str) : option str :=
  match lookup raw ct with Some v => v | None => None end.

(* a request whose address is request.remote.ip as the real Request gave it (None: no address) *)
Definition mkreq_remote (c : option str) (remote : option str) (a : str) : req := mkreq c (ip_text remote) a.
