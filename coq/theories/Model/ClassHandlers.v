(* Executable model of how a component instance collects its handlers from its
   class hierarchy: BaseComponent.__new__ (aliases Klass_attr for inherited
   handlers that are not overridden, walking the MRO) and __init__'s
   getmembers() loop (attribute lookup = first definition along the MRO).
   HandlerMetaClass (implicit handlers of public methods of Component
   subclasses) is applied by the harness when it describes a definition:
   an implicit handler is a definition with m_handler = true, names = [attr]. *)
From Coq Require Import List Arith Bool.
Import ListNotations.

Record mdef := { m_attr : nat;        (* attribute (method) name *)
                 m_fid : nat;         (* identity of the function object *)
                 m_handler : bool;    (* f.handler is True *)
                 m_override : bool;   (* f.override *)
                 m_names : list nat }.  (* event names it is declared for *)
Definition klass := list mdef.          (* the class' own __dict__ *)

Definition mem (x : nat) (l : list nat) : bool := existsb (Nat.eqb x) l.

(* getmembers(self): for every attribute name, the first definition along the MRO *)
Fixpoint lookup_attr (a : nat) (mro : list klass) : option mdef :=
  match mro with
  | [] => None
  | k :: r => match find (fun d => Nat.eqb (m_attr d) a) k with
              | Some d => Some d
              | None => lookup_attr a r
              end
  end.

Definition resolved (mro : list klass) : list mdef :=
  flat_map (fun k => flat_map (fun d =>
     match lookup_attr (m_attr d) mro with
     | Some d' => if m_handler d' then [d'] else []
     | None => [] end) k) mro.

(* __new__: walk the MRO keeping the set of overridden attribute names *)
Fixpoint aliases (first : bool) (overridden : list nat) (mro : list klass) : list mdef :=
  match mro with
  | [] => []
  | k :: r =>
      let here := filter (fun d => m_handler d && negb first && negb (mem (m_attr d) overridden)) k in
      let ov := map m_attr (filter (fun d => m_handler d && m_override d) k) in
      here ++ aliases false (ov ++ overridden) r
  end.

(* bound methods of the same function and instance are equal: the handler registry is a set *)
Fixpoint dedup (l : list mdef) : list mdef :=
  match l with
  | [] => []
  | x :: r => if existsb (fun y => Nat.eqb (m_fid y) (m_fid x)) r then dedup r else x :: dedup r
  end.

Definition collect (mro : list klass) : list mdef := dedup (resolved mro ++ aliases true [] mro).

(* handlers of the instance for event name e (function ids) *)
Definition handlers_for (mro : list klass) (e : nat) : list nat :=
  map m_fid (filter (fun d => mem e (m_names d)) (collect mro)).
