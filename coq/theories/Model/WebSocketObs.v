(* Encoders of the WebSocket model's results into Obs.T for the correspondence check. *)
From Coq Require Import List ZArith NArith Bool.
From Circ Require Import Lib.Obs Model.WebSocket.
Import ListNotations.

(* long byte strings are compared by (length, position-sensitive checksum, first 8, last 8);
   the harness computes the same summary of what the implementation produced *)
Definition cksum (l : list N) : N :=
  fold_left (fun a c => N.land (a * 31 + c + 1) 1048575)%N l 0%N.

Definition Tsum (l : list N) : T :=
  let n := length l in
  if Nat.leb n 48 then Tb l
  else Tl [Tnat n; TN (cksum l); Tb (firstn 8 l); Tb (skipn (n - 8) l)].

(* [lax]: the case contains text that is not valid UTF-8; the implementation delivers
   decode('utf-8','replace') of it, which the model (text = bytes) does not describe, so only the
   type of text messages is compared in such a case; everything else stays exact *)
Definition msg_T (lax : bool) (m : msg) : T :=
  Tl [Tbool (fst m); if lax && fst m then Tb [] else Tsum (snd m)].

(* the frames written during one operation are compared as one byte string: how the bytes are
   distributed over write events is not part of the property *)
Definition out_T (lax : bool) (o : out) : T :=
  Tl [Tlist (msg_T lax) (delivered o); Tsum (concat (written o)); Tnat (pclose o)].

(* table of the masking keys the implementation drew from os.urandom, in order *)
Definition key_table (keys : list (list N)) : nat -> list N :=
  fun i => match nth_error keys i with Some k => k | None => [] end.

Definition res_T {A} (f : A -> T) (r : R A) : T :=
  match r with
  | ROk a => f a
  | RCrash => Tl [Tn (-999)]
  | RFuel => Tl [Tn (-998)]
  end.

Definition obs_ws (lax client : bool) (keys : list (list N)) (ops : list op) : T :=
  res_T (fun x => Tlist (out_T lax) (snd x)) (run (key_table keys) client init ops).

(* the specification encoder against the harness' own RFC 6455 encoder *)
Definition obs_rfc (fin : bool) (opcode : N) (mk : option key4) (p : list N) : T :=
  Tsum (rfc_frame fin opcode mk p).

(* WebSocketClient: reads from the transport (handshake response, then frames) and application
   operations on the codec's channel (ignored while there is no codec) *)
Inductive cop := CRead (d : list N) | CApp (o : op).

Definition cstep (keyfn : nat -> list N) (c : cstate) (o : cop) : R (cstate * out) :=
  match o with
  | CRead d => cread keyfn true c d
  | CApp a =>
      match c with
      | CHandshake _ => ROk (c, no_out)
      | COpen s => match step keyfn true s a with
                   | ROk (s', x) => ROk (COpen s', x)
                   | RCrash => RCrash
                   | RFuel => RFuel
                   end
      end
  end.

Fixpoint crun (keyfn : nat -> list N) (c : cstate) (ops : list cop) : R (list out) :=
  match ops with
  | [] => ROk []
  | o :: r =>
      match cstep keyfn c o with
      | ROk (c1, x) => match crun keyfn c1 r with
                       | ROk xs => ROk (x :: xs)
                       | RCrash => RCrash
                       | RFuel => RFuel
                       end
      | RCrash => RCrash
      | RFuel => RFuel
      end
  end.

Definition obs_cup (keys : list (list N)) (ops : list cop) : T :=
  res_T (Tlist (out_T false)) (crun (key_table keys) (CHandshake []) ops).

(* WebSocketsDispatcher: operations on several sockets *)
Definition obs_disp (ops : list dop) : T :=
  res_T (fun x => Tlist (fun y => Tl [Tnat (fst y); out_T false (snd y)]) (snd x))
        (drun (key_table []) false t_empty ops).
