(* Encoders of the WebSocket model's results into Obs.T for the correspondence check. *)
From Coq Require Import List ZArith NArith Bool.
From Circ Require Import Lib.Obs Model.WebSocket.
Import ListNotations.

(* long byte strings are compared by (length, position-sensitive checksum, first 8, last 8);
   the harness computes the same summary of what the implementation produced *)
Definition cksum (l : list N) : N :=
  fold_left (fun a c => N.land (a * 31 + c + 1) 1048575)%N l 0%N.

Definition Tsum (l : list N) : T :=
  let n := length l in
  if Nat.leb n 48 then Tb l
  else Tl [Tnat n; TN (cksum l); Tb (firstn 8 l); Tb (skipn (n - 8) l)].

Definition msg_T (m : msg) : T := Tl [Tbool (fst m); Tsum (snd m)].

(* the frames written during one operation are compared as one byte string: how the bytes are
   distributed over write events is not part of the property *)
Definition out_T (o : out) : T :=
  Tl [Tlist msg_T (delivered o); Tsum (concat (written o)); Tnat (pclose o)].

(* table of the masking keys the implementation drew from os.urandom, in order *)
Definition key_table (keys : list (list N)) : nat -> list N :=
  fun i => match nth_error keys i with Some k => k | None => [] end.

Definition obs_ws (client : bool) (keys : list (list N)) (ops : list op) : T :=
  match run (key_table keys) client init ops with
  | ROk (_, outs) => Tlist out_T outs
  | RCrash => Tl [Tn (-999)]
  | RFuel => Tl [Tn (-998)]
  end.

(* the specification encoder against the harness' own RFC 6455 encoder *)
Definition obs_rfc (fin : bool) (opcode : N) (mk : option key4) (p : list N) : T :=
  Tsum (rfc_frame fin opcode mk p).
