(* Encoders of the HttpFraming model's results into Lib/Obs.T for the correspondence check. *)
From Coq Require Import List ZArith NArith Bool.
From Circ Require Import Lib.Obs Model.HttpFraming.
Import ListNotations.

Definition obs_state (s : pstate) : T :=
  match s with
  | PFirst buf => Tl [Tn 0; Tb buf]
  | PHead fl _ buf => Tl [Tn 1; Tb fl; Tb buf]
  | PBody fl blk clen rest body => Tl [Tn 2; Tb fl; Tb blk; Topt Tn clen; Topt Tn rest; Tb body]
  | PChunk fl blk body buf => Tl [Tn 3; Tb fl; Tb blk; Tb body; Tb buf]
  | PDone fl blk body => Tl [Tn 4; Tb fl; Tb blk; Tb body]
  | PErr e => Tl [Tn 5; TN e]
  | PCrash => Tl [Tn 6]
  | POutOfFuel => Tl [Tn 7]
  end.

Definition obs_event (e : event) : T :=
  match e with
  | EMsg fl blk body => Tl [Tn 0; Tb fl; Tb blk; Tb body]
  | EBad => Tl [Tn 1]
  | ECrash => Tl [Tn 2]
  end.

Section Run.
Variable kind_resp : bool.
Variable tfl : list (list N * option bool).
Variable thd : list (list N * option (option Z * bool)).

Let feed' := feed kind_resp (tbl_fl tfl) (tbl_hd thd).

(* states of the raw parser after every read *)
Fixpoint parser_trace (s : pstate) (reads : list (list N)) : list pstate :=
  match reads with
  | [] => []
  | d :: ds => let s1 := feed' s d in s1 :: parser_trace s1 ds
  end.

Definition obs_parser (reads : list (list N)) : T :=
  Tlist obs_state (parser_trace (PFirst []) reads).

Let emit := if kind_resp then cli_emit else srv_emit.

(* connection state and events fired after every read *)
Fixpoint conn_trace (s : pstate) (reads : list (list N)) : list (pstate * list event) :=
  match reads with
  | [] => []
  | d :: ds => let '(s1, e1) := conn_read kind_resp (tbl_fl tfl) (tbl_hd thd) emit s d in
               (s1, e1) :: conn_trace s1 ds
  end.

Definition obs_conn (reads : list (list N)) : T :=
  Tlist (fun p => Tpair (obs_state (fst p)) (Tlist obs_event (snd p))) (conn_trace (PFirst []) reads).
End Run.
