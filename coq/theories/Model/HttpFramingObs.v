(* Encoders of the HttpFraming model's results into Lib/Obs.T for the correspondence check.
   Inputs are described compactly (Coq elaborates large literals slowly): the bytes of all messages once,
   the cut positions, and the oracle tables as slices of those bytes. *)
From Coq Require Import List ZArith NArith Bool.
From Coq Require Export Init.Byte.
From Coq Require Strings.Byte.
From Circ Require Import Lib.Obs Model.HttpFraming.
Import ListNotations.

(* byte strings up to 64 bytes are compared literally, longer ones by length and a polynomial checksum
   (keeps the literals small) *)
Definition cks (l : list N) : Z :=
  fold_left (fun acc b => ((acc * 257 + Z.of_N b + 1) mod 1000000007)%Z) l 0%Z.
Definition Tc (l : list N) : T :=
  if (length l <=? 64)%nat then Tl [Tn 0; Tb l] else Tl [Tn 1; Tnat (length l); Tn (cks l)].

(* wbuf = false: the harness could not read the carried-over buffer of the real parser; the buffer fields are
   then dropped on both sides (the harness reports an empty buffer, the encoder too) *)
Definition bufv (wbuf : bool) (buf : list N) : list N := if wbuf then buf else [].

Definition obs_state (wbuf : bool) (s : pstate) : T :=
  match s with
  | PFirst buf => Tl [Tn 0; Tc (bufv wbuf buf)]
  | PHead fl _ buf => Tl [Tn 1; Tc fl; Tc (bufv wbuf buf)]
  | PBody fl blk _ _ body => Tl [Tn 2; Tc fl; Tc blk; Tc body]
  | PChunk fl blk body buf => Tl [Tn 3; Tc fl; Tc blk; Tc body; Tc (bufv wbuf buf)]
  | PDone fl blk body => Tl [Tn 4; Tc fl; Tc blk; Tc body]
  | PErr e => Tl [Tn 5; TN e]
  | PCrash => Tl [Tn 6]
  | POutOfFuel => Tl [Tn 7]
  end.

Definition tag (s : pstate) : Z :=
  match s with
  | PFirst _ => 0 | PHead _ _ _ => 1 | PBody _ _ _ _ _ => 2 | PChunk _ _ _ _ => 3
  | PDone _ _ _ => 4 | PErr _ => 5 | PCrash => 6 | POutOfFuel => 7
  end.

(* tag, length of the carried-over buffer, length of the body so far *)
Definition obs_short (wbuf : bool) (s : pstate) : T :=
  match s with
  | PFirst buf => Tl [Tn 0; Tnat (length (bufv wbuf buf)); Tn 0]
  | PHead _ _ buf => Tl [Tn 1; Tnat (length (bufv wbuf buf)); Tn 0]
  | PBody _ _ _ _ body => Tl [Tn 2; Tn 0; Tnat (length body)]
  | PChunk _ _ body buf => Tl [Tn 3; Tnat (length (bufv wbuf buf)); Tnat (length body)]
  | PDone _ _ body => Tl [Tn 4; Tn 0; Tnat (length body)]
  | PErr e => Tl [Tn 5; TN e; Tn 0]
  | PCrash => Tl [Tn 6; Tn 0; Tn 0]
  | POutOfFuel => Tl [Tn 7; Tn 0; Tn 0]
  end.

Definition obs_event (e : event) : T :=
  match e with
  | EMsg fl blk body => Tl [Tn 0; Tc fl; Tc blk; Tc body]
  | EBad => Tl [Tn 1]
  | ECrash => Tl [Tn 2]
  end.

(* keep the reads after which the phase changed or an event was fired (with their index) *)
Fixpoint compress (wbuf : bool) (i : nat) (prev : Z) (tr : list (pstate * list event)) : list T :=
  match tr with
  | [] => []
  | (s, evs) :: r =>
      let t := tag s in
      if (t =? prev)%Z && (match evs with [] => true | _ => false end) then compress wbuf (S i) t r
      else Tl [Tnat i; obs_short wbuf s; Tlist obs_event evs] :: compress wbuf (S i) t r
  end.

Definition slice (off len : nat) (l : list N) : list N := firstn len (skipn off l).

(* cut l at the absolute, increasing positions cuts *)
Fixpoint cut_at (prev : nat) (cuts : list nat) (l : list N) : list (list N) :=
  match cuts with
  | [] => [l]
  | c :: cs => firstn (c - prev) l :: cut_at c cs (skipn (c - prev) l)
  end.

Definition no_emit (s : pstate) : option (list event) := None.

Section Run.
Variable mode : nat.                       (* 0 raw parser, 1 server HTTP, 2 client HTTP *)
Variable kind_resp : bool.
Variable wbuf : bool.
Variable msgb : list byte.                  (* byte constructors elaborate much faster than N numerals *)
Variable cutr : list (N * N).              (* cut positions: every position in each range [a, b] (binary numerals: cheap) *)
Variable sfl : list (N * N * option bool).                           (* first-line table, keys as slices *)
Variable lfl : list (list N * option bool).                          (* ... and literally *)
Variable shd : list (N * N * option (option Z * bool)).
Variable lhd : list (list N * option (option Z * bool)).

Let msg := map Strings.Byte.to_N msgb.
Let cuts := flat_map (fun r => seq (N.to_nat (fst r)) (N.to_nat (snd r) - N.to_nat (fst r) + 1)) cutr.
Let tfl := map (fun e => (slice (N.to_nat (fst (fst e))) (N.to_nat (snd (fst e))) msg, snd e)) sfl ++ lfl.
Let thd := map (fun e => (slice (N.to_nat (fst (fst e))) (N.to_nat (snd (fst e))) msg, snd e)) shd ++ lhd.
Let emit := match mode with O => no_emit | S O => srv_emit | _ => cli_emit end.

Fixpoint conn_trace (s : pstate) (reads : list (list N)) : list (pstate * list event) :=
  match reads with
  | [] => []
  | d :: ds => let '(s1, e1) := conn_read kind_resp (tbl_fl tfl) (tbl_hd thd) emit s d in
               (s1, e1) :: conn_trace s1 ds
  end.

Definition obs_run : T :=
  let tr := conn_trace (PFirst []) (cut_at 0 cuts msg) in
  Tpair (Tl (compress wbuf 0 0%Z tr)) (obs_state wbuf (fst (last tr (PFirst [], [])))).
End Run.
