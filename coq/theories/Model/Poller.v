(* Executable model of circuits/core/pollers.py (BasePoller, Select, Poll, EPoll)
   together with an abstract machine for the part of the kernel the pollers talk to.
   No proofs in this file.

   Objects (sockets) are numbers [o]; an object is opened once with a file number [f]
   chosen by the environment (any number that is not open: this includes the kernel's
   lowest-free-number rule and therefore close-then-reopen with the same number) and
   may be closed once; after that its fileno() is -1 for ever.
   Components are represented by their channel [c >= 1]; channel 0 stands for the
   fall-back of getTarget (self.parent).

   KERNEL MACHINE (modelled, validated only by the correspondence run):
     - the process' descriptor table: [fds] (object -> number) and [holder] (number -> object);
     - the interest table of the poll / epoll object: [kreg] (number -> (IN, OUT));
         poll  : a Python-side dict; it survives close(); polling a number that is not
                 open reports POLLNVAL; unregister of an absent number raises KeyError (suppressed);
         epoll : close() drops the entry; unregister of an absent number raises OSError (ignored);
         both  : register / unregister on a closed socket object (fileno() = -1) raise ValueError;
     - readiness: a status per number, given by the environment at every iteration
       ([pin pout phup perr]: what poll/epoll report for interest IN|OUT; [sr sw]: what
       select reports).  HUP and ERR are reported whether asked for or not.
     - the order in which poll/epoll report ready numbers is given by the environment
       ([order] of a Tick); theorems hold for every order. *)
From Coq Require Import List Arith Bool.
Import ListNotations.

Inductive kind := KSelect | KPoll | KEPoll.

Record status := { pin : bool; pout : bool; phup : bool; perr : bool; sr : bool; sw : bool }.
Definition idle : status := {| pin := false; pout := false; phup := false; perr := false; sr := false; sw := false |}.

Inductive op :=
| Open (o f : nat)                       (* environment: new object o gets number f *)
| Close (o : nat)                        (* environment: o.close() *)
| AddR (c o : nat) | AddW (c o : nat)    (* poller.addReader(component with channel c, o) ... *)
| RemR (o : nat) | RemW (o : nat) | Discard (o : nat)
| Tick (st : nat -> status) (order : list nat).   (* one zero-timeout _generate_events *)

Inductive ev := ERead (o c : nat) | EWrite (o c : nat) | EDisc (o c : nat).

Record state := {
  fds : nat -> option nat;        (* object -> its number while open (fileno()) *)
  holder : nat -> option nat;     (* number -> the open object that has it *)
  born : nat -> option nat;       (* object -> the number it was opened with (ghost: objects are opened once) *)
  rd : list nat;                  (* BasePoller._read *)
  wr : list nat;                  (* BasePoller._write *)
  tg : nat -> option nat;         (* BasePoller._targets *)
  pmap : nat -> option nat;       (* Poll/EPoll._map : number -> object *)
  kreg : nat -> option (bool * bool)   (* interest table of the poll/epoll object *)
}.

Definition init : state :=
  {| fds := fun _ => None; holder := fun _ => None; born := fun _ => None; rd := []; wr := [];
     tg := fun _ => None; pmap := fun _ => None; kreg := fun _ => None |}.

Definition upd {A} (m : nat -> option A) (k : nat) (v : option A) : nat -> option A :=
  fun j => if Nat.eqb j k then v else m j.

Definition mem (x : nat) (l : list nat) : bool := existsb (Nat.eqb x) l.

(* list.remove(x): first occurrence *)
Fixpoint remove1 (x : nat) (l : list nat) : list nat :=
  match l with
  | [] => []
  | y :: t => if Nat.eqb x y then t else y :: remove1 x t
  end.

Definition remove_all (x : nat) (l : list nat) : list nat := filter (fun y => negb (Nat.eqb x y)) l.

Definition set_rd (s : state) (l : list nat) : state :=
  {| fds := fds s; holder := holder s; born := born s; rd := l; wr := wr s; tg := tg s; pmap := pmap s; kreg := kreg s |}.
Definition set_wr (s : state) (l : list nat) : state :=
  {| fds := fds s; holder := holder s; born := born s; rd := rd s; wr := l; tg := tg s; pmap := pmap s; kreg := kreg s |}.
Definition set_tg (s : state) (t : nat -> option nat) : state :=
  {| fds := fds s; holder := holder s; born := born s; rd := rd s; wr := wr s; tg := t; pmap := pmap s; kreg := kreg s |}.
Definition set_pmap (s : state) (m : nat -> option nat) : state :=
  {| fds := fds s; holder := holder s; born := born s; rd := rd s; wr := wr s; tg := tg s; pmap := m; kreg := kreg s |}.
Definition set_kreg (s : state) (k : nat -> option (bool * bool)) : state :=
  {| fds := fds s; holder := holder s; born := born s; rd := rd s; wr := wr s; tg := tg s; pmap := pmap s; kreg := k |}.

(* ---- BasePoller *)
Definition b_addR (s : state) (c o : nat) : state := set_tg (set_rd s (rd s ++ [o])) (upd (tg s) o (Some c)).
Definition b_addW (s : state) (c o : nat) : state := set_tg (set_wr s (wr s ++ [o])) (upd (tg s) o (Some c)).
Definition drop_target (s : state) (o : nat) : state :=
  if mem o (rd s) || mem o (wr s) then s else set_tg s (upd (tg s) o None).
Definition b_remR (s : state) (o : nat) : state := drop_target (set_rd s (remove1 o (rd s))) o.
Definition b_remW (s : state) (o : nat) : state := drop_target (set_wr s (remove1 o (wr s))) o.
Definition b_discard (s : state) (o : nat) : state :=
  set_tg (set_wr (set_rd s (remove1 o (rd s))) (remove1 o (wr s))) (upd (tg s) o None).
Definition target (s : state) (o : nat) : nat := match tg s o with Some c => c | None => 0 end.

(* ---- Poll / EPoll: _updateRegistration.  None = an exception escapes (register on a closed object) *)
Definition unregister (s : state) (o : nat) : state :=
  match fds s o with
  | Some f => set_kreg s (upd (kreg s) f None)      (* absent: KeyError / ENOENT, swallowed *)
  | None => s                                       (* fileno() = -1: ValueError, swallowed *)
  end.

(* [del m[k] for k, v in m.items() if v == o] *)
Definition drop_obj (m : nat -> option nat) (o : nat) : nat -> option nat :=
  fun j => match m j with
           | Some o' => if Nat.eqb o' o then None else Some o'
           | None => None
           end.

Definition update_reg (k : kind) (s : state) (o : nat) : option state :=
  let s1 := unregister s o in
  let mi := mem o (rd s1) in
  let mo := mem o (wr s1) in
  if mi || mo then
    match fds s1 o with
    | Some f => Some (set_pmap (set_kreg s1 (upd (kreg s1) f (Some (mi, mo)))) (upd (pmap s1) f (Some o)))
    | None => None
    end
  else
    let s2 := b_discard s1 o in
    match k, fds s2 o with
    | KPoll, Some f => Some (set_pmap s2 (upd (pmap s2) f None))
    | KPoll, None => Some s2                        (* Poll: KeyError on _map[-1] swallowed *)
    | _, _ => Some (set_pmap s2 (drop_obj (pmap s2) o))   (* EPoll: every _map key whose value is fd is deleted *)
    end.

Definition api (k : kind) (s : state) (o : nat) : option state :=
  match k with KSelect => Some s | _ => update_reg k s o end.

(* ---- one iteration *)
Record revents := { r_in : bool; r_out : bool; r_hup : bool; r_err : bool; r_nval : bool }.

Definition scan1 (s : state) (st : nat -> status) (f : nat) : list (nat * revents) :=
  match kreg s f with
  | None => []
  | Some (mi, mo) =>
      match holder s f with
      | None => [(f, {| r_in := false; r_out := false; r_hup := false; r_err := false; r_nval := true |})]
      | Some _ =>
          let x := st f in
          let r := {| r_in := mi && pin x; r_out := mo && pout x; r_hup := phup x; r_err := perr x; r_nval := false |} in
          if r_in r || r_out r || r_hup r || r_err r then [(f, r)] else []
      end
  end.

Definition scan (s : state) (st : nat -> status) (order : list nat) : list (nat * revents) :=
  flat_map (scan1 s st) order.

Definition forget (s : state) (f : nat) : state :=
  set_pmap (set_kreg s (upd (kreg s) f None)) (upd (pmap s) f None).

(* _disconnected_flag contains POLLNVAL for Poll only *)
Definition is_poll (k : kind) : bool := match k with KPoll => true | _ => false end.

(* Poll._process / EPoll._process on one reported (number, events) *)
Definition process (k : kind) (s : state) (fr : nat * revents) : state * list ev :=
  let '(f, r) := fr in
  match pmap s f with
  | None => (s, [])
  | Some o =>
      let stale := match k, fds s o with
                   | KPoll, Some f' => negb (Nat.eqb f' f)
                   | KPoll, None => true
                   | _, _ => false
                   end in
      if stale then
        (* Poll only (repaired code): the object was closed while its number was registered *)
        if mem o (rd s) || mem o (wr s)
        then (b_discard (forget s f) o, [EDisc o (target s o)])
        else (forget s f, [])
      else if (r_hup r || r_err r || (is_poll k && r_nval r)) && negb (r_in r)
      then (b_discard (forget s f) o, [EDisc o (target s o)])
      else (s, (if r_in r then [ERead o (target s o)] else []) ++
               (if r_out r then [EWrite o (target s o)] else []))
  end.

Fixpoint processes (k : kind) (s : state) (l : list (nat * revents)) : state * list ev :=
  match l with
  | [] => (s, [])
  | fr :: t => let '(s1, e1) := process k s fr in
               let '(s2, e2) := processes k s1 t in (s2, e1 ++ e2)
  end.

(* Select._generate_events *)
Definition closed (s : state) (o : nat) : bool := match fds s o with None => true | Some _ => false end.
Definition sel_ready (s : state) (st : nat -> status) (w : bool) (o : nat) : bool :=
  match fds s o with
  | Some f => if w then sw (st f) else sr (st f)
  | None => false
  end.
Definition preen (s : state) : state :=
  let bad := fun o => closed s o in
  let keep := fun o => negb (bad o) in
  set_tg (set_wr (set_rd s (filter keep (rd s))) (filter keep (wr s)))
         (fun o => if bad o && (mem o (rd s) || mem o (wr s)) then None else tg s o).

Definition select_tick (s : state) (st : nat -> status) : state * list ev :=
  if existsb (closed s) (rd s) || existsb (closed s) (wr s)
  then (preen s, [])                      (* select raises ValueError: _preenDescriptors, no events *)
  else (s, map (fun o => EWrite o (target s o)) (filter (sel_ready s st true) (wr s)) ++
           map (fun o => ERead o (target s o)) (filter (sel_ready s st false) (rd s))).

Definition tick (k : kind) (s : state) (st : nat -> status) (order : list nat) : state * list ev :=
  match k with
  | KSelect => select_tick s st
  | _ => processes k s (scan s st order)
  end.

(* ---- steps *)
Inductive result := Ok (s : state) (e : list ev) | Crash | Invalid.

Definition lift (o : option state) : result := match o with Some s => Ok s [] | None => Crash end.

Definition step (k : kind) (s : state) (x : op) : result :=
  match x with
  | Open o f =>
      match born s o, holder s f with
      | None, None =>
          Ok {| fds := upd (fds s) o (Some f); holder := upd (holder s) f (Some o); born := upd (born s) o (Some f);
                rd := rd s; wr := wr s; tg := tg s; pmap := pmap s; kreg := kreg s |} []
      | _, _ => Invalid
      end
  | Close o =>
      match fds s o with
      | Some f =>
          Ok {| fds := upd (fds s) o None; holder := upd (holder s) f None; born := born s;
                rd := rd s; wr := wr s; tg := tg s; pmap := pmap s;
                kreg := match k with KEPoll => upd (kreg s) f None | _ => kreg s end |} []
      | None => Invalid
      end
  | AddR c o => match born s o with None => Invalid | Some _ => lift (api k (b_addR s c o) o) end
  | AddW c o => match born s o with None => Invalid | Some _ => lift (api k (b_addW s c o) o) end
  | RemR o => match born s o with None => Invalid | Some _ => lift (api k (b_remR s o) o) end
  | RemW o => match born s o with None => Invalid | Some _ => lift (api k (b_remW s o) o) end
  | Discard o => match born s o with None => Invalid | Some _ => lift (api k (b_discard s o) o) end
  | Tick st order => let '(s', e) := tick k s st order in Ok s' e
  end.

(* a history; the trace has one entry per Tick (the events of that iteration and the state after it) *)
Inductive outcome := Done | Crashed | BadCase.

Fixpoint run (k : kind) (s : state) (h : list op) : list (state * list ev) * outcome * state :=
  match h with
  | [] => ([], Done, s)
  | x :: t =>
      match step k s x with
      | Ok s' e =>
          let '(tr, oc, sf) := run k s' t in
          (match x with Tick _ _ => (s', e) :: tr | _ => tr end, oc, sf)
      | Crash => ([], Crashed, s)
      | Invalid => ([], BadCase, s)
      end
  end.
