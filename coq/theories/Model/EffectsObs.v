(* Encoders of the Effects model's results into Lib/Obs.T for the correspondence check:
   the global log with labels instead of runtime ids, the labels of the user events that still
   carry a cause attribute at the end, and whether the run went quiet. *)
From Coq Require Import List ZArith Bool Arith.
From Circ Require Import Lib.Obs Model.Effects.
Import ListNotations.

Definition lbl_of (s : st) (e : nat) : nat := ev_lbl (spec s e).

Definition enc_entry (s : st) (x : entry) : T :=
  match x with
  | LH e i => Tl [Tn 0; Tnat (lbl_of s e); Tnat i]
  | LG e i k => Tl [Tn 1; Tnat (lbl_of s e); Tnat i; Tnat k]
  | LFC e => Tl [Tn 2; Tnat (lbl_of s e)]
  | LDC e => Tl [Tn 3; Tnat (lbl_of s e)]
  | LF e => Tl [Tn 5; Tnat (lbl_of s e);
                match gpar s e with Some p => Tnat (lbl_of s p) | None => Tn 0 end]
  | LD d => match kind s d with
            | KExc x => Tl [Tn 6; Tn 0; Tnat (lbl_of s x)]
            | KFail x => Tl [Tn 6; Tn 1; Tnat (lbl_of s x)]
            | KSucc x => Tl [Tn 6; Tn 2; Tnat (lbl_of s x)]
            | KDone x => Tl [Tn 6; Tn 3; Tnat (lbl_of s x)]
            | _ => Tl [Tn 6; Tn 9; Tnat d]
            end
  end.

Definition is_user (s : st) (e : nat) : bool :=
  match kind s e with KUser => true | _ => false end.

Definition live_labels (s : st) : list nat :=
  map (lbl_of s)
      (filter (fun e => is_user s e && match cause s e with Some _ => true | None => false end)
              (seq 0 (next s))).

Definition obs_state (s : st) : T :=
  Tl [Tlist (enc_entry s) (rev (log s)); Tlist Tnat (live_labels s);
      Tbool (quiet s && negb (oof s))].

Definition obs_run (roots : list ev) (sched : list (list (nat * nat))) (fuel : nat) : T :=
  obs_state (run fixed fuel sched (start roots)).
