(* C12 — executable model of circuits.net.sockets.Server's per-connection bookkeeping
   (`_clients`, `_buffers`, `_closeq`) over an abstract poller (`_read`, `_write`, `_targets`, `_map`),
   as the code is AFTER the proposed repairs fixes/C12_*.patch, and of the Client's connected flag.

   The model is driven by *stimuli*: the handler invocations the Server component receives
   (`_read(sock)`, `_write(sock)`, `_disconnect(sock)` from the poller, `write(sock, data)` and
   `close(sock)` from the application) together with the answer the kernel gives to the recv()/send()/
   accept() the handler makes.  Kernel and poller readiness are therefore inputs: theorems quantify over
   every stimulus sequence (every peer behaviour, every poller behaviour, every lateness of writes/closes).

   Sockets are numbers.  Payloads written by the server are represented by their length (the bytes are
   property C11's business); payloads received are byte lists.  No proofs here. *)
From Coq Require Import List NArith Arith Bool.
Import ListNotations.

Definition sock := nat.

Inductive rres := RData (d : list N) | REof | RWould | RErr.      (* recv(): data / b'' / EWOULDBLOCK / other OSError *)
Inductive wres := WAcc (k : N) | WTrans | WFatal.                 (* send(): k bytes taken / EINTR,EWOULDBLOCK,ENOBUFS / other OSError *)

Inductive stim :=
| SAccept (s : sock)               (* _read(listening socket): accept() returned the new socket s, getpeername() worked *)
| SAcceptGone (s : sock)           (* same, but getpeername() raised: the peer had reset before accept() *)
| SRead (s : sock) (r : rres)      (* _read(s) dispatched to the server; r = what recv() answers if asked *)
| SWritable (s : sock) (w : wres)  (* _write(s) dispatched; w = what send() answers if asked *)
| SDrop (s : sock)                 (* Poll/EPoll saw HUP/ERR without IN: the poller forgets s itself and fires _disconnect *)
| SDisc (s : sock)                 (* _disconnect(s) dispatched to the server *)
| SWrite (s : sock) (n : N)        (* write(s, data) dispatched, len data = n — possibly long after s was disconnected *)
| SClose (s : sock)                (* close(s) dispatched — possibly late *)
| SCloseAll                        (* close() dispatched: close the listening socket and every client *)
| SSnap.                           (* harness only: look at the tables *)

Inductive ev := EConnect (s : sock) | ERead (s : sock) (d : list N) | EError (s : sock) | EDisconnect (s : sock).
Inductive call := CRecv (s : sock) (r : rres) | CSend (s : sock) (n : N).

Record st := mk {
  clients : list sock;              (* Server._clients  (python list) *)
  bufs : list (sock * list N);      (* Server._buffers  (defaultdict(deque)): key -> lengths of queued payloads *)
  closeq : list sock;               (* Server._closeq   (python list) *)
  rd : list sock;                   (* poller._read     (python list; listening socket and control pipe left out) *)
  wr : list sock;                   (* poller._write *)
  tg : list sock;                   (* keys of poller._targets (dict) *)
  mp : list sock;                   (* values of Poll/EPoll._map (dict fileno -> object); [] for Select *)
  lis : bool                        (* Server._sock is not None: the listening socket is open and registered *)
}.

(* server-wide events: disconnect(listening socket) and closed() *)
Inductive srvev := VListenDown | VClosed.
Inductive out := OEv (e : ev) | OCall (c : call) | OSnap (x : st) | OSrv (v : srvev).

Definition init : st := mk [] [] [] [] [] [] [] true.

(* ---- python containers *)
Definition mem (x : nat) (l : list nat) : bool := existsb (Nat.eqb x) l.
Fixpoint remove1 (x : nat) (l : list nat) : list nat :=           (* list.remove(x), x known to be present or guarded *)
  match l with [] => [] | y :: t => if Nat.eqb x y then t else y :: remove1 x t end.
Definition del (x : nat) (l : list nat) : list nat := filter (fun y => negb (Nat.eqb x y)) l.    (* del d[x] / absent: no-op *)
Definition add (x : nat) (l : list nat) : list nat := if mem x l then l else l ++ [x].          (* d[x] = ... *)

Definition bhas (s : sock) (b : list (sock * list N)) : bool := existsb (fun p => Nat.eqb s (fst p)) b.
Definition bget (s : sock) (b : list (sock * list N)) : list N :=
  match find (fun p => Nat.eqb s (fst p)) b with Some p => snd p | None => [] end.
Definition bdel (s : sock) (b : list (sock * list N)) := filter (fun p => negb (Nat.eqb s (fst p))) b.
Definition bset (s : sock) (v : list N) (b : list (sock * list N)) := (s, v) :: bdel s b.
(* `self._buffers[sock]` on a defaultdict creates the entry *)
Definition btouch (s : sock) (b : list (sock * list N)) := if bhas s b then b else (s, []) :: b.
Definition isnil {A} (l : list A) : bool := match l with [] => true | _ => false end.

Definition set_clients v x := mk v x.(bufs) x.(closeq) x.(rd) x.(wr) x.(tg) x.(mp) x.(lis).
Definition set_bufs v x := mk x.(clients) v x.(closeq) x.(rd) x.(wr) x.(tg) x.(mp) x.(lis).
Definition set_closeq v x := mk x.(clients) x.(bufs) v x.(rd) x.(wr) x.(tg) x.(mp) x.(lis).
Definition set_lis v x := mk x.(clients) x.(bufs) x.(closeq) x.(rd) x.(wr) x.(tg) x.(mp) v.

(* ---- poller (BasePoller lists + Poll/EPoll registration map; hm = the poller has a _map) *)
(* _updateRegistration; Select has none: its _map stays [] and `del` on it is the identity *)
Definition upd (hm : bool) (s : sock) (x : st) : st :=
  if mem s x.(rd) || mem s x.(wr)
  then mk x.(clients) x.(bufs) x.(closeq) x.(rd) x.(wr) x.(tg) (if hm then add s x.(mp) else x.(mp)) x.(lis)
  else mk x.(clients) x.(bufs) x.(closeq) x.(rd) x.(wr) (if hm then del s x.(tg) else x.(tg)) (del s x.(mp)) x.(lis).
Definition addReader hm s x :=
  upd hm s (mk x.(clients) x.(bufs) x.(closeq) (x.(rd) ++ [s]) x.(wr) (add s x.(tg)) x.(mp) x.(lis)).
Definition addWriter hm s x :=
  upd hm s (mk x.(clients) x.(bufs) x.(closeq) x.(rd) (x.(wr) ++ [s]) (add s x.(tg)) x.(mp) x.(lis)).
Definition removeWriter hm s x :=
  let w := remove1 s x.(wr) in
  upd hm s (mk x.(clients) x.(bufs) x.(closeq) x.(rd) w
               (if mem s x.(rd) || mem s w then x.(tg) else del s x.(tg)) x.(mp) x.(lis)).
Definition discard hm s x :=
  upd hm s (mk x.(clients) x.(bufs) x.(closeq) (remove1 s x.(rd)) (remove1 s x.(wr)) (del s x.(tg)) x.(mp) x.(lis)).
(* Poll/EPoll._process on hang-up: BasePoller.discard + del _map[fileno] *)
Definition pdrop (s : sock) (x : st) : st :=
  mk x.(clients) x.(bufs) x.(closeq) (remove1 s x.(rd)) (remove1 s x.(wr)) (del s x.(tg)) (del s x.(mp)) x.(lis).

(* ---- Server *)
(* Server._close(sock) *)
Definition do__close (hm : bool) (s : sock) (x : st) : st * list out :=
  if negb (mem s x.(clients)) then (x, []) else
  let x1 := discard hm s x in
  (mk (remove1 s x1.(clients)) (bdel s x1.(bufs)) (remove1 s x1.(closeq)) x1.(rd) x1.(wr) x1.(tg) x1.(mp) x1.(lis),
   [OEv (EDisconnect s)]).

(* Server.close(sock), sock given (handler and direct call from _read) *)
Definition do_close (hm : bool) (s : sock) (x : st) : st * list out :=
  if negb (mem s x.(clients)) then (x, []) else
  let x1 := set_bufs (btouch s x.(bufs)) x in
  if isnil (bget s x1.(bufs)) then do__close hm s x1
  else if mem s x1.(closeq) then (x1, []) else (set_closeq (x1.(closeq) ++ [s]) x1, []).

(* Server._on_read(sock) for a client socket -> _read(sock) *)
Definition on_read (hm : bool) (s : sock) (r : rres) (x : st) : st * list out :=
  if negb (mem s x.(clients)) then (x, []) else
  match r with
  | RData ((_ :: _) as d) => (x, [OCall (CRecv s r); OEv (ERead s d)])
  | RData [] | REof => let '(x', o) := do_close hm s x in (x', OCall (CRecv s r) :: o)
  | RWould => (x, [OCall (CRecv s r)])
  | RErr => let '(x', o) := do__close hm s x in (x', OCall (CRecv s r) :: OEv (EError s) :: o)
  end.

(* second half of Server._on_write: buffer drained -> deferred close or drop the writer interest *)
Definition drained (hm : bool) (s : sock) (x : st) : st * list out :=
  let x1 := set_bufs (btouch s x.(bufs)) x in
  if isnil (bget s x1.(bufs)) then
    if mem s x1.(closeq) then do__close hm s (set_closeq (remove1 s x1.(closeq)) x1)
    else if mem s x1.(wr) then (removeWriter hm s x1, []) else (x1, [])
  else (x1, []).

(* Server._on_write(sock) -> _write(sock, data) *)
Definition on_writable (hm : bool) (s : sock) (w : wres) (x : st) : st * list out :=
  if negb (mem s x.(clients)) then (x, []) else
  let x0 := set_bufs (btouch s x.(bufs)) x in
  match bget s x0.(bufs) with
  | [] => drained hm s x0
  | n :: rest =>
      let x1 := set_bufs (bset s rest x0.(bufs)) x0 in                     (* popleft *)
      let '(x2, o) :=
        match w with
        | WAcc k => (if N.ltb k n then set_bufs (bset s (N.sub n k :: rest) x1.(bufs)) x1 else x1, [])
        | WTrans => (set_bufs (bset s (n :: rest) x1.(bufs)) x1, [])
        | WFatal => let '(x', o') := do__close hm s x1 in (x', OEv (EError s) :: o')
        end in
      if mem s x2.(clients)
      then let '(x3, o3) := drained hm s x2 in (x3, OCall (CSend s n) :: o ++ o3)
      else (x2, OCall (CSend s n) :: o)
  end.

(* Server.write(sock, data) *)
Definition on_write_req (hm : bool) (s : sock) (n : N) (x : st) : st * list out :=
  if negb (mem s x.(clients)) then (x, []) else
  let x1 := if mem s x.(wr) then x else addWriter hm s x in
  (set_bufs (bset s (bget s x1.(bufs) ++ [n]) x1.(bufs)) x1, []).

(* Server._on_accept_done *)
Definition on_accept (hm : bool) (s : sock) (gone : bool) (x : st) : st * list out :=
  let x1 := addReader hm s x in
  let x2 := set_clients (x1.(clients) ++ [s]) x1 in
  if gone then let '(x3, o) := do__close hm s x2 in (x3, OEv (EError s) :: o)
  else (x2, [OEv (EConnect s)]).

(* Server.close() without socket: socks = [self._sock] + self._clients[:]; the (open) listening socket is closed
   at once (nothing is ever buffered for it), each client as by close(sock); then closed() is fired *)
Definition close_each (hm : bool) (l : list sock) (x : st) : st * list out :=
  fold_left (fun (a : st * list out) s => let '(y, o) := a in let '(y', o') := do_close hm s y in (y', o ++ o'))
            l (x, []).
Definition close_all (hm : bool) (x : st) : st * list out :=
  let '(x2, o2) := close_each hm x.(clients) (set_lis false x) in
  (x2, (if x.(lis) then [OSrv VListenDown] else []) ++ o2 ++ [OSrv VClosed]).

Definition step (hm : bool) (x : st) (i : stim) : st * list out :=
  match i with
  | SAccept s => on_accept hm s false x
  | SAcceptGone s => on_accept hm s true x
  | SRead s r => on_read hm s r x
  | SWritable s w => on_writable hm s w x
  | SDrop s => (pdrop s x, [])
  | SDisc s => do__close hm s x
  | SWrite s n => on_write_req hm s n x
  | SClose s => do_close hm s x
  | SCloseAll => close_all hm x
  | SSnap => (x, [OSnap x])
  end.

Fixpoint run_from (hm : bool) (x : st) (acc : list out) (h : list stim) : st * list out :=
  match h with
  | [] => (x, acc)
  | i :: t => let '(x', o) := step hm x i in run_from hm x' (acc ++ o) t
  end.
Definition run (hm : bool) (h : list stim) : st * list out := run_from hm init [] h.

(* ---- what the property talks about *)
Definition accepted_of (i : stim) : list sock :=
  match i with SAccept s | SAcceptGone s => [s] | _ => [] end.
Definition accepted (h : list stim) : list sock := flat_map accepted_of h.
Definition gone_of (i : stim) : list sock := match i with SAcceptGone s => [s] | _ => [] end.
Definition gone (h : list stim) : list sock := flat_map gone_of h.

Definition ev_sock (e : ev) : sock :=
  match e with EConnect s | ERead s _ | EError s | EDisconnect s => s end.
(* the events an observer sees for socket s, in order *)
Definition proj_of (s : sock) (o : out) : list ev :=
  match o with OEv e => if Nat.eqb s (ev_sock e) then [e] else [] | _ => [] end.
Definition proj (s : sock) (os : list out) : list ev := flat_map (proj_of s) os.

(* the automaton  connect . read* . error? . disconnect *)
Inductive phase := PNone | PLive | PErr | PDead | PBad.
Definition astep (p : phase) (e : ev) : phase :=
  match p, e with
  | PNone, EConnect _ => PLive
  | PLive, ERead _ _ => PLive
  | PLive, EError _ => PErr
  | PLive, EDisconnect _ => PDead
  | PErr, EDisconnect _ => PDead
  | _, _ => PBad
  end.
Definition phase_of (s : sock) (os : list out) : phase := fold_left astep (proj s os) PNone.

(* payloads of the read events of s / of the recv() calls on s that returned data *)
Definition read_of (s : sock) (o : out) : list (list N) :=
  match o with OEv (ERead s' d) => if Nat.eqb s s' then [d] else [] | _ => [] end.
Definition reads (s : sock) (os : list out) := flat_map (read_of s) os.
Definition recvd_of (s : sock) (o : out) : list (list N) :=
  match o with OCall (CRecv s' (RData ((_ :: _) as d))) => if Nat.eqb s s' then [d] else [] | _ => [] end.
Definition recvd (s : sock) (os : list out) := flat_map (recvd_of s) os.

Definition is_disc (s : sock) (o : out) : bool :=
  match o with OEv (EDisconnect s') => Nat.eqb s s' | _ => false end.
Definition is_conn (s : sock) (o : out) : bool :=
  match o with OEv (EConnect s') => Nat.eqb s s' | _ => false end.
Definition count {A} (f : A -> bool) (l : list A) : nat := length (filter f l).

(* "no trace": s occurs in none of the tables *)
Definition no_state (s : sock) (x : st) : Prop :=
  ~ In s x.(clients) /\ ~ In s (map fst x.(bufs)) /\ ~ In s x.(closeq) /\
  ~ In s x.(rd) /\ ~ In s x.(wr) /\ ~ In s x.(tg) /\ ~ In s x.(mp).

(* ---- what Poll / EPoll turn one kernel report for socket s into (`_process`): a hang-up / error report counts as
   a disconnect only when nothing is readable; otherwise the readable / writable reports are passed on first
   (the hang-up is then found by recv()).  r, w = what recv() / send() will answer. *)
Definition pemit (s : sock) (ein eout ehup : bool) (r : rres) (w : wres) : list stim :=
  if ehup && negb ein then [SDrop s; SDisc s]
  else (if ein then [SRead s r] else []) ++ (if eout then [SWritable s w] else []).
Definition is_hangup_stim (i : stim) : bool := match i with SDrop _ | SDisc _ => true | _ => false end.

(* ---- one socket's share of the state, and which stimuli concern it (for the isolation theorem) *)
Record row := mkrow { r_client : bool; r_buf : list N; r_key : bool; r_closeq : bool;
                      r_rd : bool; r_wr : bool; r_tg : bool; r_mp : bool }.
Definition row_of (s : sock) (x : st) : row :=
  mkrow (mem s x.(clients)) (bget s x.(bufs)) (bhas s x.(bufs)) (mem s x.(closeq))
        (mem s x.(rd)) (mem s x.(wr)) (mem s x.(tg)) (mem s x.(mp)).
Definition touches (s : sock) (i : stim) : bool :=
  match i with
  | SAccept t | SAcceptGone t | SRead t _ | SWritable t _ | SDrop t | SDisc t | SWrite t _ | SClose t => Nat.eqb s t
  | SCloseAll => true
  | SSnap => false
  end.
(* kernel calls made on socket s *)
Definition call_of (s : sock) (o : out) : list call :=
  match o with
  | OCall (CRecv s' r) => if Nat.eqb s s' then [CRecv s' r] else []
  | OCall (CSend s' n) => if Nat.eqb s s' then [CSend s' n] else []
  | _ => []
  end.
Definition calls (s : sock) (os : list out) : list call := flat_map (call_of s) os.

(* ---- terminal stimuli: the kernel / the application says that s is finished, and nothing is left to flush *)
Definition terminal (s : sock) (x : st) (i : stim) : bool :=
  match i with
  | SRead t RErr => Nat.eqb s t                                           (* reset: recv() raises *)
  | SRead t REof | SRead t (RData []) => Nat.eqb s t && isnil (bget s x.(bufs))   (* EOF, nothing buffered *)
  | SWritable t WFatal => Nat.eqb s t && negb (isnil (bget s x.(bufs)))   (* a send() is made and fails fatally *)
  | SWritable t (WAcc k) =>                                               (* the last buffered payload is flushed and a close was deferred *)
      Nat.eqb s t && mem s x.(closeq) &&
      match bget s x.(bufs) with [n] => negb (N.ltb k n) | _ => false end
  | SDisc t => Nat.eqb s t                                                (* poller hang-up *)
  | SClose t => Nat.eqb s t && isnil (bget s x.(bufs))                    (* close(s), nothing buffered *)
  | _ => false
  end.
(* EOF or close(s) while output is still buffered: the close is deferred *)
Definition deferring (s : sock) (x : st) (i : stim) : bool :=
  match i with
  | SRead t REof | SRead t (RData []) | SClose t => Nat.eqb s t && negb (isnil (bget s x.(bufs)))
  | _ => false
  end.

(* ================================================================================================
   Client (circuits.net.sockets.Client / TCPClient / UNIXClient): the connected flag, the write buffer
   (emptiness only), the deferred-close flag. *)
Inductive cstim :=
| KConnect (ok : bool) (fresh : bool)   (* connect handler; ok = the connection was established; fresh = the handler
                                     replaced a closed socket by a new one (TCPClient does, UNIXClient does not) *)
| KRead (r : rres)                 (* _read: recv answers r *)
| KWritable (w : wres) (closes : bool)   (* _write: send answers w; closes = a non-EPIPE fatal error also closes
                                            (true since fixes/C11_client_fatal_close.patch; the theorems hold for both) *)
| KPipe                            (* _write: send raises EPIPE / ENOTCONN *)
| KDisc                            (* _disconnect from the poller *)
| KWrite (n : N)                   (* write(data), len data = n — possibly after the disconnect *)
| KClose.                          (* close() — possibly after the disconnect *)
Inductive cev := KConnected | KDisconnected | KErr | KData (d : list N) | KSend (n : N).   (* KSend = a send() call *)
(* sopen: self._sock is an open socket object (false from _close until a connect makes a new one) *)
Record cst := cmk { conn : bool; pending : list N; closeflag : bool; sopen : bool }.
Definition cinit := cmk false [] false true.

(* Client._close *)
Definition c__close (x : cst) : cst * list cev :=
  if x.(conn) then (cmk false [] false false, [KDisconnected]) else (x, []).
(* Client.close *)
Definition c_close (x : cst) : cst * list cev :=
  match x.(pending) with [] => c__close x | _ => (cmk x.(conn) x.(pending) true x.(sopen), []) end.
(* second half of Client.__on_write *)
Definition c_drained (x : cst) : cst * list cev :=
  match x.(pending) with [] => if x.(closeflag) then c__close x else (x, []) | _ => (x, []) end.

Definition cstep (x : cst) (i : cstim) : cst * list cev :=
  match i with
  | KConnect ok fresh =>
      if ok then (cmk true x.(pending) x.(closeflag) true, [KConnected])
      else (cmk x.(conn) x.(pending) x.(closeflag) (x.(sopen) || fresh), [])
  | KRead (RData ((_ :: _) as d)) => (x, [KData d])
  | KRead (RData []) | KRead REof => c_close x
  | KRead RWould => (x, [])
  | KRead RErr => let '(x', o) := c__close x in (x', KErr :: o)
  | KWritable w closes =>
      match x.(pending) with
      | [] => c_drained x
      | n :: rest =>
          match w with
          | WAcc k => let '(x', o) := c_drained (cmk x.(conn) (if N.ltb k n then N.sub n k :: rest else rest)
                                                     x.(closeflag) x.(sopen)) in (x', KSend n :: o)
          | WTrans => let '(x', o) := c_drained (cmk x.(conn) (n :: rest) x.(closeflag) x.(sopen)) in (x', KSend n :: o)
          | WFatal =>
              let x1 := cmk x.(conn) rest x.(closeflag) x.(sopen) in
              let '(x2, o) := if closes then c__close x1 else (x1, []) in
              let '(x3, o3) := c_drained x2 in (x3, KSend n :: KErr :: o ++ o3)
          end
      end
  | KPipe =>
      match x.(pending) with
      | [] => c_drained x
      | n :: rest => let '(x2, o) := c__close (cmk x.(conn) rest x.(closeflag) x.(sopen)) in
                     let '(x3, o3) := c_drained x2 in (x3, KSend n :: o ++ o3)
      end
  | KDisc => c__close x
  | KWrite n =>      (* fixes/C12_client_late_write.patch: a write to the closed socket is dropped *)
      if x.(sopen) then (cmk x.(conn) (x.(pending) ++ [n]) x.(closeflag) x.(sopen), []) else (x, [])
  | KClose => c_close x
  end.

Fixpoint crun_from (x : cst) (acc : list cev) (h : list cstim) : cst * list cev :=
  match h with [] => (x, acc) | i :: t => let '(x', o) := cstep x i in crun_from x' (acc ++ o) t end.
Definition crun (h : list cstim) := crun_from cinit [] h.

Definition is_kconn (e : cev) := match e with KConnected => true | _ => false end.
Definition is_kdisc (e : cev) := match e with KDisconnected => true | _ => false end.
Definition is_ksend (e : cev) := match e with KSend _ => true | _ => false end.
(* "after disconnected": not connected, socket closed, nothing buffered, no deferred close *)
Definition cdown (x : cst) : Prop := x.(conn) = false /\ x.(pending) = [] /\ x.(closeflag) = false.
(* API precondition: connect is not requested while connected *)
Fixpoint connect_when_down (x : cst) (h : list cstim) : bool :=
  match h with
  | [] => true
  | i :: t => (match i with KConnect _ _ => negb x.(conn) | _ => true end) && connect_when_down (fst (cstep x i)) t
  end.
