(* Encoders of KTasks results into Lib/Obs.T for the correspondence check. *)
From Coq Require Import List ZArith NArith Bool.
From Circ Require Import Lib.Obs Model.KTasks.
Import ListNotations.
Open Scope Z_scope.

Definition Tz (z : Z) : T := Tn z.
Definition Tzs (l : list Z) : T := Tl (map Tn l).

Definition enc_lent (x : lent) : T :=
  match x with
  | LPlain tok hi => Tl [Tn 0; Tnat tok; Tnat hi]
  | LStep tok hi k => Tl [Tn 1; Tnat tok; Tnat hi; Tnat k]
  | LRes tok hi k _ vals err => Tl [Tn 2; Tnat tok; Tnat hi; Tnat k; Tzs vals; Tbool err]
  | LTmo tok hi k => Tl [Tn 3; Tnat tok; Tnat hi; Tnat k]
  | LEnd tok hi => Tl [Tn 4; Tnat tok; Tnat hi]
  | LFire tok nm by_ how => Tl [Tn 5; Tnat tok; Tnat nm; Tnat by_; Tnat how]
  | LSucc tok vals err => Tl [Tn 6; Tnat tok; Tzs vals; Tbool err]
  | LTick t => Tl [Tn 7; Tnat t]
  | LTmoUncaught tok hi k => Tl [Tn 8; Tnat tok; Tnat hi; Tnat k]
  | LDisp tok => Tl [Tn 10; Tnat tok]
  end.

Definition root_toks (l : list lent) : list nat :=
  flat_map (fun x => match x with LFire tok _ O _ => [tok] | _ => [] end) l.

Definition enc_root (w : world) (tok : nat) : T :=
  match nth_error (evs w) tok with
  | Some e => Tl [Tnat tok; Tzs (e_vals e); Tbool (e_errors e)]
  | None => Tl []
  end.

Definition count_th (f : th -> bool) (w : world) : T := Tnat (length (filter f (ths w))).

Definition enc_world (w : world) : T :=
  let l := rev (wlog w) in
  Tl [ Tlist enc_lent l;
       Tlist (enc_root w) (root_toks l);
       Tl [ count_th (fun h => match h with THEv _ => true | _ => false end) w;
            count_th (fun h => match h with THDone _ => true | _ => false end) w;
            count_th (fun h => match h with THTick _ => true | _ => false end) w;
            Tnat (length (tasks w)); Tnat (length (queue w));
            Tnat (length (filter (fun e => negb (e_waiting e =? 0)) (evs w)));   (* events still holding waitingHandlers *)
            Tbool (bad w) ] ].

Definition obs_run (p : program) (gen_ev : bool) (scheds : list (list key)) (roots : list (nat * nat)) (n : nat) : T :=
  enc_world (run p gen_ev scheds roots n).

(* The observable of one case has some 10^3 nodes; elaborating the expected value as a Coq literal dominated the
   run time, so both sides are reduced to two polynomial hashes (multiplier 31 mod 2^40, multiplier 37
   mod 2^31; odd multipliers, so a difference in a single position always shows) and the length of the same
   flattening: Tn z -> z+3, Tl l -> 1, items, 0.  The harness computes the same two numbers from the
   implementation's observable. *)
Fixpoint flatT (t : T) : list Z :=
  match t with
  | Tn z => [z + 3]
  | Tl l => 1 :: (fix go (l : list T) : list Z := match l with [] => [0] | x :: r => flatT x ++ go r end) l
  end.

Definition M1 : Z := 1099511627775.   (* 2^40 - 1 *)
Definition M2 : Z := 2147483647.      (* 2^31 - 1 *)
Definition hash_with (M B : Z) (l : list Z) : Z := fold_left (fun h x => Z.land (B * h + x) M) l 7.

Definition obs_hash (t : T) : T :=
  let l := flatT t in Tl [Tn (hash_with M1 31 l); Tn (hash_with M2 37 l); Tnat (length l)].

Definition hash_run (p : program) (gen_ev : bool) (scheds : list (list key)) (roots : list (nat * nat)) (n : nat) : T :=
  obs_hash (obs_run p gen_ev scheds roots n).
