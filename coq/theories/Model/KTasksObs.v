(* Encoders of KTasks results into Lib/Obs.T for the correspondence check. *)
From Coq Require Import List ZArith NArith Bool.
From Circ Require Import Lib.Obs Model.KTasks.
Import ListNotations.
Open Scope Z_scope.

Definition Tz (z : Z) : T := Tn z.
Definition Tzs (l : list Z) : T := Tl (map Tn l).

Definition enc_lent (x : lent) : T :=
  match x with
  | LPlain tok hi => Tl [Tn 0; Tnat tok; Tnat hi]
  | LStep tok hi k => Tl [Tn 1; Tnat tok; Tnat hi; Tnat k]
  | LRes tok hi k vals err => Tl [Tn 2; Tnat tok; Tnat hi; Tnat k; Tzs vals; Tbool err]
  | LTmo tok hi k => Tl [Tn 3; Tnat tok; Tnat hi; Tnat k]
  | LEnd tok hi => Tl [Tn 4; Tnat tok; Tnat hi]
  | LFire tok nm by_ how => Tl [Tn 5; Tnat tok; Tnat nm; Tnat by_; Tnat how]
  | LSucc tok vals err => Tl [Tn 6; Tnat tok; Tzs vals; Tbool err]
  | LTick t => Tl [Tn 7; Tnat t]
  | LTmoUncaught tok hi k => Tl [Tn 8; Tnat tok; Tnat hi; Tnat k]
  | LDisp tok => Tl [Tn 10; Tnat tok]
  end.

Definition root_toks (l : list lent) : list nat :=
  flat_map (fun x => match x with LFire tok _ O _ => [tok] | _ => [] end) l.

Definition enc_root (w : world) (tok : nat) : T :=
  match nth_error (evs w) tok with
  | Some e => Tl [Tnat tok; Tzs (e_vals e); Tbool (e_errors e)]
  | None => Tl []
  end.

Definition count_th (f : th -> bool) (w : world) : T := Tnat (length (filter f (ths w))).

Definition enc_world (w : world) : T :=
  let l := rev (wlog w) in
  Tl [ Tlist enc_lent l;
       Tlist (enc_root w) (root_toks l);
       Tl [ count_th (fun h => match h with THEv _ => true | _ => false end) w;
            count_th (fun h => match h with THDone _ => true | _ => false end) w;
            count_th (fun h => match h with THTick _ => true | _ => false end) w;
            Tnat (length (tasks w)); Tnat (length (queue w)); Tbool (bad w) ] ].

Definition oz (b : bool) (z : Z) : option Z := if b then Some z else None.

Definition obs_run (p : program) (gen_ev : bool) (rots : list nat) (roots : list (nat * nat)) (n : nat) : T :=
  enc_world (run p gen_ev rots roots n).
