(* Executable model of handler lookup and the handler cache of
   circuits/core/manager.py: addHandler, removeHandler, getHandlers, the cache
   protocol of _dispatcher (clear when dirty, lookup by (name, channel), rebuild),
   and of which root's dirty flag register / unregister touch
   (registerChild, unregisterChild, unregister, _do_prepare_unregister_complete).

   Abstraction: the shape of a tree does not matter for delivery (getHandlers
   unions over the whole tree), so the forest is represented by its partition
   into trees: every component stores the id of its root ([rootf], the code's
   [root] attribute).  That the real parent/child links agree with the root
   attribute is property C07; here it is validated by the correspondence run. *)
From Coq Require Import List ZArith Arith Bool.
Import ListNotations.

Inductive chan := CStar | CStr (n : nat) | CComp (c : nat).

Definition chan_eqb (a b : chan) : bool :=
  match a, b with
  | CStar, CStar => true
  | CStr x, CStr y => Nat.eqb x y
  | CComp x, CComp y => Nat.eqb x y
  | _, _ => false
  end.

(* static declaration of a handler (attributes set by @handler) *)
Record hdecl := { hid : nat; hnames : list nat; hchan : option chan; hprio : Z }.

(* keys of Manager._handlers / Manager._globals *)
Inductive key := KGlobal | KAll | KName (n : nat).
Definition key_eqb (a b : key) : bool :=
  match a, b with
  | KGlobal, KGlobal | KAll, KAll => true
  | KName x, KName y => Nat.eqb x y
  | _, _ => false
  end.

Record comp := { cid : nat; cchan : chan;
                 reg : list (key * hdecl);          (* _handlers and _globals as a relation *)
                 rootf : nat;                       (* id of self.root *)
                 dirty : bool;                      (* _cache_needs_refresh *)
                 cache : list ((nat * chan) * list nat);   (* _cache: (name, channel) -> handler ids *)
                 queue : list (nat * nat * chan) }.  (* test events (id, name, channel) queued on this (root) component *)

Definition world := list comp.

Definition set_reg (c : comp) r := {| cid := cid c; cchan := cchan c; reg := r; rootf := rootf c;
  dirty := dirty c; cache := cache c; queue := queue c |}.
Definition set_rootf (c : comp) r := {| cid := cid c; cchan := cchan c; reg := reg c; rootf := r;
  dirty := dirty c; cache := cache c; queue := queue c |}.
Definition set_dirty (c : comp) d := {| cid := cid c; cchan := cchan c; reg := reg c; rootf := rootf c;
  dirty := d; cache := cache c; queue := queue c |}.
Definition set_cache (c : comp) ca := {| cid := cid c; cchan := cchan c; reg := reg c; rootf := rootf c;
  dirty := false; cache := ca; queue := queue c |}.
Definition set_queue (c : comp) q := {| cid := cid c; cchan := cchan c; reg := reg c; rootf := rootf c;
  dirty := dirty c; cache := cache c; queue := q |}.

Definition on (c : nat) (f : comp -> comp) (w : world) : world :=
  map (fun x => if Nat.eqb (cid x) c then f x else x) w.

Definition find_comp (w : world) (c : nat) : option comp :=
  find (fun x => Nat.eqb (cid x) c) w.

Definition root_of (w : world) (c : nat) : nat :=
  match find_comp w c with Some x => rootf x | None => c end.

(* ---- addHandler / removeHandler ---- *)
Definition has (r : list (key * hdecl)) (k : key) (h : nat) : bool :=
  existsb (fun e => key_eqb (fst e) k && Nat.eqb (hid (snd e)) h) r.

Definition add1 (k : key) (h : hdecl) (r : list (key * hdecl)) :=
  if has r k (hid h) then r else (k, h) :: r.
Definition del1 (k : key) (h : nat) (r : list (key * hdecl)) :=
  filter (fun e => negb (key_eqb (fst e) k && Nat.eqb (hid (snd e)) h)) r.

Definition is_star (o : option chan) : bool :=
  match o with Some CStar => true | _ => false end.

Definition add_handler_reg (h : hdecl) (r : list (key * hdecl)) :=
  match hnames h with
  | [] => if is_star (hchan h) then add1 KGlobal h r else add1 KAll h r
  | ns => fold_right (fun n acc => add1 (KName n) h acc) r ns
  end.

(* removeHandler(method, event): [ev = None] = all declared names.
   None = KeyError (the name is not registered) *)
Definition remove_keys (h : hdecl) (ev : option nat) : list key :=
  match ev with
  | Some n => [KName n]
  | None => match hnames h with
            | [] => if is_star (hchan h) then [KGlobal] else [KAll]
            | ns => map KName ns
            end
  end.

Fixpoint remove_handler_reg (ks : list key) (h : nat) (r : list (key * hdecl))
  : option (list (key * hdecl)) :=
  match ks with
  | [] => Some r
  | k :: ks' =>
      if has r k h || key_eqb k KGlobal      (* _globals.discard never raises *)
      then remove_handler_reg ks' h (del1 k h r)
      else None
  end.

(* ---- getHandlers ---- *)
Definition hchan_eff (c : comp) (h : hdecl) : chan :=
  match hchan h with Some x => x | None => cchan c end.

(* channel == '*' or handler_channel in ('*', channel) or channel is self *)
Definition chan_match (c : comp) (ch : chan) (h : hdecl) : bool :=
  chan_eqb ch CStar || chan_eqb (hchan_eff c h) CStar || chan_eqb (hchan_eff c h) ch
  || chan_eqb ch (CComp (cid c)).

Definition entry_match (c : comp) (n : nat) (ch : chan) (e : key * hdecl) : bool :=
  match fst e with
  | KGlobal => true
  | KAll => chan_match c ch (snd e)
  | KName m => Nat.eqb m n && chan_match c ch (snd e)
  end.

Definition local (n : nat) (ch : chan) (c : comp) : list nat :=
  map (fun e => hid (snd e)) (filter (entry_match c n ch) (reg c)).

Fixpoint dedup (l : list nat) : list nat :=
  match l with
  | [] => []
  | x :: r => if existsb (Nat.eqb x) r then dedup r else x :: dedup r
  end.

Definition members (w : world) (r : nat) : list comp :=
  filter (fun c => Nat.eqb (rootf c) r) w.

Definition get_handlers (w : world) (r : nat) (n : nat) (ch : chan) : list nat :=
  dedup (flat_map (local n ch) (members w r)).

(* ---- _dispatcher's cache protocol, for the root component r ---- *)
Definition kc_eqb (a b : nat * chan) : bool := Nat.eqb (fst a) (fst b) && chan_eqb (snd a) (snd b).

Fixpoint lookup (k : nat * chan) (ca : list ((nat * chan) * list nat)) : option (list nat) :=
  match ca with
  | [] => None
  | (k', v) :: r => if kc_eqb k k' then Some v else lookup k r
  end.

Definition dispatch (w : world) (r : nat) (n : nat) (ch : chan) : list nat * world :=
  match find_comp w r with
  | None => ([], w)
  | Some c =>
      let ca := if dirty c then [] else cache c in
      match lookup (n, ch) ca with
      | Some l => (l, on r (fun x => set_cache x ca) w)
      | None => let l := get_handlers w r n ch in
                (l, on r (fun x => set_cache x (((n, ch), l) :: ca)) w)
      end
  end.



(* ---- operations ---- *)
Inductive op :=
| OAdd (c : nat) (h : hdecl)
| ORemove (c : nat) (h : hdecl) (ev : option nat)
| ORegister (c p : nat)                 (* c is a root, p outside c's tree *)
| ODetach (c : nat) (sub : list nat)    (* unregister c and run it to completion; sub = c's subtree *)
| OFire (x : nat) (e : nat) (n : nat) (ch : chan) (* x.fire(ev, ch): queued on x's root; e = event id *)
| OFlush (r : nat).                     (* r.flush() until r's queue of test events is empty *)

(* one delivery: root, name, channel, handler ids invoked, and (ghost) the
   world as it is at the moment of the dispatch *)
Record delivery := { d_eid : nat; d_root : nat; d_name : nat; d_chan : chan; d_invoked : list nat; d_world : world }.

Fixpoint flush_queue (w : world) (r : nat) (q : list (nat * nat * chan)) : list delivery * world :=
  match q with
  | [] => ([], w)
  | (e, n, ch) :: q' =>
      let '(l, w1) := dispatch w r n ch in
      let '(ds, w2) := flush_queue w1 r q' in
      ({| d_eid := e; d_root := r; d_name := n; d_chan := ch; d_invoked := l; d_world := w |} :: ds, w2)
  end.

Definition flush (w : world) (r : nat) : list delivery * world :=
  match find_comp w r with
  | None => ([], w)
  | Some c => flush_queue (on r (fun x => set_queue x []) w) r (queue c)
  end.

Definition mem (x : nat) (l : list nat) : bool := existsb (Nat.eqb x) l.

Inductive outcome := Ok (ds : list delivery) (w : world) | KeyErr (w : world) | BadOp.

Definition step (w : world) (o : op) : outcome :=
  match o with
  | OAdd c h =>
      Ok [] (on (root_of w c) (fun x => set_dirty x true)
               (on c (fun x => set_reg x (add_handler_reg h (reg x))) w))
  | ORemove c h ev =>
      match find_comp w c with
      | None => BadOp
      | Some x =>
          match remove_handler_reg (remove_keys h ev) (hid h) (reg x) with
          | None => KeyErr w
          | Some r' => Ok [] (on (root_of w c) (fun y => set_dirty y true)
                               (on c (fun y => set_reg y r') w))
          end
      end
  | ORegister c p =>
      if negb (Nat.eqb (root_of w c) c) || Nat.eqb (root_of w p) c then BadOp else
      match find_comp w c, find_comp w p with
      | Some x, Some _ =>
          let r1 := root_of w p in
          let w1 := map (fun y => if Nat.eqb (rootf y) c then set_rootf y r1 else y) w in
          let w2 := on c (fun y => set_queue y []) w1 in
          Ok [] (on r1 (fun y => set_dirty (set_queue y (queue y ++ queue x)) true) w2)
      | _, _ => BadOp
      end
  | ODetach c sub =>
      let r0 := root_of w c in
      if Nat.eqb r0 c || negb (mem c sub) || mem r0 sub || negb (forallb (fun x => Nat.eqb (root_of w x) r0) sub)
      then BadOp else
      let '(ds, w1) := flush w r0 in
      let w2 := map (fun y => if mem (cid y) sub then set_rootf y c else y) w1 in
      Ok ds (on c (fun y => set_dirty y true) (on r0 (fun y => set_dirty y true) w2))
  | OFire x e n ch =>
      Ok [] (on (root_of w x) (fun y => set_queue y (queue y ++ [(e, n, ch)])) w)
  | OFlush r =>
      if Nat.eqb (root_of w r) r then let '(ds, w1) := flush w r in Ok ds w1 else BadOp
  end.

(* run a history; stops at the first operation the API rejects
   (status: 0 = completed, 1 = KeyError from removeHandler, 2 = precondition of the operation violated) *)
Fixpoint run (w : world) (ops : list op) : list delivery * world * nat :=
  match ops with
  | [] => ([], w, 0)
  | o :: r =>
      match step w o with
      | Ok ds w1 => let '(ds', w2, st) := run w1 r in (ds ++ ds', w2, st)
      | KeyErr w1 => ([], w1, 1)
      | BadOp => ([], w, 2)
      end
  end.

Definition init_comp (c : nat) (ch : chan) : comp :=
  {| cid := c; cchan := ch; reg := []; rootf := c; dirty := false; cache := []; queue := [] |}.

(* initial worlds: fresh, unrelated components *)
Definition fresh_world (cs : list (nat * chan)) : world := map (fun c => init_comp (fst c) (snd c)) cs.
