(* Executable model of circuits/protocols/irc/message.py (Message.__init__,
   _check_args, __str__) and of parsemsg in irc/utils.py up to, not
   including, parseprefix.  Strings are lists of code points (N). *)
From Coq Require Import List NArith Bool.
Import ListNotations.
Open Scope N_scope.

Definition SP : N := 32.
Definition COLON : N := 58.

Definition mem (c : N) (s : list N) : bool := existsb (N.eqb c) s.

Record msg := { command : list N;            (* str(command) *)
                prefix : option (list N);
                args : list (list N) }.      (* after dropping None, decoded *)

(* '\r', '\n', '\0' *)
Definition forbidden (c : N) : bool := (c =? 13) || (c =? 10) || (c =? 0).

Definition head_parts (m : msg) : list (list N) :=
  command m :: match prefix m with Some p => [p] | None => [] end.

(* _check_args: true = accepted *)
Definition check_args (m : msg) : bool :=
  negb (existsb (mem SP) (removelast (args m)))
  && negb (existsb (mem SP) (head_parts m))
  && negb (existsb (existsb forbidden) (head_parts m ++ args m)).

Fixpoint join (sep : list N) (l : list (list N)) : list N :=
  match l with
  | [] => []
  | [x] => x
  | x :: r => x ++ sep ++ join sep r
  end.

Definition starts_colon (s : list N) : bool :=
  match s with c :: _ => c =? COLON | [] => false end.

(* the rewrite of the last argument in __str__ *)
Fixpoint mark_last (l : list (list N)) : list (list N) :=
  match l with
  | [] => []
  | [x] => if mem SP x && negb (starts_colon x) then [COLON :: x] else [x]
  | x :: r => x :: mark_last r
  end.

(* str(message); None = Error raised *)
Definition to_str (m : msg) : option (list N) :=
  if check_args m then
    Some ((match prefix m with Some p => COLON :: p ++ [SP] | None => [] end)
          ++ command m ++ [SP] ++ join [SP] (mark_last (args m)) ++ [13; 10])
  else None.

(* ---------- parsemsg ---------- *)

(* str.isspace() code points *)
Definition is_ws (c : N) : bool :=
  ((9 <=? c) && (c <=? 13)) || ((28 <=? c) && (c <=? 32)) || (c =? 133) || (c =? 160)
  || (c =? 5760) || ((8192 <=? c) && (c <=? 8202)) || (c =? 8232) || (c =? 8233)
  || (c =? 8239) || (c =? 8287) || (c =? 12288).

(* s.split(): maximal runs of non-whitespace *)
Fixpoint ws_split_aux (cur : list N) (s : list N) : list (list N) :=
  match s with
  | [] => match cur with [] => [] | _ => [rev cur] end
  | c :: t => if is_ws c
              then match cur with [] => ws_split_aux [] t | _ => rev cur :: ws_split_aux [] t end
              else ws_split_aux (c :: cur) t
  end.
Definition ws_split (s : list N) : list (list N) := ws_split_aux [] s.

(* s.split(' ', 1) when a space exists *)
Fixpoint split_sp (cur : list N) (s : list N) : option (list N * list N) :=
  match s with
  | [] => None
  | c :: t => if c =? SP then Some (rev cur, t) else split_sp (c :: cur) t
  end.

(* s.split(' :', 1) when ' :' occurs *)
Fixpoint split_spcolon (cur : list N) (s : list N) : option (list N * list N) :=
  match s with
  | [] => None
  | c :: t => match t with
              | d :: t' => if (c =? SP) && (d =? COLON) then Some (rev cur, t')
                           else split_spcolon (c :: cur) t
              | [] => None
              end
  end.

Inductive parsed :=
| PCrash                                              (* ValueError from tuple unpacking *)
| POk (pfx : list N) (cmd : option (list N)) (a : list (list N)).

Definition parsemsg (s : list N) : parsed :=
  let after_prefix :=
    match s with
    | c :: t => if c =? COLON then
                  match split_sp [] t with
                  | Some (p, r) => Some (p, r)
                  | None => None
                  end
                else Some ([], s)
    | [] => Some ([], s)
    end in
  match after_prefix with
  | None => PCrash
  | Some (p, r) =>
      let a := match split_spcolon [] r with
               | Some (front, trailing) => ws_split front ++ [trailing]
               | None => ws_split r
               end in
      match a with
      | [] => POk p None []
      | c :: rest => POk p (Some c) rest
      end
  end.
