(* Focused layer model of ONE wait state of Manager.waitEvent (circuits/core/manager.py) with several awaited
   channels, as repaired by /repo commit 2bc99ea: per awaited channel one temporary handler for <name> and one for
   <name>_done (function objects of their own), ONE generate_events tick handler, the _State fields run / flag /
   event / timeout, and the two tasks the wait can register (its wait generator, its pending TimeoutError).
   Steps are what the event loop can do to it: dispatch of an event named <name> on a set of channels, dispatch of a
   <name>_done, a generate_events dispatch, and one pass over the task set.  The environment is arbitrary: the
   theorems quantify over every sequence of steps.  removeHandler of an absent handler (KeyError) sets [w_crash].
   No proofs in this file. *)
From Coq Require Import List ZArith Bool Arith.
Import ListNotations.
Open Scope Z_scope.

Inductive chan := CStar | CNamed (n : nat).

Definition chan_eqb (a b : chan) : bool :=
  match a, b with CStar, CStar => true | CNamed x, CNamed y => Nat.eqb x y | _, _ => false end.

(* Manager.getHandlers: a handler on channel hc is delivered an event dispatched on channel dc iff
   dc == '*' or hc in ('*', dc) *)
Definition cmatch (hc dc : chan) : bool :=
  match hc, dc with CStar, _ => true | _, CStar => true | CNamed x, CNamed y => Nat.eqb x y end.

Record wstate := {
  w_chans : list chan;        (* the awaited channels, as given to wait()/call() *)
  w_obj : option nat;         (* wait on an event object (call, wait(obj)) or by name *)
  w_ev : list chan;           (* installed <name> temporaries, one per channel *)
  w_done : list chan;         (* installed <name>_done temporaries *)
  w_tick : bool;              (* the generate_events temporary *)
  w_run : bool; w_flag : bool; w_event : option nat; w_timeout : Z;      (* _State *)
  w_task_wait : bool;         (* the wait generator is a task (registered by _on_done) *)
  w_task_tmo : bool;          (* the one-shot TimeoutError task (registered by _on_tick) *)
  w_resumed : nat;            (* times the caller was resumed with the result *)
  w_thrown : nat;             (* times TimeoutError was thrown into the caller *)
  w_crash : bool;
  w_tmo0 : Z;                 (* ghost: the timeout given *)
  w_passes : nat;             (* ghost: passes over the task set so far *)
  w_when : nat }.             (* ghost: the pass in which the caller was resumed *)

Definition init (cs : list chan) (obj : option nat) (tmo : Z) : wstate :=
  {| w_chans := cs; w_obj := obj; w_ev := cs; w_done := cs; w_tick := 0 <=? tmo;
     w_run := false; w_flag := false; w_event := None; w_timeout := tmo;
     w_task_wait := false; w_task_tmo := false; w_resumed := O; w_thrown := O; w_crash := false;
     w_tmo0 := tmo; w_passes := O; w_when := O |}.

Definition chans_eqb (a b : list chan) : bool :=
  Nat.eqb (length a) (length b) && forallb (fun p => chan_eqb (fst p) (snd p)) (combine a b).

Definition crash (s : wstate) : wstate :=
  {| w_chans := w_chans s; w_obj := w_obj s; w_ev := w_ev s; w_done := w_done s; w_tick := w_tick s; w_run := w_run s;
     w_flag := w_flag s; w_event := w_event s; w_timeout := w_timeout s; w_task_wait := w_task_wait s; w_task_tmo := w_task_tmo s;
     w_resumed := w_resumed s; w_thrown := w_thrown s; w_crash := true; w_tmo0 := w_tmo0 s; w_passes := w_passes s; w_when := w_when s |}.

Definition obj_ok (o : option nat) (eid : nat) : bool := match o with None => true | Some x => Nat.eqb x eid end.

(* _on_event: all <name> temporaries are removed (one removeHandler per channel) *)
Definition on_event (eid : nat) (s : wstate) : wstate :=
  if negb (w_run s) && obj_ok (w_obj s) eid then
    if chans_eqb (w_ev s) (w_chans s) then
      {| w_chans := w_chans s; w_obj := w_obj s; w_ev := []; w_done := w_done s; w_tick := w_tick s; w_run := true;
         w_flag := w_flag s; w_event := Some eid; w_timeout := w_timeout s; w_task_wait := w_task_wait s; w_task_tmo := w_task_tmo s;
         w_resumed := w_resumed s; w_thrown := w_thrown s; w_crash := w_crash s; w_tmo0 := w_tmo0 s; w_passes := w_passes s; w_when := w_when s |}
    else crash s
  else s.

(* _on_done *)
Definition on_done (eid : nat) (s : wstate) : wstate :=
  if match w_event s with Some e => Nat.eqb e eid | None => false end && negb (w_flag s) then
    let tick_ok := if 0 <=? w_timeout s then w_tick s else true in
    {| w_chans := w_chans s; w_obj := w_obj s; w_ev := w_ev s; w_done := w_done s;
       w_tick := if 0 <=? w_timeout s then false else w_tick s; w_run := w_run s;
       w_flag := true; w_event := w_event s; w_timeout := w_timeout s; w_task_wait := true; w_task_tmo := w_task_tmo s;
       w_resumed := w_resumed s; w_thrown := w_thrown s; w_crash := w_crash s || negb tick_ok; w_tmo0 := w_tmo0 s;
       w_passes := w_passes s; w_when := w_when s |}
  else s.

(* _on_tick *)
Definition on_tick (s : wstate) : wstate :=
  if w_timeout s =? 0 then
    let ev_ok := if w_run s then true else chans_eqb (w_ev s) (w_chans s) in
    let done_ok := chans_eqb (w_done s) (w_chans s) in
    {| w_chans := w_chans s; w_obj := w_obj s; w_ev := if w_run s then w_ev s else []; w_done := []; w_tick := false;
       w_run := w_run s; w_flag := w_flag s; w_event := w_event s; w_timeout := w_timeout s; w_task_wait := w_task_wait s;
       w_task_tmo := true; w_resumed := w_resumed s; w_thrown := w_thrown s;
       w_crash := w_crash s || negb ev_ok || negb done_ok; w_tmo0 := w_tmo0 s; w_passes := w_passes s; w_when := w_when s |}
  else if 0 <? w_timeout s then
    {| w_chans := w_chans s; w_obj := w_obj s; w_ev := w_ev s; w_done := w_done s; w_tick := w_tick s; w_run := w_run s;
       w_flag := w_flag s; w_event := w_event s; w_timeout := w_timeout s - 1; w_task_wait := w_task_wait s; w_task_tmo := w_task_tmo s;
       w_resumed := w_resumed s; w_thrown := w_thrown s; w_crash := w_crash s; w_tmo0 := w_tmo0 s; w_passes := w_passes s; w_when := w_when s |}
  else s.

(* one pass over the task set: the wait generator removes all <name>_done temporaries and hands the Value of the
   latched event to the caller; the one-shot task throws TimeoutError into the caller *)
Definition run_tasks (s : wstate) : wstate :=
  let p := S (w_passes s) in
  let s1 :=
    if w_task_wait s then
      {| w_chans := w_chans s; w_obj := w_obj s; w_ev := w_ev s; w_done := []; w_tick := w_tick s; w_run := w_run s;
         w_flag := w_flag s; w_event := w_event s; w_timeout := w_timeout s; w_task_wait := false; w_task_tmo := w_task_tmo s;
         w_resumed := S (w_resumed s); w_thrown := w_thrown s;
         w_crash := w_crash s || negb (chans_eqb (w_done s) (w_chans s)); w_tmo0 := w_tmo0 s; w_passes := p; w_when := p |}
    else
      {| w_chans := w_chans s; w_obj := w_obj s; w_ev := w_ev s; w_done := w_done s; w_tick := w_tick s; w_run := w_run s;
         w_flag := w_flag s; w_event := w_event s; w_timeout := w_timeout s; w_task_wait := false; w_task_tmo := w_task_tmo s;
         w_resumed := w_resumed s; w_thrown := w_thrown s; w_crash := w_crash s; w_tmo0 := w_tmo0 s; w_passes := p; w_when := w_when s |} in
  if w_task_tmo s1 then
    {| w_chans := w_chans s1; w_obj := w_obj s1; w_ev := w_ev s1; w_done := w_done s1; w_tick := w_tick s1; w_run := w_run s1;
       w_flag := w_flag s1; w_event := w_event s1; w_timeout := w_timeout s1; w_task_wait := w_task_wait s1; w_task_tmo := false;
       w_resumed := w_resumed s1; w_thrown := S (w_thrown s1); w_crash := w_crash s1; w_tmo0 := w_tmo0 s1; w_passes := p; w_when := p |}
  else s1.

Inductive step :=
| Dispatch (eid : nat) (dcs : list chan)        (* an event named <name> on the channels dcs *)
| DispatchDone (eid : nat) (dcs : list chan)    (* <name>_done of event eid on the event's channels *)
| Tick                                          (* generate_events (fired on '*') *)
| RunTasks.

(* the temporaries an event dispatched on dcs is delivered to (snapshot; one entry per (channel, handler) match) *)
Definition reached (hs dcs : list chan) : list chan := flat_map (fun d => filter (fun h => cmatch h d) hs) dcs.

Definition do_step (s : wstate) (x : step) : wstate :=
  match x with
  | Dispatch eid dcs => fold_left (fun s _ => on_event eid s) (reached (w_ev s) dcs) s
  | DispatchDone eid dcs => fold_left (fun s _ => on_done eid s) (reached (w_done s) dcs) s
  | Tick => if w_tick s then on_tick s else s
  | RunTasks => run_tasks s
  end.

Definition reach (cs : list chan) (obj : option nat) (tmo : Z) (steps : list step) : wstate :=
  fold_left do_step steps (init cs obj tmo).

(* an event dispatched on dcs is on one of the awaited channels *)
Definition awaited (cs dcs : list chan) : bool := existsb (fun d => existsb (fun c => cmatch c d) cs) dcs.
