(* Encoders of Model/HttpRobust.v results into Lib/Obs.T (correspondence check of C14). *)
From Coq Require Import List ZArith NArith Bool.
From Circ Require Import Lib.Obs Model.HttpRobust.
Import ListNotations.

Definition tag_code (t : tag) : Z :=
  match t with TSsl => 1 | TExec => 2 | TErrReq => 3 | TReq => 4 | TInt => 5 | TExcReq => 6 end%Z.

Definition obs_eff (e : eff) : T :=
  match e with
  | EReject k => Tl [Tn 1; TN k]
  | EWrite st (ma, mi) cl hd => Tl [Tn 2; TN st; TN ma; TN mi; Tbool cl; Tbool hd]
  | EClose => Tl [Tn 3]
  | EDispatch => Tl [Tn 4]
  | ECrash => Tl [Tn 9]
  | EOutOfFuel => Tl [Tn 8]
  end.

Definition obs_conn (c : conn) : T :=
  Tl [Tbool (buf c); Tbool (match cli c with Some _ => true | None => false end)].

(* one entry per operation: call sites consulted, effects, state of that socket afterwards *)
Fixpoint obs_ops (secure : bool) (t : tables) (h : list op) : list T :=
  match h with
  | [] => []
  | o :: r =>
      let '(t1, effs) := step secure t o in
      let tags := match o with Read s a => snd (read_conn secure (t s) a) | Disc _ => [] end in
      Tl [Tl (map (fun x => Tn (tag_code x)) tags); Tl (map obs_eff effs); obs_conn (t1 (op_sock o))]
      :: obs_ops secure t1 r
  end.

Definition obs_run (secure : bool) (h : list op) : T := Tl (obs_ops secure empty_tables h).

(* compact constructors for the generated cases *)
Definition mkF (h : bool) (e : option perr) (m : bool) : pflags := {| hc := h; perrno := e; mc := m |}.
Definition mkR (ma mi : N) (hd host te ka : bool) : reqinfo :=
  {| rver := (ma, mi); is_head := hd; has_host := host; te_chunked := te; keepalive := ka |}.
Definition mkA (s : res bool) (x : res pflags) (er : res (version * bool)) (rq : res reqinfo) (cl : res Z)
               (p : res pathans) (xr : res unit) (ap : res N) : answers :=
  {| a_ssl := s; a_exec := x; a_errreq := er; a_req := rq; a_clen := cl; a_path := p; a_excreq := xr; a_app := ap |}.
