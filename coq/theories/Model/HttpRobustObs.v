(* Encoders of Model/HttpRobust.v results into Lib/Obs.T (correspondence check of C14). *)
From Coq Require Import List ZArith NArith Bool.
From Circ Require Import Lib.Obs Model.HttpRobust.
Import ListNotations.

Definition tag_code (t : tag) : Z :=
  match t with TSsl => 1 | TExec => 2 | TErrReq => 3 | TReq => 4 | TInt => 5 | TExcReq => 6 end%Z.

Definition obs_eff (e : eff) : T :=
  match e with
  | EReject k => Tl [Tn 1; TN k]
  (* last component: the body is exactly as long as announced (Content-Length, chunked framing, or none for HEAD);
     nothing more is claimed about an error page *)
  | EWrite st (ma, mi) cl hd => Tl [Tn 2; TN st; TN ma; TN mi; Tbool cl; Tbool hd; Tbool true]
  | EClose => Tl [Tn 3]
  | EDispatch => Tl [Tn 4]
  | ECrash => Tl [Tn 9]
  | EOutOfFuel => Tl [Tn 8]
  end.

Definition obs_conn (c : conn) : T :=
  Tl [Tbool (buf c); Tbool (match cli c with Some _ => true | None => false end)].

(* one entry per operation: call sites consulted, effects, state of that socket afterwards *)
Fixpoint obs_ops (secure : bool) (t : tables) (h : list op) : list T :=
  match h with
  | [] => []
  | o :: r =>
      let '(t1, effs) := step secure t o in
      let tags := match o with Read s a => snd (read_conn secure (t s) a) | Disc _ => [] end in
      Tl [Tl (map (fun x => Tn (tag_code x)) tags); Tl (map obs_eff effs); obs_conn (t1 (op_sock o))]
      :: obs_ops secure t1 r
  end.

Definition obs_run (secure : bool) (h : list op) : T := Tl (obs_ops secure empty_tables h).

(* compact constructors for the generated cases *)
Definition mkF (h : bool) (e : option perr) (m : bool) : pflags := {| hc := h; perrno := e; mc := m |}.
Definition mkR (ma mi : N) (hd host hctl te ka : bool) : reqinfo :=
  {| rver := (ma, mi); is_head := hd; has_host := host; host_ctl := hctl; te_chunked := te; keepalive := ka |}.
Definition mkA (s : res bool) (x : res pflags) (er : res (version * bool)) (rq : res reqinfo) (cl : res Z)
               (p : res pathans) (xr : res unit) (ap : res (N * bool)) : answers :=
  {| a_ssl := s; a_exec := x; a_errreq := er; a_req := rq; a_clen := cl; a_path := p; a_excreq := xr; a_app := ap |}.

(* the parser's decision about the head of a request; [impl] is what the real parser decided, returned
   unchanged where the model declares the input outside its concrete layer *)
Definition verdict_code (v : verdict) (impl : Z) : Z :=
  match v with
  | NeedMore => 0
  | Bad BadFirstLine => 1
  | Bad InvalidHeader => 2
  | Bad InvalidChunk => 4
  | HeadersOk => 3
  | Unmodelled => impl
  end%Z.
Definition obs_classify (bs : list N) (impl : Z) : T := Tl [Tn (verdict_code (classify bs) impl)].
(* 1 when the verdict is definite *)
Definition obs_definite (bs : list N) : T :=
  Tn (match classify bs with Unmodelled => 0 | _ => 1 end)%Z.

(* bursts: the cascades of different reads interleave in the real loop, so effects are compared per socket as
   multisets: each effect becomes one integer key, keys are sorted *)
Definition eff_key (e : eff) : Z :=
  match e with
  | EReject k => 1000000 + Z.of_N k
  | EWrite st (ma, mi) cl hd =>
      let ver := if (ma =? 1)%N && (mi =? 0)%N then 0 else if (ma =? 1)%N && (mi =? 1)%N then 1 else 2 in
      2000000 + ((Z.of_N st * 10 + ver) * 8 + (if cl then 4 else 0) + (if hd then 2 else 0) + 1)
  | EClose => 3000000
  | EDispatch => 4000000
  | ECrash => 9000000
  | EOutOfFuel => 8000000
  end%Z.
Fixpoint zinsert (x : Z) (l : list Z) : list Z :=
  match l with [] => [x] | y :: r => if (x <=? y)%Z then x :: l else y :: zinsert x r end.
Definition zsort (l : list Z) : list Z := fold_right zinsert [] l.

(* per read (queue order) the call sites consulted by _on_read ++ by its cascade; per listed socket the sorted
   effect keys and the final state *)
Definition obs_burst (secure : bool) (h : list op) (socks : list nat) : T :=
  let '(t1, ps, tg1) := phase1 secure empty_tables h in
  let '(t2, es, tg2) := phase2 t1 ps in
  Tl [Tl (map (fun '(x, y) => Tl (map (fun z => Tn (tag_code z)) (x ++ y))) (combine tg1 tg2));
      Tl (map (fun s => Tl (map Tn (zsort (map eff_key
            (concat (map snd (filter (fun '(s', _) => Nat.eqb s' s) es))))))) socks);
      Tl (map (fun s => obs_conn (t2 s)) socks)].
