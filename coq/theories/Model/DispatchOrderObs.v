(* Encoders of the dispatch model's result into Obs.T for the correspondence check (C02).
   Only what the implementation run can observe is encoded: fire(), handler invocation with
   handler invocation with nesting depth, stop(), generator return, raise, flush() entry. *)


From Coq Require Import List ZArith Arith.
From Circ Require Import Lib.Obs Model.DispatchOrder.
Import ListNotations.

(* one log entry = one integer: tag + 16 * (a + 1024 * (b + 1024 * c)); keeps the literals of the
   correspondence file small (ids, handler ids, names, depths and key + 1000 are all < 1024) *)
Definition pack (tag : Z) (a b c : Z) : T := Tn (tag + 16 * (a + 1024 * (b + 1024 * c)))%Z.
Definition zn (n : nat) : Z := Z.of_nat n.

(* the harness' dispatch observer is an ordinary handler (id 999, priority 1000, empty body) that the harness
   puts into the handler table of every event name; its invocation is what the implementation run sees of a
   dispatch *)
Definition OBS : nat := 999.
Definition enc_tr (e : tr Z) : list T :=
  match e with
  | TFire x => [pack (match imode x with MNormal => 0 | MCancel => 11 | MPreStop => 12 end)
                     (zn (ictr x)) (zn (iname x)) (ikey x + 1000)]
  | TInv e h d => if Nat.eqb h OBS then [pack 6 (zn e) 0 0] else [pack 1 (zn e) (zn h) (zn d)]
  | TStop e h => [pack 2 (zn e) (zn h) 0]
  | TFlushB => [pack 4 0 0 0]
  | TGen e h => [pack 9 (zn e) (zn h) 0]
  | TRaise e h => [pack 10 (zn e) (zn h) 0]
  (* handler return / flush return are implied by the depth field of the following TInv entries and by
     the position of the other entries; TDisp / TSnap / TDone are ghost entries *)
  | TRet _ _ | TFlushE | TSnap | TDone _ | TDisp _ => []
  end.

(* handler table literal: (event name, [(hid, priority, body)]) *)
Definition mkh (h : nat) (p : Z) (b : list (act Z)) : handlerZ := Build_handler h p b.

(* short constructors with Z arguments: keeps the generated case files small *)
Definition chz (l : list Z) : list nat := map Z.to_nat l.
Definition F (n k : Z) (cs : list Z) : act Z := AFire (Z.to_nat n) k MNormal (chz cs).
Definition FC (n k : Z) (cs : list Z) : act Z := AFire (Z.to_nat n) k MCancel (chz cs).
Definition FS (n k : Z) (cs : list Z) : act Z := AFire (Z.to_nat n) k MPreStop (chz cs).
(* raise: the dispatcher fires fs = [<name>_failure on the event's channels;] exception on the root's channel, priority 0 *)
Definition RA (fs : list (Z * list Z)) : act Z :=
  ARaise (map (fun f => (Z.to_nat (fst f), 0%Z, chz (snd f))) fs).
Definition X : act Z := AFlush.
Definition P : act Z := AStop.
Definition G : act Z := AGen.
Definition H (h : Z) (p : Z) (b : list (act Z)) : handlerZ := Build_handler (Z.to_nat h) p b.
Definition R (n : Z) (l : list handlerZ) : nat * list handlerZ := (Z.to_nat n, l).

(* (name, channel) -> handler ids in getHandlers order *)
Definition O (n c : Z) (ids : list Z) : nat * nat * list nat := (Z.to_nat n, Z.to_nat c, chz ids).

Definition obs_run (tbl : list (nat * list handlerZ)) (ord : list (nat * nat * list nat)) (fuel : nat) (prog : list (act Z)) : T :=
  let s := runZ tbl ord fuel prog in
  Tl [ Tl (flat_map enc_tr (trace s));
       Tl [Tbool (crashed s); Tnat (length (stack s)); Tnat (length (fifo s) + length (heap s))] ].

(* single-channel convenience: every handler of a name listens on channel c, in table order *)
Definition ord_all (c : nat) (tbl : list (nat * list handlerZ)) : list (nat * nat * list nat) :=
  map (fun r => (fst r, c, map hid (snd r))) tbl.
Definition runZ1 (tbl : list (nat * list handlerZ)) (fuel : nat) (prog : list (act Z)) : state Z :=
  runZ tbl (ord_all 0 tbl) fuel prog.
