(* Encoders of the dispatch model's result into Obs.T for the correspondence check (C02).
   Only what the implementation run can observe is encoded: fire(), handler invocation with
   handler invocation with nesting depth, stop(), generator return, raise, flush() entry. *)


From Coq Require Import List ZArith Arith Bool.
From Circ Require Import Lib.Obs Model.DispatchOrder.
Import ListNotations.

(* one log entry = one integer: tag + 16 * (a + 1024 * (b + 1024 * c)); keeps the literals of the
   correspondence file small (ids, handler ids, names, depths and key + 1000 are all < 1024) *)
Definition pack (tag : Z) (a b c : Z) : T := Tn (tag + 16 * (a + 1024 * (b + 1024 * c)))%Z.
Definition zn (n : nat) : Z := Z.of_nat n.

(* the harness' dispatch observer is an ordinary handler (id 999, priority 1000, empty body) that the harness
   puts into the handler table of every event name; its invocation is what the implementation run sees of a
   dispatch *)
Definition OBS : nat := 999.
Definition enc_tr (e : tr Z) : list T :=
  match e with
  | TFire x => [pack (match imode x with MNormal => 0 | MCancel => 11 | MPreStop => 12 end)
                     (zn (ictr x)) (zn (iname x)) (ikey x + 1000)]
  | TInv e h d => if Nat.eqb h OBS then [pack 6 (zn e) 0 0] else [pack 1 (zn e) (zn h) (zn d)]
  | TStop e h => [pack 2 (zn e) (zn h) 0]
  | TFlushB => [pack 4 0 0 0]
  | TGen e h => [pack 9 (zn e) (zn h) 0]
  | TRaise e h => [pack 10 (zn e) (zn h) 0]
  (* handler return / flush return are implied by the depth field of the following TInv entries and by
     the position of the other entries; TDisp / TSnap / TDone are ghost entries *)
  | TRet _ _ | TFlushE | TSnap | TDone _ | TDisp _ => []
  end.

(* handler table literal: (event name, [(hid, priority, body)]) *)
Definition mkh (h : nat) (p : Z) (b : list (act Z)) : handlerZ := Build_handler h p b.

(* short constructors with Z arguments: keeps the generated case files small *)
Definition chz (l : list Z) : list nat := map Z.to_nat l.
Definition F (n k : Z) (cs : list Z) : act Z := AFire (Z.to_nat n) k MNormal (chz cs).
Definition FC (n k : Z) (cs : list Z) : act Z := AFire (Z.to_nat n) k MCancel (chz cs).
Definition FS (n k : Z) (cs : list Z) : act Z := AFire (Z.to_nat n) k MPreStop (chz cs).
(* raise: the dispatcher fires fs = [<name>_failure on the event's channels;] exception on the root's channel, priority 0 *)
Definition RA (fs : list (Z * list Z)) : act Z :=
  ARaise (map (fun f => (Z.to_nat (fst f), 0%Z, chz (snd f))) fs).
Definition X : act Z := AFlush.
Definition P : act Z := AStop.
Definition G : act Z := AGen.
Definition H (h : Z) (p : Z) (b : list (act Z)) : handlerZ := Build_handler (Z.to_nat h) p b.
Definition R (n : Z) (l : list handlerZ) : nat * list handlerZ := (Z.to_nat n, l).

(* (name, channel) -> handler ids in getHandlers order *)
Definition O (n c : Z) (ids : list Z) : nat * nat * list nat := (Z.to_nat n, Z.to_nat c, chz ids).

Definition obs_run (tbl : list (nat * list handlerZ)) (ord : list (nat * nat * list nat)) (fuel : nat) (prog : list (act Z)) : T :=
  let s := runZ tbl ord fuel prog in
  Tl [ Tl (flat_map enc_tr (trace s));
       Tl [Tbool (crashed s); Tnat (length (stack s)); Tnat (length (fifo s) + length (heap s))] ].

(* single-channel convenience: every handler of a name listens on channel c, in table order *)
Definition ord_all (c : nat) (tbl : list (nat * list handlerZ)) : list (nat * nat * list nat) :=
  map (fun r => (fst r, c, map hid (snd r))) tbl.
Definition runZ1 (tbl : list (nat * list handlerZ)) (fuel : nat) (prog : list (act Z)) : state Z :=
  runZ tbl (ord_all 0 tbl) fuel prog.

(* ---- large bursts (C02: "any number of events").  The program is described compactly and expanded inside
   Coq: event i (i = 0 .. n-1, all on channel 0) has priority cyc[i mod |cyc|] and name 0 ("job"), except that
   the positions listed in [marks] carry a "mark" event (name 1) with the given priority, and, if [urgent] is
   given, event 0 is a "head" event (name 3) whose handler fires an "urgent" event (name 2) with that priority.
   Then [flushes] flush() calls.  The machine that runs it is the one the theorems are about ([runZ]). *)
Fixpoint find_mark (i : Z) (marks : list (Z * Z)) : option Z :=
  match marks with
  | [] => None
  | (p, k) :: r => if Z.eqb p i then Some k else find_mark i r
  end.
Definition burst_event (cyc : list Z) (marks : list (Z * Z)) (head : bool) (i : nat) : act Z :=
  let z := Z.of_nat i in
  match find_mark z marks with
  | Some k => AFire 1 k MNormal [0]
  | None => AFire (if head && Nat.eqb i 0 then 3 else 0) (nth (i mod (length cyc)) cyc 0%Z) MNormal [0]
  end.
Definition burst_prog (n : N) (cyc : list Z) (marks : list (Z * Z)) (urgent : option Z) (flushes : nat) : list (act Z) :=
  map (burst_event cyc marks (match urgent with Some _ => true | None => false end)) (seq 0 (N.to_nat n))
  ++ repeat AFlush flushes.
Definition burst_tbl (urgent : option Z) : list (nat * list handlerZ) :=
  [(0, [Build_handler 0 0%Z []]); (1, [Build_handler 1 0%Z []]); (2, [Build_handler 2 0%Z []]);
   (3, [Build_handler 3 0%Z (match urgent with Some k => [AFire 2 k MNormal [0]] | None => [] end)])].

(* digest of a dispatch order: maximal runs of equal priority whose ids form an arithmetic progression,
   as (priority, first id, step, count) *)
Definition run4 := (Z * Z * Z * Z)%type.
Fixpoint digest_go (cur : option run4) (l : list (Z * Z)) : list run4 :=
  match l with
  | [] => match cur with Some r => [r] | None => [] end
  | (k, i) :: t =>
      match cur with
      | None => digest_go (Some (k, i, 0, 1)%Z) t
      | Some (ck, f, st, c) =>
          if Z.eqb k ck && (Z.eqb c 1 || Z.eqb i (f + st * c))
          then digest_go (Some (ck, f, (if Z.eqb c 1 then i - f else st), c + 1)%Z) t
          else (ck, f, st, c) :: digest_go (Some (k, i, 0, 1)%Z) t
      end
  end.
Definition enc_run (r : run4) : T :=
  match r with (k, f, st, c) => Tl [Tn k; Tn f; Tn st; Tn c] end.
(* number of dispatches done when each flush() returns *)
Fixpoint pass_counts (acc : Z) (t : list (tr Z)) : list T :=
  match t with
  | [] => []
  | TDisp _ :: r => pass_counts (acc + 1) r
  | TFlushE :: r => Tn acc :: pass_counts acc r
  | _ :: r => pass_counts acc r
  end.
Definition obs_burst (n : N) (cyc : list Z) (marks : list (Z * Z)) (urgent : option Z) (flushes : nat) (fuel : N) : T :=
  let tbl := burst_tbl urgent in
  let s := runZ tbl (ord_all 0 tbl) (N.to_nat fuel) (burst_prog n cyc marks urgent flushes) in
  Tl [ Tl (map enc_run (digest_go None (map (fun x => (ikey x, Z.of_nat (ictr x))) (disps (trace s)))));
       Tl (pass_counts 0 (trace s));
       Tl [Tbool (crashed s); Tnat (length (stack s)); Tnat (length (fifo s) + length (heap s))] ].

(* the same observable computed from the specification instead of by running the machine: pass 1 dispatches
   [bucket ks] of the burst (C02_pass_exact: that IS what the machine dispatches), the urgent event fired by the
   head's handler during pass 1 waits for pass 2 (C02_no_overtake).  Used for bursts of thousands of events, where
   the machine (unary counters, trace appends) is too slow to run; for small bursts both are compared
   (Props/C02.v C02_ex_burst_machine_vs_spec and the small burst cases of the correspondence).  Needs flushes >= 2. *)
Fixpoint zins (k : Z) (l : list Z) : list Z :=
  match l with
  | [] => [k]
  | x :: r => if (k <? x)%Z then k :: l else if (k =? x)%Z then l else x :: zins k r
  end.
Definition item_of (a : act Z) (i : nat) : list (item Z) :=
  match a with AFire n k md cs => [Build_item k i n md cs] | _ => [] end.
Definition burst_items (n : N) (cyc : list Z) (marks : list (Z * Z)) (head : bool) : list (item Z) :=
  flat_map (fun i => item_of (burst_event cyc marks head i) i) (seq 0 (N.to_nat n)).
Definition obs_burst_spec (n : N) (cyc : list Z) (marks : list (Z * Z)) (urgent : option Z) (flushes : nat) : T :=
  let head := match urgent with Some _ => true | None => false end in
  let ks := fold_right zins [] (cyc ++ map snd marks) in
  let pass1 := bucket Z.leb ks (burst_items n cyc marks head) in
  let pass2 := match urgent with Some k => [Build_item k (N.to_nat n) 2 MNormal [0]] | None => [] end in
  let c1 := Z.of_N n in
  let c2 := (c1 + Z.of_nat (length pass2))%Z in
  Tl [ Tl (map enc_run (digest_go None (map (fun x => (ikey x, Z.of_nat (ictr x))) (pass1 ++ pass2))));
       Tl (match flushes with 0%nat => [] | S f => Tn c1 :: repeat (Tn c2) f end);
       Tl [Tn 0; Tn 0; Tn 0] ].
