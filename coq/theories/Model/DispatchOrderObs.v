(* Encoders of the dispatch model's result into Obs.T for the correspondence check (C02).
   Only what the implementation run can observe is encoded: fire(), handler invocation with
   nesting depth, stop(), handler return, flush() entry/exit; the ghost entries TSnap /
   TDone are dropped (TDisp is observed by a priority-1000 observer handler). *)
From Coq Require Import List ZArith Arith.
From Circ Require Import Lib.Obs Model.DispatchOrder.
Import ListNotations.

Definition enc_tr (e : tr Z) : list T :=
  match e with
  | TFire x => [Tl [Tn 0; Tnat (ictr x); Tnat (iname x); Tn (ikey x)]]
  | TInv e h d => [Tl [Tn 1; Tnat e; Tnat h; Tnat d]]
  | TStop e h => [Tl [Tn 2; Tnat e; Tnat h]]
  | TRet e h => [Tl [Tn 3; Tnat e; Tnat h]]
  | TFlushB => [Tl [Tn 4]]
  | TFlushE => [Tl [Tn 5]]
  | TDisp x => [Tl [Tn 6; Tnat (ictr x)]]
  | TSnap | TDone _ => []
  end.

(* handler table literal: (event name, [(hid, priority, body)]) *)
Definition mkh (h : nat) (p : Z) (b : list (act Z)) : handlerZ := Build_handler h p b.

Definition obs_run (tbl : list (nat * list handlerZ)) (fuel : nat) (prog : list (act Z)) : T :=
  let s := runZ tbl fuel prog in
  Tl [ Tl (flat_map enc_tr (trace s));
       Tl [Tbool (crashed s); Tnat (length (stack s)); Tnat (length (fifo s) + length (heap s))] ].
