(* Encoders of the NodeProto model's results into Obs.T, and table-backed oracles for json.dumps/loads. *)
From Coq Require Import List ZArith NArith Bool.
From Circ Require Import Lib.Obs Model.NodeProto.
Import ListNotations.

Fixpoint Tj (j : json) : T :=
  match j with
  | JNull => Tl [Tn 0]
  | JBool b => Tl [Tn 1; Tbool b]
  | JInt z => Tl [Tn 2; Tn z]
  | JStr s => Tl [Tn 3; Tb s]
  | JArr l => Tl (Tn 4 :: map Tj l)
  | JObj kv => Tl (Tn 5 :: map (fun p => Tl [Tb (fst p); Tj (snd p)]) kv)
  end.

Definition Tkv (kv : list (list N * json)) : T := Tj (JObj kv).

Definition Tevent (e : event) : T :=
  Tl [Tb (ename e); Tj (JArr (eargs e)); Tkv (ekwargs e); Tj (JArr (echannels e));
      Tbool (esuccess e); Tbool (efailure e); Tbool (enotify e); Tkv (eattrs e)].

Definition Tcall (c : call) : T :=
  Tl [Tbool (c_fin c); Tj (c_val c); Topt Tj (c_err c)].

(* META_EXCLUDE of the repaired code under CPython 3.12 (dir(Event()) + the names added in node/utils.py);
   the harness emits [excl_std] when the running code has exactly this set, the literal set otherwise *)
Definition excl_std : list (list N) :=
  [[95;95;99;108;97;115;115;95;95]%N;
   [95;95;100;101;108;97;116;116;114;95;95]%N;
   [95;95;100;105;99;116;95;95]%N;
   [95;95;100;105;114;95;95]%N;
   [95;95;100;111;99;95;95]%N;
   [95;95;101;113;95;95]%N;
   [95;95;102;111;114;109;97;116;95;95]%N;
   [95;95;103;101;95;95]%N;
   [95;95;103;101;116;97;116;116;114;105;98;117;116;101;95;95]%N;
   [95;95;103;101;116;105;116;101;109;95;95]%N;
   [95;95;103;101;116;115;116;97;116;101;95;95]%N;
   [95;95;103;116;95;95]%N;
   [95;95;104;97;115;104;95;95]%N;
   [95;95;105;110;105;116;95;95]%N;
   [95;95;105;110;105;116;95;115;117;98;99;108;97;115;115;95;95]%N;
   [95;95;108;101;95;95]%N;
   [95;95;108;116;95;95]%N;
   [95;95;109;111;100;117;108;101;95;95]%N;
   [95;95;110;101;95;95]%N;
   [95;95;110;101;119;95;95]%N;
   [95;95;114;101;100;117;99;101;95;95]%N;
   [95;95;114;101;100;117;99;101;95;101;120;95;95]%N;
   [95;95;114;101;112;114;95;95]%N;
   [95;95;115;101;116;97;116;116;114;95;95]%N;
   [95;95;115;101;116;105;116;101;109;95;95]%N;
   [95;95;115;101;116;115;116;97;116;101;95;95]%N;
   [95;95;115;105;122;101;111;102;95;95]%N;
   [95;95;115;116;114;95;95]%N;
   [95;95;115;117;98;99;108;97;115;115;104;111;111;107;95;95]%N;
   [95;95;119;101;97;107;114;101;102;95;95]%N;
   [97;108;101;114;116;95;100;111;110;101]%N;
   [97;114;103;115]%N;
   [99;97;110;99;101;108]%N;
   [99;97;110;99;101;108;108;101;100]%N;
   [99;97;117;115;101]%N;
   [99;104;97;110;110;101;108;115]%N;
   [99;104;105;108;100]%N;
   [99;111;109;112;108;101;116;101]%N;
   [99;111;109;112;108;101;116;101;95;99;104;97;110;110;101;108;115]%N;
   [99;114;101;97;116;101]%N;
   [101;102;102;101;99;116;115]%N;
   [102;97;105;108;117;114;101]%N;
   [104;97;110;100;108;101;114]%N;
   [107;119;97;114;103;115]%N;
   [110;97;109;101]%N;
   [110;111;100;101;95;99;97;108;108;95;105;100]%N;
   [110;111;100;101;95;115;111;99;107]%N;
   [110;111;100;101;95;119;105;116;104;111;117;116;95;114;101;115;117;108;116]%N;
   [110;111;116;105;102;121]%N;
   [112;97;114;101;110;116]%N;
   [115;116;111;112]%N;
   [115;116;111;112;112;101;100]%N;
   [115;117;99;99;101;115;115]%N;
   [115;117;99;99;101;115;115;95;99;104;97;110;110;101;108;115]%N;
   [117;105;100]%N;
   [118;97;108;117;101]%N;
   [119;97;105;116;105;110;103;72;97;110;100;108;101;114;115]%N].

(* recorded json.dumps / json.loads calls *)
Fixpoint tbl_dumps (t : list (json * list N)) (j : json) : option (list N) :=
  match t with [] => None | (k, v) :: r => if json_eqb j k then Some v else tbl_dumps r j end.
Fixpoint tbl_loads (t : list (list N * option json)) (b : list N) : option (option json) :=
  match t with [] => None | (k, v) :: r => if str_eqb b k then Some v else tbl_loads r b end.

(* firewall predicates given as data: blocked names, blocked (string) channels *)
Definition fw_of (names chans : list (list N)) (e : event) : bool :=
  negb (mem_str (ename e) names)
  && negb (existsb (fun c => match c with JStr s => mem_str s chans | _ => false end) (echannels e)).

(* B's application in the harness: [echo] names return [name, args, kwargs]; [boom] names raise at once
   (also: one handler returns and another raises); [late] names raise after a yield of a generator handler *)
Definition handler_of (echo nil gen boom late : list (list N)) (e : event) : hres :=
  if mem_str (ename e) echo then HVal (JArr [JStr (ename e); JArr (eargs e); JObj (ekwargs e)])
  else if mem_str (ename e) nil then HVal JNull
  else if mem_str (ename e) gen then HValLate (JArr [JStr (ename e); JArr (eargs e); JObj (ekwargs e)])
  else if mem_str (ename e) boom then HRaise false
  else if mem_str (ename e) late then HRaise true else HNone.

Definition obs_proto (excl : list (list N)) (td : list (json * list N)) (tl : list (list N * option json))
  (D : list N) (fs_n fs_c fr_n fr_c echo nil gen boom late : list (list N)) (bchan : json) (ops : list op) : T :=
  let s := exec excl (tbl_dumps td) (tbl_loads tl) D (fw_of fs_n fs_c) (fw_of fr_n fr_c)
                (handler_of echo nil gen boom late) bchan ops in
  Tl [Tlist Tevent (b_log s); Tlist Tcall (a_calls s); Tbool (bad s);
      Tnat (length (a_buf s)); Tnat (length (b_buf s))].

Definition obs_state (s : st) : T :=
  Tl [Tlist Tevent (b_log s); Tlist Tcall (a_calls s); Tbool (bad s);
      Tnat (length (a_buf s)); Tnat (length (b_buf s))].

(* several connections on one called side: the hub model (code after the fix: legacy = false), one
   observable per connection *)
Definition obs_hub (excl : list (list N)) (td : list (json * list N)) (tl : list (list N * option json))
  (D : list N) (echo nil gen boom late : list (list N)) (bchans : list json) (sched : list (nat * op)) : T :=
  let h := hrun excl (tbl_dumps td) (tbl_loads tl) D (fun _ => true) (fun _ => true)
                (handler_of echo nil gen boom late) (fun c => nth c bchans JNull) (length bchans) false sched in
  Tl (map (fun c => obs_state (h c)) (seq 0 (length bchans))).

(* utils.load_event on a JSON text whose parse is [j] *)
Definition obs_load (excl : list (list N)) (j : json) : T :=
  match load_event excl j with
  | Some (e, id) => Tl [Tevent e; Tj id]
  | None => Tl []
  end.

(* load_event (dump_event e id) *)
Definition obs_serial (excl : list (list N)) (td : list (json * list N)) (tl : list (list N * option json))
  (e : event) (id : json) : T :=
  match tbl_dumps td (event_data excl e id) with
  | None => Tl [Tn (-1)]
  | Some b => match tbl_loads tl (escape b) with
              | Some (Some j) => Tl [Tb (escape b); obs_load excl j]
              | _ => Tl [Tn (-2)]
              end
  end.

(* load_value on a parsed object *)
Definition obs_load_value (excl : list (list N)) (j : json) : T :=
  match j with
  | JObj o => match load_value excl o with
              | LvDrop => Tl [] | LvAbort => Tl [Tn 1]
              | LvOk v id er m => Tl [Tj v; Tj id; Tj er; Tkv m]
              end
  | _ => Tl [Tn 2]
  end.
