(* Encoders of the Feedback model's results into Lib/Obs.T for the correspondence check:
   the global log with labels instead of runtime ids, the final Value / waitingHandlers of every
   user event in firing order, and whether the run went quiet. *)
From Coq Require Import List ZArith Bool Arith.
From Circ Require Import Lib.Obs Model.Feedback.
Import ListNotations.

Definition lbl_of (s : st) (e : nat) : nat := ev_lbl (spec s e).

Definition enc_kind (k : dkind) : T :=
  Tn (match k with DSucc => 0 | DFail => 1 | DExc => 2 | DVC => 3 end)%Z.

Definition enc_entry (s : st) (x : entry) : T :=
  match x with
  | LH e i => Tl [Tn 0; Tnat (lbl_of s e); Tnat i]
  | LG e i k => Tl [Tn 1; Tnat (lbl_of s e); Tnat i; Tnat k]
  | LDD k e c => Tl [Tn 2; enc_kind k; Tnat (lbl_of s e); Tnat c]
  | LFD k e => Tl [Tn 3; enc_kind k; Tnat (lbl_of s e)]
  | LDU e c => Tl [Tn 4; Tnat (lbl_of s e); Tnat c]
  | LF e => Tl [Tn 5; Tnat (lbl_of s e)]
  end.

(* None -> [0]; int -> [1, z]; error triple -> [2]; list -> [3, [items]];
   the Value of event d -> [4, what that Value holds] (getValue(recursive=False), followed through
   nested Values; a Value only ever refers to younger events, fuel = number of events) *)
Fixpoint enc_py (fuel : nat) (s : st) {struct fuel} : pyval -> T :=
  fix go (v : pyval) : T :=
    match v with
    | PNone => Tl [Tn 0]
    | PInt z => Tl [Tn 1; Tn z]
    | PErr => Tl [Tn 2]
    | PList l => Tl [Tn 3; Tl (map go l)]
    | PRef d => match fuel with
                | O => Tl [Tn 4]
                | S f => Tl [Tn 4; enc_py f s (vv (val s d))]
                end
    end.

Definition enc_final (s : st) (e : nat) : T :=
  let v := val s e in
  Tl [Tnat (lbl_of s e); enc_py (next s) s (vv v); Tbool (verrors v); Tbool (vresult v); Tbool (vpromise v);
      Tnat (waiting s e)].

Definition obs_state (s : st) : T :=
  Tl [Tlist (enc_entry s) (rev (log s));
      Tlist (enc_final s) (filter (is_user s) (seq 0 (next s)));
      Tbool (quiet s)].

Definition obs_run (roots : list ev) (sched : list (list (nat * nat))) (fuel : nat) : T :=
  obs_state (run fuel sched (start roots)).
