(* Executable model of circuits/protocols/line.py: splitLines and Line._on_read
   (client mode: one buffer; server mode: one buffer per socket).
   Bytes are N.  No proofs in this file. *)
From Coq Require Import List NArith Bool.
Import ListNotations.
Open Scope N_scope.

Definition LF : N := 10.
Definition CR : N := 13.

(* drop one trailing CR *)
Fixpoint strip_cr (l : list N) : list N :=
  match l with
  | [] => []
  | [c] => if c =? CR then [] else [c]
  | c :: t => c :: strip_cr t
  end.

(* re.compile(b'\r?\n').split(s): pieces between line terminators; a
   terminator is LF together with one directly preceding CR, if any.
   [cur] is the reversed current piece. *)
Fixpoint pieces (cur : list N) (s : list N) : list (list N) :=
  match s with
  | [] => [rev cur]
  | c :: t => if c =? LF then strip_cr (rev cur) :: pieces [] t
              else pieces (c :: cur) t
  end.

Definition resplit (s : list N) : list (list N) := pieces [] s.

(* splitLines(s, buffer) -> lines[:-1], lines[-1] *)
Definition split_lines (s buffer : list N) : list (list N) * list N :=
  let l := resplit (buffer ++ s) in (removelast l, last l []).

(* client mode: state = buffer; output = the line events fired, in order *)
Definition feed (buf : list N) (data : list N) : list (list N) * list N :=
  split_lines data buf.

Fixpoint run (buf : list N) (chunks : list (list N)) : list (list N) * list N :=
  match chunks with
  | [] => ([], buf)
  | d :: ds => let '(ls, b) := feed buf d in
               let '(ls', b') := run b ds in (ls ++ ls', b')
  end.

(* server mode: buffers keyed by socket id (defaultdict(bytes)) *)
Definition bufs := nat -> list N.
Definition empty_bufs : bufs := fun _ => [].
Definition upd (m : bufs) (k : nat) (v : list N) : bufs :=
  fun j => if Nat.eqb j k then v else m j.

Definition feed_srv (m : bufs) (sock : nat) (data : list N)
  : list (nat * list N) * bufs :=
  let '(ls, b) := split_lines data (m sock) in
  (map (fun l => (sock, l)) ls, upd m sock b).

Fixpoint run_srv (m : bufs) (evs : list (nat * list N))
  : list (nat * list N) * bufs :=
  match evs with
  | [] => ([], m)
  | (k, d) :: r => let '(ls, m1) := feed_srv m k d in
                   let '(ls', m2) := run_srv m1 r in (ls ++ ls', m2)
  end.
