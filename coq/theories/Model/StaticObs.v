(* Encoders of the C16 models' results into Lib/Obs.T for the correspondence check. *)
From Coq Require Import List ZArith NArith Bool.
From Circ Require Import Lib.Obs Model.StaticPath Model.Ranges.
Import ListNotations.

Fixpoint lookup (k : str) (tbl : list (str * str)) : option str :=
  match tbl with
  | [] => None
  | (a, b) :: r => if str_eqb k a then Some b else lookup k r
  end.

(* the decision of Static._on_request on a file system given by the tables [files], [dirs];
   [unq_tbl] holds the calls of urllib.parse.unquote the implementation made.
   Tl [Tn (-1)] = the model asked for a decoding the implementation did not ask for. *)
Definition obs_path (files dirs : list str) (unq_tbl : list (str * str))
           (mount : option str) (d : str) (defaults : list str) (dirlisting : bool)
           (reqpath : str) : T :=
  let asked := match unmount mount reqpath with Some p => Some (strip_sl p) | None => None end in
  let miss := match asked with
              | Some a => match lookup a unq_tbl with None => true | Some _ => false end
              | None => false end in
  if miss then Tl [Tn (-1)]
  else
    let unq := fun s => match lookup s unq_tbl with Some r => r | None => [] end in
    match static_request (fun p => memb p files || memb p dirs) (fun p => memb p files)
                         (fun p => memb p dirs) unq mount d defaults dirlisting reqpath with
    | Pass => Tl [Tn 0]
    | NotFound _ => Tl [Tn 0]
    | File l => Tl [Tn 1; Tb l]
    | Listing l => Tl [Tn 2; Tb l]
    end.

(* content of the test files: byte i is (7 i + 3) mod 251 *)
Definition content (n : nat) : list N :=
  map (fun i => N.modulo (7 * N.of_nat i + 3) 251) (seq 0 n).

Definition Tbody (b : list N) : T :=
  if Nat.leb (length b) 32 then Tb b else Tl [Tnat (length b)].

Definition obs_range (proto11 : bool) (hv : option str) (size : nat) : T :=
  match serve_range proto11 hv (content size) with
  | Full len => Tl [Tn 0; Tn len]
  | R416 len => Tl [Tn 1]
  | Partial a b len body => Tl [Tn 2; Tn a; Tn b; Tn len; Tbody body]
  | Multi len ps => Tl [Tn 3; Tn len; Tlist (fun p => Tl [Tn (fst (fst p)); Tn (snd (fst p)); Tbody (snd p)]) ps]
  | Err500 => Tl [Tn 4]
  end.

Definition obs_get_ranges (hv : option str) (cl : Z) : T :=
  match get_ranges hv cl with
  | RIgnore => Tl [Tn 0]
  | RList l => Tl [Tn 1; Tlist (fun p => Tl [Tn (fst p); Tn (snd p)]) l]
  | RUnsat => Tl [Tn 2]
  | RCrash => Tl [Tn 3]
  end.
