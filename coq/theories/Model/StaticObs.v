(* Encoders of the C16 models' results into Lib/Obs.T for the correspondence check. *)
From Coq Require Import List ZArith NArith Bool.
From Coq Require String Ascii.
From Circ Require Import Lib.Obs Model.StaticPath Model.Ranges Model.FrontEnd.
Import ListNotations.

(* ASCII literals of the generated cases *)
Definition L (s : String.string) : str := map Ascii.N_of_ascii (String.list_ascii_of_string s).

Fixpoint lookup (k : str) (tbl : list (str * str)) : option str :=
  match tbl with
  | [] => None
  | (a, b) :: r => if str_eqb k a then Some b else lookup k r
  end.

(* The file system as the answers the real os.path.exists / isfile / isdir gave for the paths the
   implementation asked about: (path, (exists, isfile, isdir)).  A path that is not in the table
   gets the answer [dflt]; the model is run with both defaults and must not depend on it. *)
Definition fstable := list (str * (bool * bool * bool)).
Fixpoint fs_lookup (k : str) (tbl : fstable) : option (bool * bool * bool) :=
  match tbl with
  | [] => None
  | (a, b) :: r => if str_eqb k a then Some b else fs_lookup k r
  end.
Definition fs_fun (tbl : fstable) (dflt : bool) (sel : bool * bool * bool -> bool) (p : str) : bool :=
  match fs_lookup p tbl with Some t => sel t | None => dflt end.

Definition outcome_eqb (a b : outcome) : bool :=
  match a, b with
  | Pass, Pass => true
  | File x, File y => str_eqb x y
  | NotFound x, NotFound y => str_eqb x y
  | Listing x, Listing y => str_eqb x y
  | _, _ => false
  end.

(* the decision of Static._on_request; [unq_tbl] holds the calls of urllib.parse.unquote the
   implementation made.
   Tl [Tn (-1)] = the model asked for a decoding the implementation did not ask for,
   Tl [Tn (-2)] = the model's answer depends on a file-system question the implementation did not ask. *)
Definition obs_path (fs : fstable) (unq_tbl : list (str * str))
           (mount : option str) (d : str) (defaults : list str) (dirlisting : bool)
           (reqpath : str) : T :=
  let asked := match unmount mount reqpath with Some p => Some (strip_sl p) | None => None end in
  let miss := match asked with
              | Some a => match lookup a unq_tbl with None => true | Some _ => false end
              | None => false end in
  if miss then Tl [Tn (-1)]
  else
    let unq := fun s => match lookup s unq_tbl with Some r => r | None => [] end in
    let run := fun dflt =>
      static_request (fs_fun fs dflt (fun t => fst (fst t))) (fs_fun fs dflt (fun t => snd (fst t)))
                     (fs_fun fs dflt snd) unq mount d defaults dirlisting reqpath in
    if negb (outcome_eqb (run true) (run false)) then Tl [Tn (-2)]
    else match run false with
         | Pass => Tl [Tn 0]
         | NotFound _ => Tl [Tn 0]
         | File l => Tl [Tn 1; Tb l]
         | Listing l => Tl [Tn 2; Tb l]
         end.

(* the HTTP front end: quote / unquote are the tables of the calls circuits.web.url and
   circuits.web.http made; the model is run with two different defaults for strings that are not
   in the tables and must not depend on the default (else Tl [Tn (-1)]).
   [0; sanitised] = 301 ; [1; path; sanitised] = request event fired ; [2] = Request() raised *)
Definition tbl_fun (tbl : list (str * str)) (dflt : str) (s : str) : str :=
  match lookup s tbl with Some r => r | None => dflt end.
Definition fe_eqb (a b : fe_outcome) : bool :=
  match a, b with
  | FeDispatch x, FeDispatch y => str_eqb x y
  | FeRedirect x, FeRedirect y => str_eqb x y
  | FeError, FeError => true
  | _, _ => false
  end.
Definition obs_frontend (q_tbl u_tbl : list (str * str)) (path : str) : T :=
  let run := fun dflt => frontend (tbl_fun q_tbl dflt) (tbl_fun u_tbl dflt) path in
  let san := fun dflt => sanitized (tbl_fun q_tbl dflt) (tbl_fun u_tbl dflt) path in
  if negb (fe_eqb (run []) (run [0%N; 1%N])) then Tl [Tn (-1)]
  else match run [] with
       | FeError => Tl [Tn 2]
       | FeRedirect s => Tl [Tn 0; Tb s]
       | FeDispatch p => if str_eqb (san []) (san [0%N; 1%N]) then Tl [Tn 1; Tb p; Tb (san [])] else Tl [Tn (-1)]
       end.

(* front end, then the dispatcher on the path it was handed *)
Definition obs_http (q_tbl u_tbl : list (str * str)) (fs : fstable) (unq_tbl : list (str * str))
           (mount : option str) (d : str) (defaults : list str) (dirlisting : bool) (path : str) : T :=
  let fe := obs_frontend q_tbl u_tbl path in
  match frontend (tbl_fun q_tbl []) (tbl_fun u_tbl []) path with
  | FeDispatch p => Tl [fe; obs_path fs unq_tbl mount d defaults dirlisting p]
  | _ => Tl [fe; Tl [Tn 0]]
  end.

(* content of the test files: byte i is (7 i + 3) mod 251 *)
Fixpoint content_from (n : nat) (i : N) : list N :=
  match n with
  | O => []
  | S k => N.modulo (7 * i + 3) 251 :: content_from k (i + 1)
  end.
Definition content (n : N) : list N := content_from (N.to_nat n) 0.

Definition Tbody (b : list N) : T :=
  if Nat.leb (length b) 32 then Tb b else Tl [Tnat (length b)].

Definition obs_range (proto11 : bool) (hv : option str) (size : N) : T :=
  match serve_range proto11 hv (content size) with
  | Full len => Tl [Tn 0; Tn len]
  | R416 len => Tl [Tn 1]
  | Partial a b len body => Tl [Tn 2; Tn a; Tn b; Tn len; Tbody body]
  | Multi len ps => Tl [Tn 3; Tn len; Tlist (fun p => Tl [Tn (fst (fst p)); Tn (snd (fst p)); Tbody (snd p)]) ps]
  | Err500 => Tl [Tn 4]
  end.

Definition obs_get_ranges (hv : option str) (cl : Z) : T :=
  match get_ranges hv cl with
  | RIgnore => Tl [Tn 0]
  | RList l => Tl [Tn 1; Tlist (fun p => Tl [Tn (fst p); Tn (snd p)]) l]
  | RUnsat => Tl [Tn 2]
  | RCrash => Tl [Tn 3]
  end.
