(* Executable model of the path handling of circuits/web/dispatchers/static.py
   (Static._on_request, with the containment test of fixes/C16_docroot_containment.patch)
   and of the posixpath functions it relies on: os.path.join, os.path.normpath
   (= os.path.abspath on absolute paths), str.strip('/'), str.startswith.
   Strings are lists of code points (N).  urllib.parse.unquote and the file
   system (exists / isfile / isdir) are parameters of the model: the theorems
   hold for every decoding function and every file system.
   No proofs in this file. *)
From Coq Require Import List NArith Bool.
Import ListNotations.
Open Scope N_scope.

Definition str := list N.
Definition SL : N := 47.   (* '/' *)
Definition DOT : N := 46.  (* '.' *)

Fixpoint str_eqb (a b : str) : bool :=
  match a, b with
  | [], [] => true
  | x :: a', y :: b' => (x =? y) && str_eqb a' b'
  | _, _ => false
  end.

(* s.startswith(p) *)
Fixpoint prefixb (p s : str) : bool :=
  match p, s with
  | [], _ => true
  | x :: p', y :: s' => (x =? y) && prefixb p' s'
  | _ :: _, [] => false
  end.

Definition isnil {A} (l : list A) : bool := match l with [] => true | _ => false end.

Definition starts_slash (p : str) : bool :=
  match p with c :: _ => c =? SL | [] => false end.
Definition ends_slash (p : str) : bool := starts_slash (rev p).

(* s.split(d) for a one-character delimiter *)
Fixpoint split_on (d : N) (s : str) : list str :=
  match s with
  | [] => [[]]
  | c :: t => if c =? d then [] :: split_on d t
              else match split_on d t with
                   | [] => [[c]]            (* not reachable: split_on never returns [] *)
                   | h :: r => (c :: h) :: r
                   end
  end.
Definition split_slash := split_on SL.

(* s.strip('/') *)
Fixpoint lstrip_sl (s : str) : str :=
  match s with c :: t => if c =? SL then lstrip_sl t else s | [] => [] end.
Definition strip_sl (s : str) : str := rev (lstrip_sl (rev (lstrip_sl s))).

(* posixpath.join(a, b) *)
Definition join2 (a b : str) : str :=
  if starts_slash b then b
  else if isnil a || ends_slash a then a ++ b
  else a ++ SL :: b.

(* ---- posixpath.normpath ---- *)
Definition is_dot (c : str) : bool := str_eqb c [DOT].
Definition is_dotdot (c : str) : bool := str_eqb c [DOT; DOT].

(* 0, 1 or 2: POSIX keeps exactly two leading slashes *)
Definition init_slashes (p : str) : nat :=
  if starts_slash p then
    if starts_slash (tl p) && negb (starts_slash (tl (tl p))) then 2%nat else 1%nat
  else 0%nat.

(* the loop over comps; [stack] is new_comps reversed *)
Fixpoint norm_comps (abs : bool) (stack : list str) (comps : list str) : list str :=
  match comps with
  | [] => rev stack
  | c :: r =>
      if isnil c || is_dot c then norm_comps abs stack r
      else if negb (is_dotdot c) || (negb abs && isnil stack)
              || match stack with t :: _ => is_dotdot t | [] => false end
           then norm_comps abs (c :: stack) r
           else norm_comps abs (tl stack) r      (* elif new_comps: new_comps.pop() *)
  end.

(* '/'.join(comps) *)
Fixpoint intercalate (l : list str) : str :=
  match l with
  | [] => []
  | [a] => a
  | a :: r => a ++ SL :: intercalate r
  end.

Definition normpath (p : str) : str :=
  match p with
  | [] => [DOT]
  | _ => let k := init_slashes p in
         let s := repeat SL k ++ intercalate (norm_comps (negb (Nat.eqb k 0)) [] (split_slash p)) in
         match s with [] => [DOT] | _ => s end
  end.

(* ---- Static._on_request ---- *)

Inductive outcome :=
| Pass                    (* handler returns None: not handled here -> 404 from the fall-through *)
| File (loc : str)        (* serve_file(location): the file is opened and sent *)
| NotFound (loc : str)    (* serve_file(location) answers notfound (location is a directory) *)
| Listing (dir : str).    (* directory listing of os.listdir(dir) *)

Section Static.
  Variables fexists isfile isdir : str -> bool.   (* os.path.exists / isfile / isdir *)
  Variable unq : str -> str.                      (* urllib.parse.unquote *)

  (* location == docroot or location.startswith(os.path.join(docroot, '')) *)
  Definition inside (d loc : str) : bool := str_eqb loc d || prefixb (join2 d []) loc.

  (* tools.serve_file up to the choice between notfound and opening the file *)
  Definition serve_file (loc : str) : outcome :=
    if fexists loc && negb (isdir loc) then File loc else NotFound loc.

  Fixpoint try_defaults (d u : str) (defaults : list str) : option outcome :=
    match defaults with
    | [] => None
    | df :: r => let loc := normpath (join2 (join2 d u) df) in
                 if fexists loc then Some (serve_file loc) else try_defaults d u r
    end.

  (* the part of the request path after the mount prefix; None = not for this dispatcher *)
  Definition unmount (mount : option str) (reqpath : str) : option str :=
    match mount with
    | None => Some reqpath
    | Some m => if prefixb m reqpath then Some (skipn (length m) reqpath) else None
    end.

  Definition location (d u : str) : str :=
    match u with [] => normpath (join2 d [DOT]) | _ => normpath (join2 d u) end.

  Definition static_request (mount : option str) (d : str) (defaults : list str)
             (dirlisting : bool) (reqpath : str) : outcome :=
    match unmount mount reqpath with
    | None => Pass
    | Some p =>
        let u := unq (strip_sl p) in
        let loc := location d u in
        if negb (inside d loc) then Pass
        else if negb (fexists loc) then Pass
        else if isfile loc then serve_file loc
        else if isdir loc then
          match try_defaults d u defaults with
          | Some o => o
          | None => if dirlisting then Listing (normpath (join2 d u)) else Pass
          end
        else Pass
    end.
End Static.

(* ---- vocabulary of the theorems ---- *)

(* a plain name: non-empty, not '.', not '..', no '/' *)
Definition plain (c : str) : Prop :=
  c <> [] /\ c <> [DOT] /\ c <> [DOT; DOT] /\ ~ In SL c.
Definition plainb (c : str) : bool :=
  negb (isnil c) && negb (is_dot c) && negb (is_dotdot c) && negb (existsb (N.eqb SL) c).

(* the components path resolution looks at (empty ones are skipped by the kernel) *)
Definition comps_of (p : str) : list str := filter (fun c => negb (isnil c)) (split_slash p).

Definition served (o : outcome) : option str :=
  match o with Pass => None | File l => Some l | NotFound l => Some l | Listing l => Some l end.

(* a file system given by two tables (used to run the model in the correspondence check) *)
Definition memb (p : str) (l : list str) : bool := existsb (str_eqb p) l.
