(* C03 — encoding of the model's verdict on an observed trace into Lib/Obs.T. *)
From Coq Require Import List ZArith Arith.
From Circ Require Import Lib.Obs Model.Wake.
Import ListNotations.

Definition enc_ev (e : ev) : T :=
  match e with
  | EvF t k => Tl [Tnat t; Tnat k]
  | EvG g => Tl [Tn (-1); Tnat g]
  | EvO n => Tl [Tn (-2); Tnat n]
  end.

Definition foreign (l : list ev) : list ev := filter is_foreign l.

(* accepted:  [-1; foreign events in dispatch order; foreign events still queued; #generate_events; blocked?]
   rejected:  [index of the first action the model cannot follow] *)
Definition obs_trace (m : mode) (tr : list (nat * lbl)) : T :=
  match first_reject (init m) 0 tr with
  | Some i => Tl [Tnat i]
  | None =>
      match run (init m) tr with
      | Some s => Tl [Tn (-1); Tlist enc_ev (foreign (disp s)); Tlist enc_ev (foreign (pending s));
                      Tnat (ngen s); Tbool (blocked s)]
      | None => Tl [Tn (-3)]
      end
  end.

(* the same verdict when the harness could not observe the real queue content: that component is left empty *)
Definition obs_trace_np (m : mode) (tr : list (nat * lbl)) : T :=
  match first_reject (init m) 0 tr with
  | Some i => Tl [Tnat i]
  | None =>
      match run (init m) tr with
      | Some s => Tl [Tn (-1); Tlist enc_ev (foreign (disp s)); Tl []; Tnat (ngen s); Tbool (blocked s)]
      | None => Tl [Tn (-3)]
      end
  end.
