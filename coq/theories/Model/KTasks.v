(* Executable model of the coroutine machinery of circuits/core/manager.py:
   waitEvent / callEvent (the three temporary handlers _on_event, _on_done,
   _on_tick and the _State record), every branch of processTask that a
   call/wait program can reach, the part of _dispatcher/_eventDone that feeds
   them (waitingHandlers gate, alert_done -> <name>_done, <name>_success), and
   tick() (tasks in a given order, generate_events, one flush batch).

   The model is the model of the REPAIRED code (fixes/C06_*.patch applied):
   _on_tick also removes a still installed _on_event handler, _on_done removes
   the tick handler whenever one was installed, and processTask continues a
   handler after a thrown TimeoutError exactly as after a CallValue.
   and a handler generator that raises while it is resumed from a call/wait releases both
   of its waitingHandlers counts (the exception branch of processTask otherwise releases one
   and runs _eventDone with the error).

   One component, one channel.  Events, generators and wait states live in
   append-only tables and are referred to by index.  Event 0 is a dummy ("the
   harness").  Fields marked ghost are never read by the transition functions.
   Every Python operation that would raise inside the machinery itself
   (removeHandler of an absent handler = KeyError, resuming a generator in a
   way the protocol excludes) sets [bad].  No proofs in this file. *)
From Coq Require Import List ZArith Bool Arith.
Import ListNotations.
Open Scope Z_scope.

(* ------------------------------------------------------------------ programs *)

Inductive step :=
| SYield (v : option Z)                          (* yield v *)
| SCall (nm : nat) (tmo : Z)                     (* x = yield self.call(E_nm(), timeout=tmo)   (tmo = -1: none) *)
| SWaitObj (nm : nat)                            (* e = E_nm(); self.fire(e); x = yield self.wait(e) *)
| SWaitName (nm : nat) (tmo : Z) (fire : bool)   (* [self.fire(E_nm());] x = yield self.wait("nm", timeout=tmo) *)
| SRaise                                         (* raise *)
| SFire (nm : nat).                              (* self.fire(E_nm()) *)

Inductive hbody :=
| HPlain (v : option Z) (raises : bool)          (* return v / raise *)
| HGen (catch : bool) (steps : list step).       (* generator; catch = TimeoutError is caught around every call/wait *)

Definition program := list (list hbody).         (* handlers of event name nm, highest priority first *)
Definition handlers_of (p : program) (nm : nat) : list hbody := nth nm p [].

(* ------------------------------------------------------------------ state *)

Inductive lent :=
| LPlain (tok hi : nat)
| LStep (tok hi k : nat)
| LRes (tok hi k e : nat) (vals : list Z) (err : bool)   (* e: the event instance whose Value is delivered (not part of the observable) *)
| LTmo (tok hi k : nat)
| LTmoUncaught (tok hi k : nat)
| LEnd (tok hi : nat)
| LFire (tok nm by_ how : nat)
| LSucc (tok : nat) (vals : list Z) (err : bool)
| LTick (t : nat)
| LDisp (tok : nat).

(* handler results carry the token of the event instance they were produced for; negative codes stand for the
   falsy non-None results (-10: 0, -11: False, -12: ''), which carry no token *)
Definition tokval (tok : nat) (v : Z) : Z := if v <? 0 then v else v + 100 * Z.of_nat tok.

Record evt := { e_name : nat; e_waiting : Z; e_alert : bool; e_vals : list Z; e_errors : bool;
                e_dispatched : bool (* ghost *); e_gate : nat (* ghost: times the waitingHandlers gate was passed *) }.

Record gen := { g_tok : nat; g_hi : nat; g_catch : bool; g_k : nat (* next step *); g_cur : nat (* step it is suspended in *);
                g_atcall : bool; g_rest : option (list step) (* None: exhausted *) }.

Inductive phase := Armed | Seen | Flagged | Dead.

Record wst := { s_name : nat; s_obj : option nat; s_run : bool; s_event : option nat; s_timeout : Z;
                s_tevent : nat; s_parent : nat; s_callval : option nat;
                (* ghost *) s_ph : phase; s_tmo0 : Z; s_ticks : nat; s_resumes : nat; s_timedout : bool }.

Inductive th := THEv (sid : nat) | THDone (sid : nat) | THTick (sid : nat).
Inductive tref := RGen (gid : nat) | RWait (sid : nat) | RTimeout (sid : nat).
Record task := { t_ev : nat; t_ref : tref; t_parent : option nat }.
Inductive qitem := QUser (tok : nat) | QDone (tok : nat) | QSucc (tok : nat) | QGenEv.

Record world := { evs : list evt; gens : list gen; wsts : list wst; ths : list th; tasks : list task;
                  queue : list qitem; wlog : list lent (* newest first *); bad : bool }.

Definition set_evs w x := {| evs := x; gens := gens w; wsts := wsts w; ths := ths w; tasks := tasks w; queue := queue w; wlog := wlog w; bad := bad w |}.
Definition set_gens w x := {| evs := evs w; gens := x; wsts := wsts w; ths := ths w; tasks := tasks w; queue := queue w; wlog := wlog w; bad := bad w |}.
Definition set_wsts w x := {| evs := evs w; gens := gens w; wsts := x; ths := ths w; tasks := tasks w; queue := queue w; wlog := wlog w; bad := bad w |}.
Definition set_ths w x := {| evs := evs w; gens := gens w; wsts := wsts w; ths := x; tasks := tasks w; queue := queue w; wlog := wlog w; bad := bad w |}.
Definition set_tasks w x := {| evs := evs w; gens := gens w; wsts := wsts w; ths := ths w; tasks := x; queue := queue w; wlog := wlog w; bad := bad w |}.
Definition set_queue w x := {| evs := evs w; gens := gens w; wsts := wsts w; ths := ths w; tasks := tasks w; queue := x; wlog := wlog w; bad := bad w |}.
Definition add_log x w := {| evs := evs w; gens := gens w; wsts := wsts w; ths := ths w; tasks := tasks w; queue := queue w; wlog := x :: wlog w; bad := bad w |}.
Definition set_bad w := {| evs := evs w; gens := gens w; wsts := wsts w; ths := ths w; tasks := tasks w; queue := queue w; wlog := wlog w; bad := true |}.

Fixpoint upd_nth {A} (i : nat) (f : A -> A) (l : list A) : list A :=
  match l, i with
  | [], _ => []
  | x :: r, O => f x :: r
  | x :: r, S j => x :: upd_nth j f r
  end.

Definition mod_evt (tok : nat) (f : evt -> evt) (w : world) : world := set_evs w (upd_nth tok f (evs w)).
Definition mod_wst (sid : nat) (f : wst -> wst) (w : world) : world := set_wsts w (upd_nth sid f (wsts w)).
Definition mod_gen (gid : nat) (f : gen -> gen) (w : world) : world := set_gens w (upd_nth gid f (gens w)).

(* Value.setValue accumulates; -1 stands for an exc_info triple *)
Definition add_val (v : Z) (e : evt) : evt :=
  {| e_name := e_name e; e_waiting := e_waiting e; e_alert := e_alert e; e_vals := e_vals e ++ [v];
     e_errors := e_errors e; e_dispatched := e_dispatched e; e_gate := e_gate e |}.
Definition add_oval (v : option Z) (e : evt) : evt := match v with Some x => add_val x e | None => e end.
Definition add_err (e : evt) : evt :=
  {| e_name := e_name e; e_waiting := e_waiting e; e_alert := e_alert e; e_vals := e_vals e ++ [-1];
     e_errors := true; e_dispatched := e_dispatched e; e_gate := e_gate e |}.
Definition add_wait (d : Z) (e : evt) : evt :=
  {| e_name := e_name e; e_waiting := e_waiting e + d; e_alert := e_alert e; e_vals := e_vals e;
     e_errors := e_errors e; e_dispatched := e_dispatched e; e_gate := e_gate e |}.
Definition set_alert (e : evt) : evt :=
  {| e_name := e_name e; e_waiting := e_waiting e; e_alert := true; e_vals := e_vals e;
     e_errors := e_errors e; e_dispatched := e_dispatched e; e_gate := e_gate e |}.
Definition set_dispatched (e : evt) : evt :=
  {| e_name := e_name e; e_waiting := e_waiting e; e_alert := e_alert e; e_vals := e_vals e;
     e_errors := e_errors e; e_dispatched := true; e_gate := e_gate e |}.
Definition inc_gate (e : evt) : evt :=
  {| e_name := e_name e; e_waiting := e_waiting e; e_alert := e_alert e; e_vals := e_vals e;
     e_errors := e_errors e; e_dispatched := e_dispatched e; e_gate := S (e_gate e) |}.
Definition new_evt (nm : nat) : evt :=
  {| e_name := nm; e_waiting := 0; e_alert := false; e_vals := []; e_errors := false; e_dispatched := false; e_gate := O |}.

Definition th_eqb (a b : th) : bool :=
  match a, b with
  | THEv x, THEv y | THDone x, THDone y | THTick x, THTick y => Nat.eqb x y
  | _, _ => false
  end.
Definition tref_eqb (a b : tref) : bool :=
  match a, b with
  | RGen x, RGen y | RWait x, RWait y | RTimeout x, RTimeout y => Nat.eqb x y
  | _, _ => false
  end.
Definition onat_eqb (a b : option nat) : bool :=
  match a, b with Some x, Some y => Nat.eqb x y | None, None => true | _, _ => false end.
Definition task_eqb (a b : task) : bool :=
  Nat.eqb (t_ev a) (t_ev b) && tref_eqb (t_ref a) (t_ref b) && onat_eqb (t_parent a) (t_parent b).
Definition mk_task (ev : nat) (r : tref) (p : option nat) : task := {| t_ev := ev; t_ref := r; t_parent := p |}.

(* the root's task *set* *)
Definition reg_task (t : task) (w : world) : world :=
  if existsb (task_eqb t) (tasks w) then w else set_tasks w (tasks w ++ [t]).
Definition unreg_task (t : task) (w : world) : world :=
  set_tasks w (filter (fun u => negb (task_eqb t u)) (tasks w)).

Definition has_th (h : th) (w : world) : bool := existsb (th_eqb h) (ths w).
Definition add_th (h : th) (w : world) : world := set_ths w (ths w ++ [h]).
(* removeHandler: KeyError when the handler is not installed; the exception aborts the rest of the
   calling function ([k] is that rest) *)
Definition del_th (h : th) (w : world) : world := set_ths w (filter (fun u => negb (th_eqb h u)) (ths w)).
Definition rem_th_k (h : th) (w : world) (k : world -> world) : world :=
  if has_th h w then k (del_th h w) else set_bad w.

Definition push (q : qitem) (w : world) : world := set_queue w (queue w ++ [q]).

(* fire a user event: fresh token = index in [evs] *)
Definition fire_user (nm by_ how : nat) (w : world) : world * nat :=
  let tok := length (evs w) in
  (add_log (LFire tok nm by_ how) (push (QUser tok) (set_evs w (evs w ++ [new_evt nm]))), tok).

(* _eventDone: the waitingHandlers gate, <name>_done for waiters, <name>_success *)
Definition event_done (tok : nat) (err : bool) (w : world) : world :=
  match nth_error (evs w) tok with
  | None => set_bad w
  | Some e =>
      if e_waiting e =? 0 then
        let w := mod_evt tok inc_gate w in
        let w := if e_alert e then push (QDone tok) w else w in
        if err || e_errors e then w else push (QSucc tok) w
      else w
  end.

(* ------------------------------------------------------------------ handler generators *)

Inductive gres :=
| GYield (v : option Z)
| GWait (nm : nat) (obj : option nat) (tmo : Z) (callval : option nat)   (* yielded a call/wait generator *)
| GStop
| GRaise.

(* run the generator body from step k on until it yields, returns or raises *)
Fixpoint run_steps (tok hi k : nat) (sts : list step) (w : world) : world * gres * nat * option (list step) :=
  match sts with
  | [] => (add_log (LEnd tok hi) w, GStop, k, None)
  | s :: r =>
      let w := add_log (LStep tok hi k) w in
      match s with
      | SYield v => (w, GYield (option_map (tokval tok) v), k, Some r)
      | SRaise => (w, GRaise, k, None)
      | SFire nm => run_steps tok hi (S k) r (fst (fire_user nm tok 0 w))
      | SCall nm tmo => let '(w, t2) := fire_user nm tok 1 w in (w, GWait nm (Some t2) tmo (Some t2), k, Some r)
      | SWaitObj nm => let '(w, t2) := fire_user nm tok 2 w in (w, GWait nm (Some t2) (-1) None, k, Some r)
      | SWaitName nm tmo fire =>
          let w := if fire then fst (fire_user nm tok 3 w) else w in (w, GWait nm None tmo None, k, Some r)
      end
  end.

Inductive rkind := RNext | RSend (e : nat) | RThrow.

Definition is_wait (r : gres) : bool := match r with GWait _ _ _ _ => true | _ => false end.

Definition gen_finish (g : gen) : gen :=
  {| g_tok := g_tok g; g_hi := g_hi g; g_catch := g_catch g; g_k := g_k g; g_cur := g_cur g; g_atcall := false; g_rest := None |}.

Definition gen_resume (gid : nat) (how : rkind) (w : world) : world * gres :=
  match nth_error (gens w) gid with
  | None => (set_bad w, GStop)
  | Some g =>
      match g_rest g with
      | None => (w, match how with RThrow => GRaise | _ => GStop end)      (* exhausted generator *)
      | Some sts =>
          let w := match how, g_atcall g with
                   | RNext, false | RSend _, true | RThrow, true => w
                   | _, _ => set_bad w                                   (* excluded by the protocol *)
                   end in
          let pre :=
            match how with
            | RNext => Some w
            | RSend e =>
                match nth_error (evs w) e with
                | Some ev => Some (add_log (LRes (g_tok g) (g_hi g) (g_cur g) e (e_vals ev) (e_errors ev)) w)
                | None => Some (set_bad w)
                end
            | RThrow => if g_catch g then Some (add_log (LTmo (g_tok g) (g_hi g) (g_cur g)) w) else None
            end in
          match pre with
          | None => (mod_gen gid gen_finish (add_log (LTmoUncaught (g_tok g) (g_hi g) (g_cur g)) w), GRaise)
          | Some w =>
              let '(w, r, k', rest) := run_steps (g_tok g) (g_hi g) (g_k g) sts w in
              (mod_gen gid (fun _ => {| g_tok := g_tok g; g_hi := g_hi g; g_catch := g_catch g; g_k := S k'; g_cur := k';
                                        g_atcall := is_wait r; g_rest := rest |}) w, r)
          end
      end
  end.

(* ------------------------------------------------------------------ waitEvent up to `yield state` *)

Definition new_wst (nm : nat) (obj : option nat) (tmo : Z) (cv : option nat) (tev parent : nat) : wst :=
  {| s_name := nm; s_obj := obj; s_run := false; s_event := None; s_timeout := tmo; s_tevent := tev; s_parent := parent;
     s_callval := cv; s_ph := Armed; s_tmo0 := tmo; s_ticks := O; s_resumes := O; s_timedout := false |}.

Definition install (nm : nat) (obj : option nat) (tmo : Z) (cv : option nat) (tev parent : nat) (w : world) : world :=
  let sid := length (wsts w) in
  let w := set_wsts w (wsts w ++ [new_wst nm obj tmo cv tev parent]) in
  let w := add_th (THDone sid) (add_th (THEv sid) w) in
  if 0 <=? tmo then add_th (THTick sid) w else w.

Definition wst_seen (tok : nat) (s : wst) : wst :=
  {| s_name := s_name s; s_obj := s_obj s; s_run := true; s_event := Some tok; s_timeout := s_timeout s; s_tevent := s_tevent s;
     s_parent := s_parent s; s_callval := s_callval s; s_ph := Seen; s_tmo0 := s_tmo0 s; s_ticks := s_ticks s;
     s_resumes := s_resumes s; s_timedout := s_timedout s |}.
Definition wst_phase (ph : phase) (s : wst) : wst :=
  {| s_name := s_name s; s_obj := s_obj s; s_run := s_run s; s_event := s_event s; s_timeout := s_timeout s; s_tevent := s_tevent s;
     s_parent := s_parent s; s_callval := s_callval s; s_ph := ph; s_tmo0 := s_tmo0 s; s_ticks := s_ticks s;
     s_resumes := s_resumes s; s_timedout := s_timedout s |}.
Definition wst_resumed (s : wst) : wst :=
  {| s_name := s_name s; s_obj := s_obj s; s_run := s_run s; s_event := s_event s; s_timeout := s_timeout s; s_tevent := s_tevent s;
     s_parent := s_parent s; s_callval := s_callval s; s_ph := Dead; s_tmo0 := s_tmo0 s; s_ticks := s_ticks s;
     s_resumes := S (s_resumes s); s_timedout := s_timedout s |}.
Definition wst_tick (s : wst) : wst :=
  {| s_name := s_name s; s_obj := s_obj s; s_run := s_run s; s_event := s_event s; s_timeout := s_timeout s - 1; s_tevent := s_tevent s;
     s_parent := s_parent s; s_callval := s_callval s; s_ph := s_ph s; s_tmo0 := s_tmo0 s; s_ticks := S (s_ticks s);
     s_resumes := s_resumes s; s_timedout := s_timedout s |}.
Definition wst_timeout (s : wst) : wst :=
  {| s_name := s_name s; s_obj := s_obj s; s_run := s_run s; s_event := s_event s; s_timeout := s_timeout s; s_tevent := s_tevent s;
     s_parent := s_parent s; s_callval := s_callval s; s_ph := Dead; s_tmo0 := s_tmo0 s; s_ticks := S (s_ticks s);
     s_resumes := s_resumes s; s_timedout := true |}.

Definition wst_thrown (s : wst) : wst :=
  {| s_name := s_name s; s_obj := s_obj s; s_run := s_run s; s_event := s_event s; s_timeout := s_timeout s; s_tevent := s_tevent s;
     s_parent := s_parent s; s_callval := s_callval s; s_ph := s_ph s; s_tmo0 := s_tmo0 s; s_ticks := s_ticks s;
     s_resumes := S (s_resumes s); s_timedout := s_timedout s |}.

(* ------------------------------------------------------------------ processTask *)

(* what processTask does with the value a resumed handler generator hands back
   (CallValue branch, and the ExceptionWrapper branch after the repair) *)
Definition continue_parent (tev p : nat) (how : rkind) (w : world) : world :=
  let '(w, r) := gen_resume p how w in
  match r with
  | GWait nm obj tmo cv => install nm obj tmo cv tev p w
  | GYield v => reg_task (mk_task tev (RGen p) None) (mod_evt tev (fun e => add_oval v (add_wait (-1) e)) w)
  | GStop => reg_task (mk_task tev (RGen p) None) (mod_evt tev (add_wait (-1)) w)        (* except StopIteration, parent set *)
  | GRaise => event_done tev true (mod_evt tev (fun e => add_wait (-2) (add_err e)) w)  (* except BaseException, parent set:
                                                                                           the handler and its call are finished *)
  end.

Definition ptask_body (t : task) (w : world) : world :=
  let tev := t_ev t in
  match t_ref t with
  | RGen g =>
      let '(w, r) := gen_resume g RNext w in
      match r with
      | GYield v => mod_evt tev (add_oval v) w
      | GWait nm obj tmo cv =>
          install nm obj tmo cv tev g (unreg_task (mk_task tev (RGen g) None) (mod_evt tev (add_wait 1) w))
      | GStop =>
          let w := unreg_task t (mod_evt tev (add_wait (-1)) w) in
          match t_parent t with
          | Some p => reg_task (mk_task tev (RGen p) None) w
          | None => event_done tev false w
          end
      | GRaise =>
          let d := match t_parent t with Some _ => -2 | None => -1 end in
          event_done tev true (mod_evt tev (fun e => add_wait d (add_err e)) (unreg_task t w))
      end
  | RWait sid =>
      match nth_error (wsts w) sid with
      | None => set_bad w
      | Some st =>
          if has_th (THDone sid) w then
            let w := del_th (THDone sid) w in
            match (match s_event st with Some e => Some e | None => s_callval st end), t_parent t with
            | Some e, Some p => continue_parent tev p (RSend e) (mod_wst sid wst_resumed (unreg_task t w))
            | _, _ => set_bad w
            end
          else set_bad (mod_evt tev add_err (unreg_task t w))      (* KeyError inside the wait generator *)
      end
  | RTimeout sid =>
      match t_parent t with
      | Some p => continue_parent tev p RThrow
                    (mod_wst sid wst_thrown (unreg_task t w))
      | None => set_bad (unreg_task t w)
      end
  end.

(* once the machinery has crashed ([bad]) the model stops: every further step is the identity *)
Definition ptask (t : task) (w : world) : world := if bad w then w else ptask_body t w.

(* ------------------------------------------------------------------ _dispatcher *)

Fixpoint run_handlers (tok hi : nat) (hs : list hbody) (acc : world * bool) : world * bool :=
  match hs with
  | [] => acc
  | h :: r =>
      let '(w, err) := acc in
      let acc' :=
        match h with
        | HPlain v raises =>
            let w := add_log (LPlain tok hi) w in
            if raises then (mod_evt tok add_err w, true) else (mod_evt tok (add_oval (option_map (tokval tok) v)) w, err)
        | HGen c sts =>
            let gid := length (gens w) in
            let g := {| g_tok := tok; g_hi := hi; g_catch := c; g_k := O; g_cur := O; g_atcall := false; g_rest := Some sts |} in
            (reg_task (mk_task tok (RGen gid) None) (mod_evt tok (add_wait 1) (set_gens w (gens w ++ [g]))), err)
        end in
      run_handlers tok (S hi) r acc'
  end.

Definition obj_ok (o : option nat) (tok : nat) : bool := match o with None => true | Some x => Nat.eqb x tok end.

Definition on_event (tok : nat) (w : world) (sid : nat) : world :=
  if bad w then w else
  match nth_error (wsts w) sid with
  | None => set_bad w
  | Some st =>
      if negb (s_run st) && obj_ok (s_obj st) tok
      then rem_th_k (THEv sid) w (fun w => mod_evt tok set_alert (mod_wst sid (wst_seen tok) w))
      else w
  end.

Definition on_done (tok : nat) (w : world) (sid : nat) : world :=
  if bad w then w else
  match nth_error (wsts w) sid with
  | None => set_bad w
  | Some st =>
      if onat_eqb (s_event st) (Some tok) then
        let w := reg_task (mk_task (s_tevent st) (RWait sid) (Some (s_parent st))) w in
        let w := mod_wst sid (wst_phase Flagged) w in
        if 0 <=? s_timeout st then rem_th_k (THTick sid) w (fun w => w) else w
      else w
  end.

Definition on_tick (w : world) (sid : nat) : world :=
  if bad w then w else
  match nth_error (wsts w) sid with
  | None => set_bad w
  | Some st =>
      if s_timeout st =? 0 then
        let w := reg_task (mk_task (s_tevent st) (RTimeout sid) (Some (s_parent st))) w in
        let rest := fun w => rem_th_k (THDone sid) w (fun w => rem_th_k (THTick sid) w (mod_wst sid wst_timeout)) in
        if s_run st then rest w else rem_th_k (THEv sid) w rest
      else if 0 <? s_timeout st then mod_wst sid wst_tick w
      else w
  end.

Definition name_of_sid (w : world) (sid : nat) : option nat :=
  match nth_error (wsts w) sid with Some st => Some (s_name st) | None => None end.

(* handlers are looked up before the first one runs (snapshot) *)
Definition ev_sids (w : world) (nm : nat) : list nat :=
  flat_map (fun h => match h with THEv sid => if onat_eqb (name_of_sid w sid) (Some nm) then [sid] else [] | _ => [] end) (ths w).
Definition done_sids (w : world) (nm : nat) : list nat :=
  flat_map (fun h => match h with THDone sid => if onat_eqb (name_of_sid w sid) (Some nm) then [sid] else [] | _ => [] end) (ths w).
Definition tick_sids (w : world) : list nat :=
  flat_map (fun h => match h with THTick sid => [sid] | _ => [] end) (ths w).

Definition dispatch (p : program) (w : world) (q : qitem) : world :=
  if bad w then w else
  match q with
  | QUser tok =>
      match nth_error (evs w) tok with
      | None => set_bad w
      | Some e =>
          let sids := ev_sids w (e_name e) in
          let '(w, err) := run_handlers tok O (handlers_of p (e_name e))
                             (add_log (LDisp tok) (mod_evt tok set_dispatched w), false) in
          event_done tok err (fold_left (on_event tok) sids w)
      end
  | QDone tok =>
      match nth_error (evs w) tok with
      | None => set_bad w
      | Some e => fold_left (on_done tok) (done_sids w (e_name e)) w
      end
  | QSucc tok =>
      match nth_error (evs w) tok with
      | None => set_bad w
      | Some e => add_log (LSucc tok (e_vals e) (e_errors e)) w
      end
  | QGenEv => fold_left on_tick (tick_sids w) w
  end.

(* ------------------------------------------------------------------ tick() and the driver *)

(* The root's task set is iterated in an order the property quantifies over.  A schedule names tasks by
   (token, handler index, kind): kind 0 = the handler generator itself, 1 = the one outstanding task of that
   suspended handler (its call/wait generator or its pending TimeoutError - never both, Proofs: F_own).  [order_by] moves the named tasks to the front, in the order
   given; tasks it does not name keep their insertion order behind them.  The result is a permutation. *)
Definition key := (nat * nat * nat)%type.

Definition gen_key (w : world) (gid : nat) : nat * nat :=
  match nth_error (gens w) gid with Some g => (g_tok g, g_hi g) | None => (O, O) end.

Definition tkey (w : world) (t : task) : key :=
  match t_ref t, t_parent t with
  | RGen g, _ => (gen_key w g, O)
  | RWait _, Some p => (gen_key w p, 1%nat)
  | RTimeout _, Some p => (gen_key w p, 1%nat)
  | _, None => ((O, O), 3%nat)
  end.

Definition key_eqb (a b : key) : bool :=
  Nat.eqb (fst (fst a)) (fst (fst b)) && Nat.eqb (snd (fst a)) (snd (fst b)) && Nat.eqb (snd a) (snd b).

Fixpoint pick (w : world) (k : key) (l : list task) : option (task * list task) :=
  match l with
  | [] => None
  | t :: r => if key_eqb (tkey w t) k then Some (t, r)
              else match pick w k r with Some (u, r') => Some (u, t :: r') | None => None end
  end.

Fixpoint order_by (w : world) (s : list key) (l : list task) : list task :=
  match s with
  | [] => l
  | k :: s' => match pick w k l with
               | Some (t, r) => t :: order_by w s' r
               | None => order_by w s' l
               end
  end.

Definition tick (p : program) (gen_ev : bool) (sch : list key) (t : nat) (w : world) : world :=
  let w := add_log (LTick t) w in
  let w := fold_left (fun w t => ptask t w) (order_by w sch (tasks w)) w in
  let w := if gen_ev then push QGenEv w else w in
  let batch := queue w in
  fold_left (dispatch p) batch (set_queue w []).

Definition init : world :=
  {| evs := [new_evt O]; gens := []; wsts := []; ths := []; tasks := []; queue := []; wlog := []; bad := false |}.

Definition fire_roots (roots : list (nat * nat)) (t : nat) (w : world) : world :=
  fold_left (fun w r => if Nat.eqb (fst r) t then fst (fire_user (snd r) O O w) else w) roots w.

Fixpoint run_from (p : program) (gen_ev : bool) (scheds : list (list key)) (roots : list (nat * nat)) (t n : nat) (w : world) : world :=
  match n with
  | O => w
  | S n' => run_from p gen_ev scheds roots (S t) n' (tick p gen_ev (nth t scheds []) t (fire_roots roots t w))
  end.

Definition run (p : program) (gen_ev : bool) (scheds : list (list key)) (roots : list (nat * nat)) (n : nat) : world :=
  run_from p gen_ev scheds roots O n init.
