(* Executable model of circuits/web/dispatchers/virtualhosts.py
   (VirtualHosts.__init__ and _on_request), with fixes/C20_vhost-gateways.patch
   applied (the constructor keeps trusted_gateways).

   urllib.parse.urljoin is a Section variable. *)
From Coq Require Import List NArith Bool.
From Circ Require Import Model.Auth.
Import ListNotations.
Open Scope N_scope.

Definition SLASH_ : N := 47.

(* str.isspace() code points (str.strip() with no argument) *)
Definition is_ws (c : N) : bool :=
  ((9 <=? c) && (c <=? 13)) || ((28 <=? c) && (c <=? 32)) || (c =? 133) || (c =? 160)
  || (c =? 5760) || ((8192 <=? c) && (c <=? 8202)) || (c =? 8232) || (c =? 8233)
  || (c =? 8239) || (c =? 8287) || (c =? 12288).

Fixpoint lstrip (f : N -> bool) (s : str) : str :=
  match s with
  | c :: t => if f c then lstrip f t else s
  | [] => []
  end.
Definition strip (f : N -> bool) (s : str) : str := rev (lstrip f (rev (lstrip f s))).

(* s.split(',')[0] *)
Fixpoint first_field (s : str) : str :=
  match s with
  | [] => []
  | c :: t => if c =? 44 then [] else c :: first_field t
  end.

(* request.remote.ip is a str, or None for a peer without an address (wrappers.Request; the value is
   recorded from the real constructor in the correspondence run).  f'{ip}' as sessions.who() formats it: *)
Definition ip_text (a : option str) : str :=
  match a with Some h => h | None => [78; 111; 110; 101] end.

(* a == b on str-or-None *)
Definition addr_eqb (a b : option str) : bool :=
  match a, b with
  | None, None => true
  | Some x, Some y => str_eqb x y
  | _, _ => false
  end.

(* `remote in gateways`: the list may name None itself (an address-less peer) *)
Fixpoint mem_addr (x : option str) (l : list (option str)) : bool :=
  match l with [] => false | y :: r => addr_eqb x y || mem_addr x r end.

Record vreq := { remote_ip : option str;   (* request.remote.ip: None for a peer without address *)
                 host : str;        (* Host header, '' if absent *)
                 xfh : str;         (* X-Forwarded-Host header, '' if absent *)
                 path : str }.

(* trusted_gateways=None : no restriction configured *)
Definition trusted (tg : option (list (option str))) (r : vreq) : bool :=
  match tg with None => true | Some l => mem_addr (remote_ip r) l end.

Definition forwarded (r : vreq) : str := lower (strip is_ws (first_field (xfh r))).

(* the domain looked up in [domains] *)
Definition domain (tg : option (list (option str))) (r : vreq) : str :=
  if trusted tg r then
    match forwarded r with [] => host r | f => f end
  else host r.

Section VHost.
  Variable urljoin : str -> str -> str.

  (* request.path after the handler *)
  Definition on_request (domains : list (str * str)) (tg : option (list (option str))) (r : vreq) : str :=
    match lookup (domain tg r) domains with
    | None | Some [] => path r
    | Some prefix => urljoin (SLASH_ :: prefix ++ [SLASH_]) (strip (N.eqb SLASH_) (path r))
    end.
End VHost.
