(* Executable model of circuits/web/dispatchers/virtualhosts.py
   (VirtualHosts.__init__ and _on_request), with fixes/C20_vhost-gateways.patch
   applied (the constructor keeps trusted_gateways).

   urllib.parse.urljoin is a Section variable. *)
From Coq Require Import List NArith Bool.
From Circ Require Import Model.Auth.
Import ListNotations.
Open Scope N_scope.

Definition SLASH_ : N := 47.

(* str.isspace() code points (str.strip() with no argument) *)
Definition is_ws (c : N) : bool :=
  ((9 <=? c) && (c <=? 13)) || ((28 <=? c) && (c <=? 32)) || (c =? 133) || (c =? 160)
  || (c =? 5760) || ((8192 <=? c) && (c <=? 8202)) || (c =? 8232) || (c =? 8233)
  || (c =? 8239) || (c =? 8287) || (c =? 12288).

Fixpoint lstrip (f : N -> bool) (s : str) : str :=
  match s with
  | c :: t => if f c then lstrip f t else s
  | [] => []
  end.
Definition strip (f : N -> bool) (s : str) : str := rev (lstrip f (rev (lstrip f s))).

(* s.split(',')[0] *)
Fixpoint first_field (s : str) : str :=
  match s with
  | [] => []
  | c :: t => if c =? 44 then [] else c :: first_field t
  end.

Fixpoint mem_str (x : str) (l : list str) : bool :=
  match l with [] => false | y :: r => str_eqb x y || mem_str x r end.

Record vreq := { remote_ip : str;
                 host : str;        (* Host header, '' if absent *)
                 xfh : str;         (* X-Forwarded-Host header, '' if absent *)
                 path : str }.

(* trusted_gateways=None : no restriction configured *)
Definition trusted (tg : option (list str)) (r : vreq) : bool :=
  match tg with None => true | Some l => mem_str (remote_ip r) l end.

Definition forwarded (r : vreq) : str := lower (strip is_ws (first_field (xfh r))).

(* the domain looked up in [domains] *)
Definition domain (tg : option (list str)) (r : vreq) : str :=
  if trusted tg r then
    match forwarded r with [] => host r | f => f end
  else host r.

Section VHost.
  Variable urljoin : str -> str -> str.

  (* request.path after the handler *)
  Definition on_request (domains : list (str * str)) (tg : option (list str)) (r : vreq) : str :=
    match lookup (domain tg r) domains with
    | None | Some [] => path r
    | Some prefix => urljoin (SLASH_ :: prefix ++ [SLASH_]) (strip (N.eqb SLASH_) (path r))
    end.
End VHost.
