(* Executable model of handler results and success/failure/exception feedback in
   circuits/core (DESIGN.md §6 C04; the KValues layer + the plain-generator subset of KTasks),
   for the REPAIRED code (fixes/C04_success_after_failure.patch, fixes/C04_generator_raise_finishes.patch,
   fixes/C04_nested_value_flags.patch, fixes/C04_list_result.patch):

     Value.setValue / inform      None / single / list accumulation, result flag, promise, value_changed
     Manager._dispatcher          per-handler try/except, errors flag, <name>_failure + exception events,
                                  generator registration (waitingHandlers, promise)
     Manager._eventDone           waitingHandlers gate, <name>_success gating (repaired: also on value.errors)
     Manager.processTask          one next() of a plain generator handler: yield non-None -> value,
                                  StopIteration branch, exception branch (repaired: decrements
                                  waitingHandlers and finishes the event)
     Manager.tick                 tasks of a copy of the task set, then one flush batch

   Handlers are scripts (data).  Python values are [pyval]; the error triple is the atom [PErr].
   Ghost state (not in the Python code): [phase].  No proofs in this file. *)
From Coq Require Import List ZArith Bool Arith.
Import ListNotations.

(* ---- python values that handlers produce *)
Inductive pyval := PNone | PInt (z : Z) | PErr | PList (l : list pyval)
                 | PRef (d : nat).      (* the Value object of event d (a handler returned self.fire(...)) *)

Definition is_none (v : pyval) : bool := match v with PNone => true | _ => false end.
Definition is_err (v : pyval) : bool := match v with PErr => true | _ => false end.
Definition is_list (v : pyval) : bool := match v with PList _ => true | _ => false end.
Definition is_ref (v : pyval) : bool := match v with PRef _ => true | _ => false end.

(* ---- programs: finite trees of scripted events *)
Inductive schan := SDefault | SApp | SOther | SBoth.        (* event.success_channels *)

Inductive ev :=
| Ev (lbl : nat) (succ fail notify both : bool) (sch : schan) (hs : list hdl)
with hdl :=
| HP (kids : list ev) (r : res)                  (* plain handler: fires kids, then returns / raises *)
| HG (ys : list (list ev * pyval)) (lk : list ev) (graise : bool)
      (* generator handler: segment k < length ys fires (fst) and yields (snd); the terminal segment
         (k = length ys) fires lk and then returns (StopIteration) or raises *)
with res :=
| RRet (v : pyval) | RRaise
| RNest (sp : ev)      (* `return self.fire(sp)`: fires the nested event sp and returns its Value *)
| RStop (r : res).     (* `event.stop()` first, then as r: the remaining handlers of the event do not run *)

Definition ev_lbl (e : ev) := let 'Ev l _ _ _ _ _ _ := e in l.
Definition ev_succ (e : ev) := let 'Ev _ b _ _ _ _ _ := e in b.
Definition ev_fail (e : ev) := let 'Ev _ _ b _ _ _ _ := e in b.
Definition ev_notify (e : ev) := let 'Ev _ _ _ b _ _ _ := e in b.
Definition ev_both (e : ev) := let 'Ev _ _ _ _ b _ _ := e in b.
Definition ev_sch (e : ev) := let 'Ev _ _ _ _ _ c _ := e in c.
Definition ev_hs (e : ev) := let 'Ev _ _ _ _ _ _ h := e in h.

(* derived events *)
Inductive dkind := DSucc | DFail | DExc | DVC.
Definition dkind_eqb (a b : dkind) : bool :=
  match a, b with DSucc, DSucc | DFail, DFail | DExc, DExc | DVC, DVC => true | _, _ => false end.

Inductive kindT := KUser | KDer (k : dkind) (of : nat) (toApp toOther : bool).
Inductive phaseT := PQueued | PActive | PFin.

(* log entries carry runtime event ids; component 0 = App (channel 'app'), 1 = Other ('other') *)
Inductive entry :=
| LH (e i : nat)                  (* plain handler i of event e invoked *)
| LG (e i k : nat)                (* segment k of generator handler i of event e entered *)
| LF (e : nat)                    (* user event e fired *)
| LFD (k : dkind) (e : nat)       (* derived event of kind k about event e fired *)
| LDU (e c : nat)                 (* user event e seen by the observer of component c *)
| LDD (k : dkind) (e c : nat).    (* derived event (k, e) seen by the observer of component c *)

(* ---- Value *)
Record value := { vv : pyval; vcoll : bool; vresult : bool; verrors : bool; vpromise : bool }.
Definition vinit : value :=
  {| vv := PNone; vcoll := false; vresult := false; verrors := false; vpromise := false |}.

(* Value.setValue on (_value, _collecting) (repaired, fixes/C04_nested_value_flags.patch and
   fixes/C04_list_result.patch):
   `if self._collecting: self._value.append(value)
    elif self._value is not None: self._value = [self._value, value]; self._collecting = True
    else: self._value = value`.
   [vcoll] says that _value is the list of several results, so a handler's own list result is no longer
   taken for it.  (`_collecting` is only ever set together with a list _value; the first branch on a
   non-list cannot occur and is modelled like the second.) *)
Definition set_slot (c : pyval * bool) (x : pyval) : pyval * bool :=
  let '(cur, coll) := c in
  if coll then (match cur with PList l => PList (l ++ [x]) | y => PList [y; x] end, true)
  else match cur with PNone => (x, false) | y => (PList [y; x], true) end.

Record task := { tev : nat; thd : nat; tk : nat }.

Record st := {
  next : nat;                     (* events are 0 .. next-1, in firing order *)
  spec : nat -> ev;
  kind : nat -> kindT;
  val : nat -> value;             (* event.value *)
  vpar : nat -> option nat;       (* event.value.parent: Some p = the Value of event p; None = itself *)
  waiting : nat -> nat;           (* event.waitingHandlers *)
  phase : nat -> phaseT;          (* ghost: queued / dispatched, generators pending / passed the _eventDone gate *)
  queue : list nat;
  tasks : list task;
  log : list entry                (* newest first *)
}.

Definition upd {A} (f : nat -> A) (i : nat) (v : A) : nat -> A :=
  fun j => if Nat.eqb j i then v else f j.

Definition dummy : ev := Ev 0 false false false false SDefault [].

Definition init : st :=
  {| next := 0; spec := fun _ => dummy; kind := fun _ => KUser; val := fun _ => vinit;
     vpar := fun _ => None; waiting := fun _ => 0; phase := fun _ => PQueued; queue := []; tasks := []; log := [] |}.

(* ---- field setters *)
Definition set_val (e : nat) (v : value) (s : st) : st :=
  {| next := next s; spec := spec s; kind := kind s; val := upd (val s) e v; vpar := vpar s; waiting := waiting s;
     phase := phase s; queue := queue s; tasks := tasks s; log := log s |}.
Definition set_wait (e : nat) (n : nat) (s : st) : st :=
  {| next := next s; spec := spec s; kind := kind s; val := val s; vpar := vpar s; waiting := upd (waiting s) e n;
     phase := phase s; queue := queue s; tasks := tasks s; log := log s |}.
Definition set_phase (e : nat) (p : phaseT) (s : st) : st :=
  {| next := next s; spec := spec s; kind := kind s; val := val s; vpar := vpar s; waiting := waiting s;
     phase := upd (phase s) e p; queue := queue s; tasks := tasks s; log := log s |}.
Definition set_queue (q : list nat) (s : st) : st :=
  {| next := next s; spec := spec s; kind := kind s; val := val s; vpar := vpar s; waiting := waiting s;
     phase := phase s; queue := q; tasks := tasks s; log := log s |}.
Definition set_tasks (t : list task) (s : st) : st :=
  {| next := next s; spec := spec s; kind := kind s; val := val s; vpar := vpar s; waiting := waiting s;
     phase := phase s; queue := queue s; tasks := t; log := log s |}.
Definition add_log (x : entry) (s : st) : st :=
  {| next := next s; spec := spec s; kind := kind s; val := val s; vpar := vpar s; waiting := waiting s;
     phase := phase s; queue := queue s; tasks := tasks s; log := x :: log s |}.

(* ---- fire: Event.__init__ + Value(event, self) + _EventQueue.append (all events have priority 0) *)
Definition alloc (k : kindT) (sp : ev) (s : st) : st :=
  let d := next s in
  {| next := S d; spec := upd (spec s) d sp; kind := upd (kind s) d k; val := upd (val s) d vinit; vpar := vpar s;
     waiting := upd (waiting s) d 0; phase := upd (phase s) d PQueued;
     queue := queue s ++ [d]; tasks := tasks s; log := log s |}.

Definition fire_user (sp : ev) (s : st) : st := alloc KUser sp (add_log (LF (next s)) s).

Fixpoint fire_all (l : list ev) (s : st) : st :=
  match l with
  | [] => s
  | sp :: r => fire_all r (fire_user sp s)
  end.

(* channels a derived event is delivered on, as (reaches App's observer, reaches Other's observer):
   success -> success_channels or event.channels; failure -> event.channels;
   exception -> the root's channel; value_changed -> the firing manager instance *)
Definition der_chans (k : dkind) (sp : ev) : bool * bool :=
  match k with
  | DSucc => match ev_sch sp with
             | SDefault => (true, ev_both sp) | SApp => (true, false)
             | SOther => (false, true) | SBoth => (true, true)
             end
  | DFail => (true, ev_both sp)
  | DExc => (true, false)
  | DVC => (true, false)
  end.

Definition fire_der (k : dkind) (e : nat) (s : st) : st :=
  let '(a, o) := der_chans k (spec s e) in
  alloc (KDer k e a o) dummy (add_log (LFD k e) s).

(* ---- Value.inform / Value.setValue *)
Definition inform (force : bool) (e : nat) (s : st) : st :=
  if vpromise (val s e) && negb force then s
  else if ev_notify (spec s e) then fire_der DVC e s else s.

(* setValue(x) of the Value of e for an x that is not itself a Value: store, `update(self, x)` without
   the walk up the parent chain *)
Definition set_value_local (e : nat) (x : pyval) (s : st) : st :=
  let v := val s e in
  let s1 := set_val e {| vv := fst (set_slot (vv v, vcoll v) x); vcoll := snd (set_slot (vv v, vcoll v) x);
                         vresult := vresult v || negb (is_none x);
                         verrors := verrors v; vpromise := vpromise v |} s in
  if is_none x then s1 else inform false e s1.

Definition set_par (d p : nat) (s : st) : st :=
  {| next := next s; spec := spec s; kind := kind s; val := val s; vpar := upd (vpar s) d (Some p);
     waiting := waiting s; phase := phase s; queue := queue s; tasks := tasks s; log := log s |}.

Definition with_flags (v : value) (r er : bool) : value :=
  {| vv := vv v; vcoll := vcoll v; vresult := r; verrors := er; vpromise := vpromise v |}.

(* the tail of `update(o, v)`: `if o.parent is not o: o.parent.errors = o.errors; o.parent.result = o.result;
   update(o.parent, v)` — up the chain of parent Values (a parent is always an older event: fuel S o) *)
Fixpoint propagate (fuel : nat) (o : nat) (x : pyval) (s : st) : st :=
  match fuel with
  | O => s
  | S f =>
      match vpar s o with
      | None => s
      | Some p =>
          let s1 := set_val p (with_flags (val s p) (vresult (val s o))
                                          (verrors (val s p) || verrors (val s o))) s in
          let s2 := match x with
                    | PRef d => set_val p (with_flags (val s1 p) (vresult (val s1 d))
                                                      (verrors (val s1 p) || verrors (val s1 d))) s1
                    | PNone => s1
                    | _ => inform false p (set_val p (with_flags (val s1 p) true (verrors (val s1 p))) s1)
                    end in
          propagate f p x s2
      end
  end.

(* Value.setValue: a Value argument gets `parent = self`, is stored like any result, and its result flag
   is copied and its errors flag or-ed in (repaired: sticky; no inform); any other argument as above; then the parent chain *)
Definition set_value (e : nat) (x : pyval) (s : st) : st :=
  match x with
  | PRef d =>
      let s0 := set_par d e s in
      let v := val s0 e in
      propagate (S e) e x
        (set_val e {| vv := fst (set_slot (vv v, vcoll v) x); vcoll := snd (set_slot (vv v, vcoll v) x);
                      vresult := vresult (val s0 d);
                      verrors := verrors v || verrors (val s0 d); vpromise := vpromise v |} s0)
  | _ => propagate (S e) e x (set_value_local e x s)
  end.

Definition set_errors (e : nat) (s : st) : st :=
  let v := val s e in
  set_val e {| vv := vv v; vcoll := vcoll v; vresult := vresult v; verrors := true; vpromise := vpromise v |} s.

Definition set_promise (e : nat) (s : st) : st :=
  let v := val s e in
  set_val e {| vv := vv v; vcoll := vcoll v; vresult := vresult v; verrors := verrors v; vpromise := true |} s.

(* `if event.failure: fire(<name>_failure)` ; `fire(exception(...))` *)
Definition raise_feedback (e : nat) (s : st) : st :=
  fire_der DExc e (if ev_fail (spec s e) then fire_der DFail e s else s).

(* ---- _eventDone (alert_done / complete are other properties' business) *)
Definition event_done (e : nat) (err : bool) (s : st) : st :=
  if Nat.eqb (waiting s e) 0 then
    let s1 := set_phase e PFin s in
    if negb err && negb (verrors (val s1 e)) && ev_succ (spec s1 e) then fire_der DSucc e s1 else s1
  else s.

(* ---- _dispatcher *)
Definition add_task (e i : nat) (s : st) : st :=
  set_tasks (tasks s ++ [{| tev := e; thd := i; tk := 0 |}])
            (set_promise e (set_wait e (S (waiting s e)) s)).

Fixpoint unstop (r : res) : res := match r with RStop r' => unstop r' | _ => r end.
Definition stops (h : hdl) : bool := match h with HP _ (RStop _) => true | _ => false end.

(* one handler of the pass; the bool is the dispatcher's `err is not None` *)
Definition run_handler (e i : nat) (h : hdl) (err : bool) (s : st) : st * bool :=
  match h with
  | HP kids r =>
      let s1 := fire_all kids (add_log (LH e i) s) in
      match unstop r with
      | RRaise => (set_value e PErr (raise_feedback e (set_errors e s1)), true)
      | RRet v => (if is_none v then s1 else set_value e v s1, err)
      | RNest sp => (set_value e (PRef (next s1)) (fire_user sp s1), err)
      | RStop _ => (s1, err)
      end
  | HG _ _ _ => (add_task e i s, err)
  end.

Fixpoint run_handlers (e i : nat) (hs : list hdl) (err : bool) (s : st) : st * bool :=
  match hs with
  | [] => (s, err)
  | h :: r => let '(s1, err1) := run_handler e i h err s in
              if stops h then (s1, err1)          (* `if event.stopped: break` *)
              else run_handlers e (S i) r err1 s1
  end.

Definition observers (a o : bool) : list nat := (if a then [0] else []) ++ (if o then [1] else []).

Fixpoint log_all (l : list entry) (s : st) : st :=
  match l with [] => s | x :: r => log_all r (add_log x s) end.

Definition dispatch (e : nat) (s : st) : st :=
  match kind s e with
  | KUser =>
      let s0 := set_phase e PActive s in
      let '(s1, err) := run_handlers e 0 (ev_hs (spec s0 e)) false s0 in
      (* the two catch-all observers (priorities -5, -6) run last and return None — unless a handler
         has stopped the event *)
      let s2 := log_all (if existsb stops (ev_hs (spec s0 e)) then []
                         else map (LDU e) (observers true (ev_both (spec s1 e)))) s1 in
      event_done e err s2
  | KDer k x a o => set_phase e PFin (log_all (map (LDD k x) (observers a o)) s)
  end.

(* ---- processTask: one next() of the task at position p of the task list *)
Fixpoint remove_nth {A} (p : nat) (l : list A) : list A :=
  match l, p with
  | [], _ => []
  | _ :: r, O => r
  | x :: r, S q => x :: remove_nth q r
  end.
Fixpoint replace_nth {A} (p : nat) (v : A) (l : list A) : list A :=
  match l, p with
  | [], _ => []
  | _ :: r, O => v :: r
  | x :: r, S q => x :: replace_nth q v r
  end.

(* StopIteration branch *)
Definition task_stop (p e : nat) (s : st) : st :=
  let s1 := set_tasks (remove_nth p (tasks s)) (set_wait e (pred (waiting s e)) s) in
  if Nat.eqb (waiting s1 e) 0 then event_done e false (inform true e s1) else s1.

(* `except BaseException` branch; the last two steps are the repair *)
Definition task_raise (p e : nat) (s : st) : st :=
  let s1 := set_tasks (remove_nth p (tasks s)) s in
  let s2 := inform true e (set_errors e (set_value e PErr s1)) in
  let s3 := raise_feedback e s2 in
  event_done e true (set_wait e (pred (waiting s3 e)) s3).

Definition step_task (p : nat) (s : st) : st :=
  match nth_error (tasks s) p with
  | None => s
  | Some t =>
      let e := tev t in
      match nth_error (ev_hs (spec s e)) (thd t) with
      | Some (HG ys lk gr) =>
          match nth_error ys (tk t) with
          | Some (kids, y) =>
              let s1 := fire_all kids (add_log (LG e (thd t) (tk t)) s) in
              let s2 := if is_none y then s1 else set_value e y s1 in
              set_tasks (replace_nth p {| tev := e; thd := thd t; tk := S (tk t) |} (tasks s2)) s2
          | None =>
              let s1 := fire_all lk (add_log (LG e (thd t) (tk t)) s) in
              if gr then task_raise p e s1 else task_stop p e s1
          end
      | _ => s
      end
  end.

(* ---- the transition system the theorems quantify over *)
Inductive label := LDisp | LTask (p : nat).

Definition step (l : label) (s : st) : st :=
  match l with
  | LDisp => match queue s with
             | [] => s
             | e :: q => dispatch e (set_queue q s)
             end
  | LTask p => step_task p s
  end.

Definition exec (ls : list label) (s : st) : st := fold_left (fun s l => step l s) ls s.

Definition start (roots : list ev) : st := fire_all roots init.

Definition reachable (s : st) : Prop := exists roots ls, s = exec ls (start roots).

(* ---- tick / run: the particular schedule of Manager.tick, task order given per tick *)
Fixpoint find_task (l i : nat) (s : st) (ts : list task) (p : nat) : option nat :=
  match ts with
  | [] => None
  | t :: r => if Nat.eqb (ev_lbl (spec s (tev t))) l && Nat.eqb (thd t) i then Some p
              else find_task l i s r (S p)
  end.

Fixpoint step_named (keys : list (nat * nat)) (s : st) : st :=
  match keys with
  | [] => s
  | (l, i) :: r =>
      step_named r (match find_task l i s (tasks s) 0 with
                    | Some p => step (LTask p) s
                    | None => s
                    end)
  end.

Fixpoint dispatch_n (n : nat) (s : st) : st :=
  match n with
  | O => s
  | S k => dispatch_n k (step LDisp s)
  end.

Definition tick (keys : list (nat * nat)) (s : st) : st :=
  let s1 := step_named keys s in dispatch_n (length (queue s1)) s1.

Definition quiet (s : st) : bool :=
  match queue s, tasks s with [], [] => true | _, _ => false end.

Fixpoint run (fuel : nat) (sched : list (list (nat * nat))) (s : st) : st :=
  match fuel with
  | O => s
  | S f => if quiet s then s else run f (tl sched) (tick (hd [] sched) s)
  end.

(* ---- specification vocabulary used by the theorem statements *)

(* "a single result is stored as such, several as a list in the order they were produced" *)
Definition pack (l : list pyval) : pyval :=
  match l with [] => PNone | [x] => x | _ => PList l end.

Definition nonnone (v : pyval) : list pyval := if is_none v then [] else [v].

(* what a handler-activity log entry contributes to the results of event e: a plain handler's
   invocation contributes its return value / the error triple, segment k of a generator its yield /
   the error triple *)
Definition contrib (sp : nat -> ev) (e : nat) (x : entry) : list pyval :=
  match x with
  | LH e' i =>
      if Nat.eqb e' e then
        match nth_error (ev_hs (sp e)) i with
        | Some (HP _ r) => match unstop r with RRet v => nonnone v | RRaise => [PErr] | _ => [] end
        | _ => []
        end
      else []
  | LG e' i k =>
      if Nat.eqb e' e then
        match nth_error (ev_hs (sp e)) i with
        | Some (HG ys _ gr) =>
            match nth_error ys k with
            | Some (_, y) => nonnone y
            | None => if gr then [PErr] else []
            end
        | _ => []
        end
      else []
  | _ => []
  end.

(* the results of event e in production order, read off the log (which is newest first) *)
Definition produced (sp : nat -> ev) (e : nat) (lg : list entry) : list pyval :=
  flat_map (contrib sp e) (rev lg).

(* entry x records the activity of a handler of e that ends by raising *)
Definition raises (sp : nat -> ev) (e : nat) (x : entry) : bool :=
  match x with
  | LH e' i => Nat.eqb e' e && match nth_error (ev_hs (sp e)) i with
                               | Some (HP _ r) => match unstop r with RRaise => true | _ => false end
                               | _ => false end
  | LG e' i k => Nat.eqb e' e && match nth_error (ev_hs (sp e)) i with
                                 | Some (HG ys _ gr) => match nth_error ys k with Some _ => false | None => gr end
                                 | _ => false end
  | _ => false
  end.

(* number of handlers of e that have raised so far *)
Definition nraised (sp : nat -> ev) (e : nat) (lg : list entry) : nat := length (filter (raises sp e) lg).

Fixpoint count_der (k : dkind) (e : nat) (l : list entry) : nat :=
  match l with
  | [] => 0
  | LFD k' e' :: r => (if dkind_eqb k' k && Nat.eqb e' e then 1 else 0) + count_der k e r
  | _ :: r => count_der k e r
  end.

(* log entry x records handler activity of event e *)
Definition hentry (x : entry) (e : nat) : Prop :=
  match x with LH e' _ => e' = e | LG e' _ _ => e' = e | _ => False end.

Definition is_user (s : st) (e : nat) : bool :=
  match kind s e with KUser => true | _ => false end.

(* handler i of e (script h) has run to its end according to the log *)
Definition handler_finished (lg : list entry) (e i : nat) (h : hdl) : Prop :=
  match h with
  | HP _ _ => In (LH e i) lg
  | HG ys _ _ => forall k, k <= length ys -> In (LG e i k) lg
  end.

(* what Value.setValue makes of a sequence of non-None results, starting from a fresh Value *)
Fixpoint accum_from (c : pyval * bool) (l : list pyval) : pyval * bool :=
  match l with
  | [] => c
  | x :: r => accum_from (set_slot c x) r
  end.
Definition accum (l : list pyval) : pyval := fst (accum_from (PNone, false) l).

(* the handler-activity part of a log *)
Definition is_h (x : entry) : bool := match x with LH _ _ | LG _ _ _ => true | _ => false end.
Definition hpart (l : list entry) : list entry := filter is_h l.

(* in a newest-first list of handler-activity entries: the segments of one generator handler that are older
   than segment k have smaller numbers *)
Definition hordered (H : list entry) : Prop :=
  forall h1 h2 e i k, H = h1 ++ LG e i k :: h2 -> forall k', In (LG e i k') h2 -> k' < k.

(* a plain handler that ends by raising (possibly after event.stop()) *)
Definition raising (h : hdl) : bool :=
  match h with HP _ r => match unstop r with RRaise => true | _ => false end | _ => false end.

(* the handlers of a dispatcher pass that are actually invoked: up to and including the first one that
   stops the event *)
Fixpoint upto_stop (hs : list hdl) : list hdl :=
  match hs with [] => [] | h :: r => if stops h then [h] else h :: upto_stop r end.

(* ---- programs of the original grammar: no handler returns the Value of a nested event or calls
   event.stop(), no script value is a Value reference *)
Fixpoint plain_ev (e : ev) : bool :=
  match e with Ev _ _ _ _ _ _ hs => forallb plain_hdl hs end
with plain_hdl (h : hdl) : bool :=
  match h with
  | HP kids r => forallb plain_ev kids &&
                 match r with RRet v => negb (is_ref v) | RRaise => true | RNest _ | RStop _ => false end
  | HG ys lk _ => forallb (fun p => forallb plain_ev (fst p) && negb (is_ref (snd p))) ys && forallb plain_ev lk
  end.

Definition reachable_plain (s : st) : Prop :=
  exists roots ls, forallb plain_ev roots = true /\ s = exec ls (start roots).

(* ---- the kind of exception a raising handler raises (0 an Exception subclass, 1 a BaseException subclass
   that is not an Exception, 2 GeneratorExit; SystemExit / KeyboardInterrupt belong to C08) is a parameter of the
   scripts that the model ignores: the dispatcher and processTask treat every such exception alike.  The
   harness emits [RRaiseK k] / [HGK k ...]; they are RRaise / HG whatever k is, so every theorem about
   programs holds for every choice of kinds, and an implementation whose behaviour depends on the kind
   disagrees with the model. *)
Definition RRaiseK (k : nat) : res := RRaise.
Definition HGK (k : nat) (ys : list (list ev * pyval)) (lk : list ev) (graise : bool) : hdl := HG ys lk graise.
