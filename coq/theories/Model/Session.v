(* Executable model of circuits/web/sessions.py: who, create_session,
   verify_session, MemoryStore (defaultdict), Sessions.request, Session.__exit__
   (save) and Session.expire (delete).

   sha1(...).hexdigest() and uuid4().hex are Section variables / inputs. *)
From Coq Require Import List NArith Bool.
From Circ Require Import Model.Auth.
Import ListNotations.
Open Scope N_scope.

Definition SLASH : N := 47.
Definition SEP : N := 124.               (* '|' between address and agent in who() *)

Record req := { cookie : option str;   (* value of the session cookie, if presented *)
                ip : str;              (* request.remote.ip *)
                agent : str }.         (* User-Agent header, '' if absent *)

(* what the application does with request.session *)
Inductive action := Read | Write (v : N) | Expire.

Definition data := option N.           (* None = {} ; Some v = {'v': v} *)
Definition store := list (str * data). (* MemoryStore._data (a dict: set_key keeps keys unique) *)

Fixpoint set_key (k : str) (d : data) (s : store) : store :=
  match s with
  | [] => [(k, d)]
  | (k', d') :: r => if str_eqb k k' then (k, d) :: r else (k', d') :: set_key k d r
  end.

Fixpoint del_key (k : str) (s : store) : store :=
  match s with
  | [] => []
  | (k', d') :: r => if str_eqb k k' then del_key k r else (k', d') :: del_key k r
  end.

Section Session.
  Variable sha : str -> str.           (* sha1(s.encode('utf-8')).hexdigest() *)

  (* with fixes/C20_session-fingerprint-separator.patch: f'{ip}|{agent}' *)
  Definition who (r : req) : str := sha (ip r ++ SEP :: agent r).

  (* create_session with uuid4().hex = u *)
  Definition create (u : str) (r : req) : str := u ++ SLASH :: who r.

  Definition verify (u : str) (r : req) (sid : str) : str :=
    match split_at SLASH sid with
    | None => create u r
    | Some (_, user) => if str_eqb user (who r) then sid else create u r
    end.

  (* the session id Sessions.request serves to r; u = the uuid drawn if one is needed *)
  Definition serve (u : str) (r : req) : str :=
    match cookie r with
    | Some c => verify u r c
    | None => create u r
    end.

  (* store.load(sid): defaultdict creates the empty entry *)
  Definition load (sid : str) (s : store) : data * store :=
    match lookup sid s with
    | Some d => (d, s)
    | None => (None, set_key sid None s)
    end.

  (* one request: (store', (served sid, data seen in request.session)) *)
  Definition step (s : store) (x : req * action * str) : store * (str * data) :=
    let '(r, a, u) := x in
    let sid := serve u r in
    let '(d, s1) := load sid s in
    let s2 := match a with
              | Read => s1
              | Write v => set_key sid (Some v) s1
              | Expire => del_key sid s1
              end in
    (s2, (sid, d)).

  Fixpoint run (s : store) (h : list (req * action * str)) : list (str * data) :=
    match h with
    | [] => []
    | x :: t => let '(s', o) := step s x in o :: run s' t
    end.
End Session.
