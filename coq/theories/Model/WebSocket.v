(* Executable model of circuits/protocols/websocket.py (WebSocketCodec), as repaired by
   fixes/C17_*.patch:  _encode_tail, the write handler, _parse_messages with _buffer,
   _pending_payload/_pending_type, the close flags, ping -> pong, the close handler.
   Bytes are N.  os.urandom(4) is the oracle [keyfn] (n-th masking key drawn).
   The second half is an independent RFC 6455 frame encoder used as the specification
   of "a conforming peer".  No proofs in this file. *)
From Coq Require Import List NArith Bool.
Import ListNotations.
Open Scope N_scope.

(* ------------------------------------------------------------------ masking *)

(* for i, c in enumerate(data): c ^ masking_key[i % 4]   (None = IndexError) *)
Fixpoint mask_from (key : list N) (i : N) (d : list N) : option (list N) :=
  match d with
  | [] => Some []
  | c :: t =>
      match nth_error key (N.to_nat (i mod 4)) with
      | None => None
      | Some k => match mask_from key (i + 1) t with
                  | None => None
                  | Some r => Some (N.lxor c k :: r)
                  end
      end
  end.

(* ------------------------------------------------------------------ _encode_tail *)

(* for i in range(lbytes - 1, -1, -1): tail.append(data_length >> (i * 8) & 0xFF) *)
Definition len_bytes (lbytes : nat) (n : N) : list N :=
  map (fun i => N.land (N.shiftr n (N.of_nat i * 8)) 255) (rev (seq 0 lbytes)).

Definition encode_tail (data : list N) (mk : option (list N)) : option (list N) :=
  let n := N.of_nat (length data) in
  let '(len_byte, lbytes) :=
    if n <=? 125 then (n, 0%nat)
    else if n <=? 65535 then (126, 2%nat) else (127, 8%nat) in
  let len_byte := match mk with Some _ => N.lor len_byte 128 | None => len_byte end in
  match mk with
  | None => Some (len_byte :: len_bytes lbytes n ++ data)
  | Some key =>
      match mask_from key 0 data with
      | Some m => Some (len_byte :: len_bytes lbytes n ++ key ++ m)
      | None => None
      end
  end.

(* ------------------------------------------------------------------ one frame of _parse_messages *)

Inductive fres :=
| FIncomplete                                             (* self._buffer = data; break *)
| FFrame (final : bool) (opcode : N) (payload rest : list N)
| FCrash.                                                 (* an exception escapes *)

(* payload_length = payload_length * 256 + data[offset] *)
Definition be_decode (l : list N) : N := fold_left (fun a b => a * 256 + b) l 0.

(* the two header bytes *)
Definition b_final (b0 : N) : bool := negb (N.land b0 128 =? 0).    (* data[0] & 0x80 != 0 *)
Definition b_opcode (b0 : N) : N := N.land b0 15.                   (* data[0] & 0xF *)
Definition b_mask (b1 : N) : bool := negb (N.land b1 128 =? 0).     (* data[1] & 0x80 != 0 *)
Definition b_len7 (b1 : N) : N := N.land b1 127.                    (* data[1] & 0x7F *)
(* number of extended length bytes *)
Definition ext_len (pl7 : N) : nat :=
  if pl7 <? 126 then 0%nat else if pl7 =? 126 then 2%nat else 8%nat.

Definition parse_frame (data : list N) : fres :=
  match data with
  | b0 :: b1 :: r =>
      let pl7 := b_len7 b1 in
      let nb := ext_len pl7 in
      if Nat.ltb (length r) nb then FIncomplete        (* guard added by C17_header_cut.patch *)
      else
        let plen := if pl7 <? 126 then pl7 else be_decode (firstn nb r) in
        let r1 := skipn nb r in
        let klen := if b_mask b1 then 4%nat else 0%nat in
        let key := firstn klen r1 in                   (* a slice: may be short *)
        let r2 := skipn klen r1 in
        (* if len(data) - offset < payload_length *)
        if N.of_nat (length r1) <? N.of_nat klen + plen then FIncomplete
        else
          let payload := firstn (N.to_nat plen) r2 in
          let rest := skipn (N.to_nat plen) r2 in
          if b_mask b1 then
            match mask_from key 0 payload with
            | Some p => FFrame (b_final b0) (b_opcode b0) p rest
            | None => FCrash
            end
          else FFrame (b_final b0) (b_opcode b0) payload rest
  | _ => FIncomplete                                   (* len(data) < 2: guard added by the patch *)
  end.

(* ------------------------------------------------------------------ the frame loop *)

Record pstate := mkP {
  pend : list N;           (* _pending_payload *)
  ptype : option N;        (* _pending_type *)
  nk : nat                 (* masking keys drawn so far *)
}.

Definition msg := (bool * list N)%type.     (* (is text, payload bytes) *)

Record pres := mkR {
  r_msgs : list msg;            (* read events fired on the codec's channel *)
  r_writes : list (list N);     (* write events fired on the parent's channel (pongs) *)
  r_closed : bool;              (* close frame seen: close event fired on the codec's channel *)
  r_buf : list N;               (* _buffer afterwards *)
  r_ps : pstate
}.

Inductive R (A : Type) := ROk (a : A) | RCrash | RFuel.
Arguments ROk {A} a.
Arguments RCrash {A}.
Arguments RFuel {A}.

Definition add_msg (m : msg) (r : R pres) : R pres :=
  match r with
  | ROk x => ROk (mkR (m :: r_msgs x) (r_writes x) (r_closed x) (r_buf x) (r_ps x))
  | e => e
  end.
Definition add_write (w : list N) (r : R pres) : R pres :=
  match r with
  | ROk x => ROk (mkR (r_msgs x) (w :: r_writes x) (r_closed x) (r_buf x) (r_ps x))
  | e => e
  end.

Definition is_text (opcode : N) (pt : option N) : bool :=
  (opcode =? 1) || ((opcode =? 0) && match pt with Some t => t =? 1 | None => false end).

Section Codec.
Variable keyfn : nat -> list N.     (* os.urandom(4): the n-th key drawn *)
Variable client : bool.             (* self._sock is None: outgoing frames are masked *)

Definition out_key (n : nat) : option (list N) := if client then Some (keyfn n) else None.
Definition bump (n : nat) : nat := if client then S n else n.

(* what the loop body does with one complete frame.  [cs] = self._close_sent *)
Inductive act :=
| AMsg (m : msg) (p' : pstate)         (* msgs.append(msg) *)
| AWrite (w : list N) (p' : pstate)    (* self._write(frame) *)
| ASkip (p' : pstate)
| AClose                               (* close frame: fire close, break *)
| ACrash.

Definition frame_act (cs : bool) (p : pstate) (final : bool) (opcode : N) (payload : list N) : act :=
  (* msg = self._pending_payload + msg, data frames only (C17_pong_payload.patch) *)
  let m := if opcode <? 8 then pend p ++ payload else payload in
  if final then
    if opcode <? 8 then AMsg (is_text opcode (ptype p), m) (mkP [] None (nk p))
    else if opcode =? 8 then AClose
    else if opcode =? 9 then
      if cs then ASkip p                               (* C17_ping_after_close.patch *)
      else
        match encode_tail m (out_key (nk p)) with
        | Some tail => AWrite (138 :: tail) (mkP (pend p) (ptype p) (bump (nk p)))
        | None => ACrash
        end
    else ASkip p
  else ASkip (mkP m (if opcode =? 0 then ptype p else Some opcode) (nk p)).

(* while data: ...   (every complete frame consumes at least two bytes; fuel = len(data) + 1) *)
Fixpoint loop (fuel : nat) (cs : bool) (p : pstate) (data : list N) : R pres :=
  match fuel with
  | O => RFuel
  | S f =>
      match data with
      | [] => ROk (mkR [] [] false [] p)
      | _ :: _ =>
          match parse_frame data with
          | FIncomplete => ROk (mkR [] [] false data p)
          | FCrash => RCrash
          | FFrame final opcode payload rest =>
              match frame_act cs p final opcode payload with
              | AMsg m p' => add_msg m (loop f cs p' rest)
              | AWrite w p' => add_write w (loop f cs p' rest)
              | ASkip p' => loop f cs p' rest
              | AClose => ROk (mkR [] [] true [] p)
              | ACrash => RCrash
              end
          end
      end
  end.

(* ------------------------------------------------------------------ the component *)

Record st := mkS {
  buf : list N;        (* _buffer *)
  ps : pstate;
  crecv : bool;        (* _close_received *)
  csent : bool         (* _close_sent *)
}.

Definition init : st := mkS [] (mkP [] None 0) false false.

(* what one operation makes visible outside the codec *)
Record out := mkO {
  delivered : list msg;          (* read events on the codec's channel, in order *)
  written : list (list N);       (* write events on the parent's channel, in order *)
  pclose : nat                   (* close events on the parent's channel *)
}.
Definition no_out : out := mkO [] [] 0.
Definition out_app (a b : out) : out :=
  mkO (delivered a ++ delivered b) (written a ++ written b) (pclose a + pclose b)%nat.

(* the close handler (_on_close); the close frame is 0x88 + _encode_tail(b'', self._sock is None)
   (C17_client_close_masked.patch: a client masks its close frame too) *)
Definition on_close (s : st) : R (st * out) :=
  let pc := if crecv s then 1%nat else 0%nat in
  if csent s then ROk (mkS (buf s) (ps s) (crecv s) true, mkO [] [] pc)
  else
    match encode_tail [] (out_key (nk (ps s))) with
    | Some tail =>
        let p := ps s in
        ROk (mkS (buf s) (mkP (pend p) (ptype p) (bump (nk p))) (crecv s) true,
             mkO [] [136 :: tail] pc)
    | None => RCrash
    end.

(* a read event on the parent's channel: _parse_messages, then the events it fired are handled *)
Definition recv (s : st) (chunk : list N) : R (st * out) :=
  if crecv s then ROk (s, no_out)
  else
    let data := buf s ++ chunk in
    match loop (S (length data)) (csent s) (ps s) data with
    | ROk r =>
        let s1 := mkS (r_buf r) (r_ps r) (r_closed r) (csent s) in
        if r_closed r then
          match on_close s1 with
          | ROk (s2, o2) => ROk (s2, mkO (r_msgs r) (r_writes r ++ written o2) (pclose o2))
          | RCrash => RCrash
          | RFuel => RFuel
          end
        else ROk (s1, mkO (r_msgs r) (r_writes r) 0%nat)
    | RCrash => RCrash
    | RFuel => RFuel
    end.

(* a write event on the codec's channel (_on_write) *)
Definition send (s : st) (text : bool) (payload : list N) : R (st * out) :=
  if csent s then ROk (s, no_out)
  else
    match encode_tail payload (out_key (nk (ps s))) with
    | Some tail =>
        let p := ps s in
        ROk (mkS (buf s) (mkP (pend p) (ptype p) (bump (nk p))) (crecv s) (csent s),
             mkO [] [(if text then 129 else 130) :: tail] 0%nat)
    | None => RCrash
    end.

Inductive op :=
| Recv (chunk : list N)
| Send (text : bool) (payload : list N)
| Close.

Definition step (s : st) (o : op) : R (st * out) :=
  match o with
  | Recv c => recv s c
  | Send t p => send s t p
  | Close => on_close s
  end.

(* outputs per operation *)
Fixpoint run (s : st) (ops : list op) : R (st * list out) :=
  match ops with
  | [] => ROk (s, [])
  | o :: r =>
      match step s o with
      | ROk (s1, x) =>
          match run s1 r with
          | ROk (s2, xs) => ROk (s2, x :: xs)
          | RCrash => RCrash
          | RFuel => RFuel
          end
      | RCrash => RCrash
      | RFuel => RFuel
      end
  end.

(* a sequence of reads, outputs accumulated *)
Fixpoint recv_all (s : st) (chunks : list (list N)) : R (st * out) :=
  match chunks with
  | [] => ROk (s, no_out)
  | c :: r =>
      match recv s c with
      | ROk (s1, x) =>
          match recv_all s1 r with
          | ROk (s2, y) => ROk (s2, out_app x y)
          | RCrash => RCrash
          | RFuel => RFuel
          end
      | RCrash => RCrash
      | RFuel => RFuel
      end
  end.

(* ------------------------------------------------------------------ the opening handshake: where the bytes go *)

(* end of the HTTP header block: first CRLF CRLF (HttpParser joins what it has received so far and
   searches the whole of it).  -> (header block, bytes after it) *)
Definition crlf2 (l : list N) : bool :=
  match l with
  | a :: b :: c :: d :: _ => (a =? 13) && (b =? 10) && (c =? 13) && (d =? 10)
  | _ => false
  end.
Fixpoint split_head (l : list N) : option (list N * list N) :=
  match l with
  | [] => None
  | c :: t =>
      if crlf2 l then Some (firstn 4 l, skipn 4 l)
      else match split_head t with
           | Some (h, r) => Some (c :: h, r)
           | None => None
           end
  end.

(* WebSocketClient: reads go to the HTTP response parser until the 101 response's header block is complete;
   what follows it in that read is response.body.read() and is given to the codec's constructor
   (decoded when the codec is registered); later reads go to the codec *)
Inductive cstate :=
| CHandshake (acc : list N)
| COpen (s : st).

Definition cread (c : cstate) (d : list N) : R (cstate * out) :=
  match c with
  | CHandshake acc =>
      match split_head (acc ++ d) with
      | None => ROk (CHandshake (acc ++ d), no_out)
      | Some (_, rest) =>
          match recv init rest with
          | ROk (s, o) => ROk (COpen s, o)
          | RCrash => RCrash
          | RFuel => RFuel
          end
      end
  | COpen s =>
      match recv s d with
      | ROk (s', o) => ROk (COpen s', o)
      | RCrash => RCrash
      | RFuel => RFuel
      end
  end.

Fixpoint cread_all (c : cstate) (chunks : list (list N)) : R (cstate * out) :=
  match chunks with
  | [] => ROk (c, no_out)
  | d :: r =>
      match cread c d with
      | ROk (c1, x) =>
          match cread_all c1 r with
          | ROk (c2, y) => ROk (c2, out_app x y)
          | RCrash => RCrash
          | RFuel => RFuel
          end
      | RCrash => RCrash
      | RFuel => RFuel
      end
  end.

(* WebSocketsDispatcher: one codec per upgraded socket (_codecs); a read for a socket without codec is
   not decoded (it belongs to the HTTP server); disconnect removes the codec *)
Definition table := nat -> option st.
Definition t_empty : table := fun _ => None.
Definition t_set (t : table) (k : nat) (v : option st) : table :=
  fun j => if Nat.eqb j k then v else t j.

Inductive dop :=
| DUpgrade (sock : nat)                 (* handshake accepted: WebSocketCodec(request.sock) registered *)
| DRead (sock : nat) (d : list N)
| DSend (sock : nat) (text : bool) (p : list N)
| DClose (sock : nat)
| DDisconnect (sock : nat).

Definition dstep (t : table) (o : dop) : R (table * (nat * out)) :=
  match o with
  | DUpgrade k => ROk (t_set t k (Some init), (k, no_out))
  | DDisconnect k => ROk (t_set t k None, (k, no_out))
  | DRead k d =>
      match t k with
      | None => ROk (t, (k, no_out))
      | Some s => match recv s d with
                  | ROk (s', x) => ROk (t_set t k (Some s'), (k, x))
                  | RCrash => RCrash | RFuel => RFuel end
      end
  | DSend k tx p =>
      match t k with
      | None => ROk (t, (k, no_out))
      | Some s => match send s tx p with
                  | ROk (s', x) => ROk (t_set t k (Some s'), (k, x))
                  | RCrash => RCrash | RFuel => RFuel end
      end
  | DClose k =>
      match t k with
      | None => ROk (t, (k, no_out))
      | Some s => match on_close s with
                  | ROk (s', x) => ROk (t_set t k (Some s'), (k, x))
                  | RCrash => RCrash | RFuel => RFuel end
      end
  end.

Fixpoint drun (t : table) (ops : list dop) : R (table * list (nat * out)) :=
  match ops with
  | [] => ROk (t, [])
  | o :: r =>
      match dstep t o with
      | ROk (t1, x) =>
          match drun t1 r with
          | ROk (t2, xs) => ROk (t2, x :: xs)
          | RCrash => RCrash
          | RFuel => RFuel
          end
      | RCrash => RCrash
      | RFuel => RFuel
      end
  end.

End Codec.

(* the mask bit of a written frame *)
Definition frame_mask_bit (w : list N) : option bool :=
  match w with
  | _ :: b1 :: _ => Some (b_mask b1)
  | _ => None
  end.

(* ------------------------------------------------------------------ specification: RFC 6455 5.2 *)

Definition key4 := (N * N * N * N)%type.
Definition key_list (k : key4) : list N := let '(a, b, c, d) := k in [a; b; c; d].

(* big-endian, k bytes *)
Fixpoint be (k : nat) (n : N) : list N :=
  match k with
  | O => []
  | S k' => be k' (n / 256) ++ [n mod 256]
  end.

(* octet i of the payload is XORed with octet (i mod 4) of the key *)
Fixpoint xor_cycle (k0 k1 k2 k3 : N) (d : list N) : list N :=
  match d with
  | [] => []
  | c :: t => N.lxor c k0 :: xor_cycle k1 k2 k3 k0 t
  end.

Definition rfc_tail (mk : option key4) (p : list N) : list N :=
  let n := N.of_nat (length p) in
  let m := match mk with Some _ => 128 | None => 0 end in
  (if n <=? 125 then [m + n]
   else if n <=? 65535 then (m + 126) :: be 2 n
   else (m + 127) :: be 8 n) ++
  match mk with
  | None => p
  | Some (k0, k1, k2, k3) => [k0; k1; k2; k3] ++ xor_cycle k0 k1 k2 k3 p
  end.

Definition rfc_frame (fin : bool) (opcode : N) (mk : option key4) (p : list N) : list N :=
  ((if fin then 128 else 0) + opcode) :: rfc_tail mk p.

(* what a conforming peer sends: messages, possibly fragmented, with control frames in between *)
Inductive ctl :=
| Ping (k : option key4) (p : list N)
| Pong (k : option key4) (p : list N).

Definition ctl_frame (c : ctl) : list N :=
  match c with
  | Ping k p => rfc_frame true 9 k p
  | Pong k p => rfc_frame true 10 k p
  end.

(* a fragment: masking key, payload part, control frames sent after it *)
Definition frag := (option key4 * list N * list ctl)%type.

Inductive item :=
| IMsg (text : bool) (first : frag) (more : list frag)
| ICtl (c : ctl).

Definition ctls_bytes (cs : list ctl) : list N := concat (map ctl_frame cs).

(* continuation frames; the last one carries FIN *)
Fixpoint conts_bytes (more : list frag) : list N :=
  match more with
  | [] => []
  | (k, p, cs) :: r =>
      rfc_frame (match r with [] => true | _ => false end) 0 k p ++ ctls_bytes cs ++ conts_bytes r
  end.

Definition item_bytes (i : item) : list N :=
  match i with
  | IMsg text (k, p, cs) more =>
      rfc_frame (match more with [] => true | _ => false end) (if text then 1 else 2) k p
      ++ ctls_bytes cs ++ conts_bytes more
  | ICtl c => ctl_frame c
  end.

Definition items_bytes (l : list item) : list N := concat (map item_bytes l).

(* what must come out: the messages, and the payloads to be ponged, in order *)
Definition frag_payload (f : frag) : list N := snd (fst f).
Definition frag_ctls (f : frag) : list ctl := snd f.

Definition item_msgs (i : item) : list msg :=
  match i with
  | IMsg text f more => [(text, frag_payload f ++ concat (map frag_payload more))]
  | ICtl _ => []
  end.

Definition ctl_pings (c : ctl) : list (list N) :=
  match c with Ping _ p => [p] | Pong _ _ => [] end.

Definition item_pings (i : item) : list (list N) :=
  match i with
  | IMsg _ f more => concat (map ctl_pings (frag_ctls f ++ concat (map frag_ctls more)))
  | ICtl c => ctl_pings c
  end.

Definition expected_msgs (l : list item) : list msg := concat (map item_msgs l).
Definition expected_pings (l : list item) : list (list N) := concat (map item_pings l).
