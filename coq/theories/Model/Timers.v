(* Executable model of the timer machinery of circuits (C09):
     circuits/core/timers.py   Timer.__init__ / reset / _on_generate_events
     circuits/core/events.py   generate_events.reduce_time_left (min semantics)
     circuits/core/helpers.py  FallBackGenerator._on_generate_events (the idle wait)
     circuits/core/manager.py  tick / flush / the generate_events part of _dispatcher, processTask for
                               plain generator tasks and sleep(), Component.unregister (two-stage)
   Time is Z in units of 2^-10 s.  No proofs in this file. *)
From Coq Require Import List ZArith Bool.
Import ListNotations.
Open Scope Z_scope.

(* generate_events._time_left: negative (unbounded), a grid value, or the manager's TIMEOUT constant
   (0.1 s is not on the grid; it is kept symbolic and compared through its exact ratio num/den in units) *)
Inductive tlv := Inf | Fin (d : Z) | Tmo.

Record timer := mkT {
  t_exp : Z;          (* Timer.expiry *)
  t_int : Z;          (* Timer.interval *)
  t_persist : bool;   (* Timer.persist *)
  t_pend : bool;      (* Component._unregister_pending *)
  t_reg : bool        (* the timer is in the component tree (its handlers are reachable) *)
}.

(* what handlers do (the harness compiles the same scripts to real handlers) *)
Inductive op :=
| OCreate (iv : Z) (p : bool)        (* Timer(iv, tev(i), persist=p).register(app) *)
| OCreateAt (dl : Z) (p : bool)      (* Timer(datetime.fromtimestamp(dl), ...).register(app) *)
| OReset (i : nat)                   (* timers[i].reset() *)
| OResetTo (i : nat) (iv : Z)        (* timers[i].reset(iv) *)
| OUnreg (i : nat)                   (* timers[i].unregister() *)
| OWork (d : Z)                      (* a busy handler: the clock advances by d *)
| OFire (k : nat)                    (* app.fire(opev(k)) *)
| OReReg (i : nat).                  (* timers[i].register(app) again, once it has left the tree *)

Inductive gstep := GOps (l : list op) | GYield | GSleep (d : Z).

Inductive ev :=
| EGen                 (* generate_events *)
| ETimer (i : nat)     (* the event of timer i *)
| EOp (k : nat)        (* ordinary event running script k *)
| ETask (k : nat)      (* ordinary event whose handler is generator k *)
| ENop                 (* registered / unregistered: nobody listens *)
| EPrep (i : nat)      (* prepare_unregister(timer i) *)
| EPrepC (i : nat).    (* prepare_unregister_complete on timer i *)

Record task := mkTask { k_steps : list gstep; k_sleep : option Z; k_id : nat }.

Record prog := mkProg {
  p_ops : list (list op);        (* script of opev(k) *)
  p_onfire : list (list op);     (* what the application's handler of timer i's event does *)
  p_gs : list (list gstep);      (* generator bodies *)
  p_tmo_num : Z; p_tmo_den : Z   (* manager.TIMEOUT = num/den units *)
}.

(* the observable history.  LIter = one loop iteration reached its generate_events dispatch at time t, the timers
   in [fired] fired (in that order) and the fallback generator then waited [w] (None: it did not wait) *)
Inductive lrec :=
| LCreate (t iv : Z) (p : bool) (dl : option Z)
| LReset (i : nat) (t : Z) (niv : option Z)
| LUnreq (i : nat) (t : Z)
| LIter (t : Z) (fired : list nat) (w : option tlv)
| LDisp (i : nat) (t : Z)
| LRereg (i : nat) (t : Z).          (* timer i, out of the tree, was registered again at t *)

Record st := mkSt {
  now : Z;
  timers : list timer;
  queue : list ev;
  tasks : list task;
  stims : list (Z * bool * nat);   (* external events still to arrive: time, is-task, script *)
  sched : list nat;                (* recorded order in which simultaneously due timers fire *)
  rlog : list lrec;                (* history, newest first *)
  halted : bool;                   (* the loop sleeps for ever: nothing pending, nothing to arrive *)
  tsched : list nat;               (* recorded order in which the task set is iterated, tick after tick *)
  ntask : nat                      (* tasks started so far (the next task's id) *)
}.

Definition set_now (s : st) (t : Z) : st :=
  mkSt t (timers s) (queue s) (tasks s) (stims s) (sched s) (rlog s) (halted s) (tsched s) (ntask s).
Definition set_timers (s : st) (l : list timer) : st :=
  mkSt (now s) l (queue s) (tasks s) (stims s) (sched s) (rlog s) (halted s) (tsched s) (ntask s).
Definition push_ev (s : st) (e : ev) : st :=
  mkSt (now s) (timers s) (queue s ++ [e]) (tasks s) (stims s) (sched s) (rlog s) (halted s) (tsched s) (ntask s).
Definition set_queue (s : st) (q : list ev) : st :=
  mkSt (now s) (timers s) q (tasks s) (stims s) (sched s) (rlog s) (halted s) (tsched s) (ntask s).
Definition set_tasks (s : st) (l : list task) : st :=
  mkSt (now s) (timers s) (queue s) l (stims s) (sched s) (rlog s) (halted s) (tsched s) (ntask s).
Definition set_stims (s : st) (l : list (Z * bool * nat)) : st :=
  mkSt (now s) (timers s) (queue s) (tasks s) l (sched s) (rlog s) (halted s) (tsched s) (ntask s).
Definition set_sched (s : st) (l : list nat) : st :=
  mkSt (now s) (timers s) (queue s) (tasks s) (stims s) l (rlog s) (halted s) (tsched s) (ntask s).
Definition add_log (s : st) (r : lrec) : st :=
  mkSt (now s) (timers s) (queue s) (tasks s) (stims s) (sched s) (r :: rlog s) (halted s) (tsched s) (ntask s).
Definition set_tsched (s : st) (l : list nat) : st :=
  mkSt (now s) (timers s) (queue s) (tasks s) (stims s) (sched s) (rlog s) (halted s) l (ntask s).
Definition add_task (s : st) (l : list gstep) : st :=
  mkSt (now s) (timers s) (queue s) (tasks s ++ [mkTask l None (ntask s)]) (stims s) (sched s) (rlog s) (halted s)
       (tsched s) (S (ntask s)).
Definition set_halted (s : st) : st :=
  mkSt (now s) (timers s) (queue s) (tasks s) (stims s) (sched s) (rlog s) true (tsched s) (ntask s).

Fixpoint upd {A} (l : list A) (i : nat) (f : A -> A) : list A :=
  match l, i with
  | [], _ => []
  | x :: r, O => f x :: r
  | x :: r, S j => x :: upd r j f
  end.

Definition script {A} (tbl : list (list A)) (k : nat) : list A :=
  match nth_error tbl k with Some l => l | None => [] end.

(* mktime(datetime.timetuple()): the microseconds are dropped *)
Definition UNIT : Z := 1024.
Definition floorsec (dl : Z) : Z := (dl / UNIT) * UNIT.

(* ---------------------------------------------------------------- Timer API *)

Definition t_reset (nw : Z) (niv : option Z) (tm : timer) : timer :=
  let iv := match niv with Some v => v | None => t_int tm end in
  mkT (nw + iv) iv (t_persist tm) (t_pend tm) (t_reg tm).

Definition t_rereg (tm : timer) : timer := mkT (t_exp tm) (t_int tm) (t_persist tm) false true.
Definition t_set_pend (tm : timer) : timer := mkT (t_exp tm) (t_int tm) (t_persist tm) true (t_reg tm).
(* _do_prepare_unregister_complete: delattr(_unregister_pending), leave the tree.  The event that triggers it is fired
   only by the completion of the timer's own prepare_unregister, i.e. while the flag is set (delattr would raise
   otherwise); a state in which it arrives without the flag is unreachable and left unchanged here. *)
Definition t_removed (tm : timer) : timer :=
  if t_pend tm then mkT (t_exp tm) (t_int tm) (t_persist tm) false false else tm.

Definition create (s : st) (iv : Z) (p : bool) (dl : option Z) : st :=
  let s1 := set_timers s (timers s ++ [mkT (now s + iv) iv p false true]) in
  add_log (push_ev s1 ENop) (LCreate (now s) iv p dl).

(* Component.unregister(): no-op when already pending or already out of the tree *)
Definition unregister (s : st) (i : nat) : st :=
  match nth_error (timers s) i with
  | Some tm => if t_reg tm && negb (t_pend tm)
               then push_ev (set_timers s (upd (timers s) i t_set_pend)) (EPrep i)
               else s
  | None => s
  end.

Definition do_op (s : st) (o : op) : st :=
  match o with
  | OCreate iv p => create s iv p None
  | OCreateAt dl p => create s (floorsec dl - now s) p (Some dl)
  | OReset i => match nth_error (timers s) i with
                | Some _ => add_log (set_timers s (upd (timers s) i (t_reset (now s) None))) (LReset i (now s) None)
                | None => s end
  | OResetTo i iv => match nth_error (timers s) i with
                | Some _ => add_log (set_timers s (upd (timers s) i (t_reset (now s) (Some iv)))) (LReset i (now s) (Some iv))
                | None => s end
  | OUnreg i => match nth_error (timers s) i with
                | Some _ => add_log (unregister s i) (LUnreq i (now s))
                | None => s end
  | OWork d => set_now s (now s + Z.max 0 d)
  | OFire k => push_ev s (EOp k)
  | OReReg i => match nth_error (timers s) i with
                | Some tm => if negb (t_reg tm) && negb (t_pend tm)
                             then add_log (push_ev (set_timers s (upd (timers s) i t_rereg)) ENop) (LRereg i (now s))
                             else s
                | None => s end
  end.

Definition do_ops (s : st) (l : list op) : st := fold_left do_op l s.

(* ---------------------------------------------------------------- generate_events *)

(* reduce_time_left(v) for a grid value v: only ever lowers the budget; negative arguments are ignored *)
Definition reduce (num den : Z) (cur : tlv) (v : Z) : tlv :=
  if v <? 0 then cur else
  match cur with
  | Inf => Fin v
  | Fin c => if v <? c then Fin v else cur
  | Tmo => if v * den <? num then Fin v else cur
  end.

(* reduce_time_left(TIMEOUT) *)
Definition reduce_tmo (num den : Z) (cur : tlv) : tlv :=
  match cur with
  | Inf => Tmo
  | Fin c => if num <? c * den then Tmo else cur
  | Tmo => Tmo
  end.

Definition is_due (nw : Z) (tm : timer) : bool :=
  t_reg tm && negb (t_pend tm) && (t_exp tm <=? nw).

Fixpoint due_from (nw : Z) (i : nat) (l : list timer) : list nat :=
  match l with
  | [] => []
  | tm :: r => if is_due nw tm then i :: due_from nw (S i) r else due_from nw (S i) r
  end.

Definition memb (x : nat) (l : list nat) : bool := existsb (Nat.eqb x) l.
Fixpoint nodupb (l : list nat) : bool :=
  match l with [] => true | x :: r => negb (memb x r) && nodupb r end.

(* the recorded schedule is used when its next entries are a permutation of the due timers *)
Definition reorder (sch due : list nat) : list nat * list nat :=
  let c := firstn (length due) sch in
  if forallb (fun x => memb x c) due && forallb (fun x => memb x due) c && nodupb c
  then (c, skipn (length due) sch) else (due, sch).

(* a due timer fires: fire(event); persistent: reset(), one-shot: unregister() *)
Definition fire_timer (s : st) (i : nat) : st :=
  match nth_error (timers s) i with
  | Some tm =>
      let s1 := push_ev s (ETimer i) in
      if t_persist tm then set_timers s1 (upd (timers s1) i (t_reset (now s) None))
      else unregister s1 i
  | None => s
  end.

(* the handlers of the timers that are not due: reduce_time_left(expiry - now) *)
Definition reduce_all (num den : Z) (nw : Z) (l : list timer) (cur : tlv) : tlv :=
  fold_left (fun c tm => if t_reg tm && (nw <? t_exp tm) then reduce num den c (t_exp tm - nw) else c) l cur.

Definition ceil_div (a b : Z) : Z := (a + b - 1) / b.

Definition deliver (s : st) (x : Z * bool * nat) : st :=
  let '(_, tk, k) := x in push_ev s (if tk then ETask k else EOp k).

(* FallBackGenerator: wait at most d (None: for ever); an external event arriving first ends the wait *)
Definition idle_wait (s : st) (d : option Z) : st :=
  match stims s, d with
  | x :: r, Some dd =>
      if fst (fst x) <? now s + dd
      then deliver (set_stims (set_now s (Z.max (now s) (fst (fst x)))) r) x
      else set_now s (now s + dd)
  | x :: r, None => deliver (set_stims (set_now s (Z.max (now s) (fst (fst x)))) r) x
  | [], Some dd => set_now s (now s + dd)
  | [], None => set_halted s
  end.

Definition do_gen (p : prog) (s : st) (more : bool) : st :=
  let num := p_tmo_num p in let den := p_tmo_den p in
  let tl0 := if more || negb (match queue s with [] => true | _ => false end) then Fin 0
             else match tasks s with [] => Inf | _ => Tmo end in
  let '(due, sch') := reorder (sched s) (due_from (now s) 0 (timers s)) in
  let t := now s in
  let s1 := fold_left fire_timer due (set_sched s sch') in
  let tl1 := match due with [] => tl0 | _ => Fin 0 end in
  let tl2 := reduce_all num den t (timers s) tl1 in
  match tl2 with
  | Fin d => if d <=? 0 then add_log s1 (LIter t due None)
             else idle_wait (add_log s1 (LIter t due (Some tl2))) (Some d)
  | Tmo => idle_wait (add_log s1 (LIter t due (Some Tmo))) (Some (ceil_div num den))
  | Inf => idle_wait (add_log s1 (LIter t due (Some Inf))) None
  end.

(* ---------------------------------------------------------------- dispatch, tasks, tick *)

Definition dispatch (p : prog) (s : st) (e : ev) (more : bool) : st :=
  match e with
  | EGen => do_gen p s more
  | ETimer i => do_ops (add_log s (LDisp i (now s))) (script (p_onfire p) i)
  | EOp k => do_ops s (script (p_ops p) k)
  | ETask k => add_task s (script (p_gs p) k)
  | ENop => s
  | EPrep i => push_ev s (EPrepC i)
  | EPrepC i => push_ev (set_timers s (upd (timers s) i t_removed)) ENop
  end.

Fixpoint flush (p : prog) (s : st) (batch : list ev) : st :=
  match batch with
  | [] => s
  | e :: r => flush p (dispatch p s e (match r with [] => false | _ => true end)) r
  end.

(* next(task): run the generator up to its next yield; result: the state and the task if it is still alive *)
Fixpoint run_steps (s : st) (l : list gstep) (id : nat) : st * option task :=
  match l with
  | [] => (s, None)
  | GOps o :: r => run_steps (do_ops s o) r id
  | GYield :: r => (s, Some (mkTask r None id))
  | GSleep d :: r => (s, Some (mkTask r (Some (now s + d)) id))
  end.

Definition step_task (s : st) (k : task) : st * option task :=
  match k_sleep k with
  | Some e => if e <=? now s then (s, Some (mkTask (k_steps k) None (k_id k))) else (s, Some k)
  | None => run_steps s (k_steps k) (k_id k)
  end.

Fixpoint step_tasks (s : st) (l : list task) (acc : list task) : st * list task :=
  match l with
  | [] => (s, acc)
  | k :: r => let '(s1, k1) := step_task s k in
              step_tasks s1 r (match k1 with Some k' => acc ++ [k'] | None => acc end)
  end.

(* external events whose time has come are fired before the tick *)
Fixpoint deliver_due (s : st) (l : list (Z * bool * nat)) : st :=
  match l with
  | [] => set_stims s []
  | x :: r => if fst (fst x) <=? now s then deliver_due (deliver s x) r else set_stims s l
  end.

(* `for task in self._tasks.copy()`: the set is iterated in an order the model takes from the recorded schedule
   (when its next entries are a permutation of the ids of the tasks alive; otherwise in the order they were started) *)
Definition pick_tasks (l : list task) (ids : list nat) : list task :=
  flat_map (fun id => match find (fun k => Nat.eqb (k_id k) id) l with Some k => [k] | None => [] end) ids.

Definition tick (p : prog) (s : st) : st :=
  let s0 := deliver_due s (stims s) in
  let '(ord, tsch') := reorder (tsched s0) (map k_id (tasks s0)) in
  let '(s1, alive) := step_tasks (set_tsched (set_tasks s0 []) tsch') (pick_tasks (tasks s0) ord) [] in
  let s2 := set_tasks s1 (alive ++ tasks s1) in
  let s3 := push_ev s2 EGen in
  flush p (set_queue s3 []) (queue s3).

Fixpoint run (p : prog) (s : st) (n : nat) : st * nat :=
  match n with
  | O => (s, O)
  | S k => if halted s then (s, O)
           else let '(s', m) := run p (tick p s) k in (s', S m)
  end.

Definition init (t0 : Z) (sts : list (Z * bool * nat)) (sch tsch : list nat) : st :=
  mkSt t0 [] [] [] sts sch [] false tsch 0.

Definition history (s : st) : list lrec := rev (rlog s).

(* ================================================================ specification (monitor)
   The property read as an acceptor of histories.  Per timer the specification remembers when it was last armed
   (created, reset, or fired if persistent), its interval, whether it is persistent and whether it is alive
   (registered and no unregistration requested, one-shot not yet fired). *)

Record stimer := mkS { s_t0 : Z; s_iv : Z; s_p : bool; s_alive : bool }.
Definition s_exp (x : stimer) : Z := s_t0 x + s_iv x.

Definition dur (num den : Z) (w : tlv) : option Z :=
  match w with Inf => None | Fin d => Some d | Tmo => Some (ceil_div num den) end.

Definition s_rearm (t : Z) (niv : option Z) (x : stimer) : stimer :=
  mkS t (match niv with Some v => v | None => s_iv x end) (s_p x) (s_alive x).
Definition s_revive (x : stimer) : stimer := mkS (s_t0 x) (s_iv x) (s_p x) true.
Definition s_kill (x : stimer) : stimer := mkS (s_t0 x) (s_iv x) (s_p x) false.
(* a firing re-arms a persistent timer and ends a one-shot *)
Definition s_fired (t : Z) (x : stimer) : stimer := if s_p x then s_rearm t None x else s_kill x.

(* timer i may fire at t: it is alive and its interval has elapsed since it was armed *)
Definition fire_ok (ms : list stimer) (t : Z) (i : nat) : bool :=
  match nth_error ms i with Some x => s_alive x && (s_exp x <=? t) | None => false end.

Fixpoint sdue_from (t : Z) (i : nat) (ms : list stimer) : list nat :=
  match ms with
  | [] => []
  | x :: r => if s_alive x && (s_exp x <=? t) then i :: sdue_from t (S i) r else sdue_from t (S i) r
  end.

(* an idle wait of [w] started at t does not pass the expiry of any alive timer *)
Definition wait_ok (num den : Z) (ms : list stimer) (t : Z) (w : tlv) : bool :=
  forallb (fun x => negb (s_alive x) ||
                    match dur num den w with Some d => t + d <=? s_exp x | None => false end) ms.

Definition mon_step (num den : Z) (ms : list stimer) (r : lrec) : option (list stimer) :=
  match r with
  | LCreate t iv p dl =>
      if match dl with Some d => t + iv =? floorsec d | None => true end
      then Some (ms ++ [mkS t iv p true]) else None
  | LReset i t niv => match nth_error ms i with Some _ => Some (upd ms i (s_rearm t niv)) | None => None end
  | LUnreq i t => match nth_error ms i with Some _ => Some (upd ms i s_kill) | None => None end
  | LDisp _ _ => Some ms
  | LRereg i t => match nth_error ms i with Some _ => Some (upd ms i s_revive) | None => None end
  | LIter t fired w =>
      if nodupb fired                                               (* nobody fires twice in one iteration *)
         && forallb (fire_ok ms t) fired                            (* never early, only alive timers *)
         && forallb (fun i => memb i fired) (sdue_from t 0 ms)      (* every due timer fires in this iteration *)
         && match w with
            | None => true
            | Some w' => match fired with [] => wait_ok num den ms t w' | _ => false end   (* sleep bound *)
            end
      then Some (fold_left (fun m i => upd m i (s_fired t)) fired ms)
      else None
  end.

Fixpoint mon_run (num den : Z) (ms : list stimer) (l : list lrec) : option (list stimer) :=
  match l with
  | [] => Some ms
  | r :: l' => match mon_step num den ms r with Some ms' => mon_run num den ms' l' | None => None end
  end.

(* what the specification knows about the timers after a history (None: the history violates the property) *)
Definition spec_after (p : prog) (l : list lrec) : option (list stimer) :=
  mon_run (p_tmo_num p) (p_tmo_den p) [] l.

(* the specification's view of a concrete timer *)
Definition abs (tm : timer) : stimer :=
  mkS (t_exp tm - t_int tm) (t_int tm) (t_persist tm) (t_reg tm && negb (t_pend tm)).
