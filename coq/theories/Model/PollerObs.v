(* Encoders of the poller model's results into Lib/Obs.T for the correspondence check. *)
From Coq Require Import List Arith ZArith Bool.
From Circ Require Import Lib.Obs Model.Poller.
Import ListNotations.

Definition nb (n : nat) : bool := match n with O => false | _ => true end.
(* status literal: pin pout phup perr sr sw as 0/1 *)
Definition S6 (a b c d e f : nat) : status :=
  {| pin := nb a; pout := nb b; phup := nb c; perr := nb d; sr := nb e; sw := nb f |}.

Fixpoint tbl (l : list (nat * status)) (f : nat) : status :=
  match l with
  | [] => idle
  | (g, x) :: t => if Nat.eqb f g then x else tbl t f
  end.

Definition chans (kd : nat) (o : nat) (evs : list ev) : list nat :=
  flat_map (fun e => match e, kd with
                     | ERead o' c, 0 => if Nat.eqb o' o then [c] else []
                     | EWrite o' c, 1 => if Nat.eqb o' o then [c] else []
                     | EDisc o' c, 2 => if Nat.eqb o' o then [c] else []
                     | _, _ => []
                     end) evs.

Definition obs_tick (pool : list nat) (x : state * list ev) : T :=
  let '(s, evs) := x in
  Tlist (fun o => Tl [Tlist Tnat (chans 0 o evs); Tlist Tnat (chans 1 o evs); Tlist Tnat (chans 2 o evs);
                      Tbool (mem o (rd s)); Tbool (mem o (wr s))]) pool.

Definition obs_run (k : kind) (pool : list nat) (h : list op) : T :=
  let '(tr, oc, _) := run k init h in
  Tl [Tlist (obs_tick pool) tr; Tn (match oc with Done => 0 | Crashed => 1 | BadCase => 2 end)%Z].

Definition obs_hist (pool : list nat) (hs hp he : list op) : T :=
  Tl [obs_run KSelect pool hs; obs_run KPoll pool hp; obs_run KEPoll pool he].
