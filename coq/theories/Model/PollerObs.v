(* Encoders of the poller model's results into Lib/Obs.T for the correspondence check. *)
From Coq Require Import List Arith ZArith Bool.
From Circ Require Import Lib.Obs Model.Poller.
Import ListNotations.

Definition nb (n : nat) : bool := match n with O => false | _ => true end.
(* status literal: pin pout phup perr sr sw as 0/1 *)
Definition S6 (a b c d e f : nat) : status :=
  {| pin := nb a; pout := nb b; phup := nb c; perr := nb d; sr := nb e; sw := nb f |}.

Fixpoint tbl (l : list (nat * status)) (f : nat) : status :=
  match l with
  | [] => idle
  | (g, x) :: t => if Nat.eqb f g then x else tbl t f
  end.

Definition chans (kd : nat) (o : nat) (evs : list ev) : list nat :=
  flat_map (fun e => match e, kd with
                     | ERead o' c, 0 => if Nat.eqb o' o then [c] else []
                     | EWrite o' c, 1 => if Nat.eqb o' o then [c] else []
                     | EDisc o' c, 2 => if Nat.eqb o' o then [c] else []
                     | _, _ => []
                     end) evs.

(* compact encoding of one (object, iteration) cell: at most one event of each kind, channel < 3 (the common case)
   becomes one number; anything else (duplicates, unknown channel) is spelled out.  harness/c10.py encodes the
   implementation's observation with the same function. *)
Definition code1 (l : list nat) : option nat :=
  match l with
  | [] => Some 0
  | [c] => if Nat.ltb c 3 then Some (S c) else None
  | _ => None
  end.

Definition obs_cell (s : state) (evs : list ev) (o : nat) : T :=
  let r := chans 0 o evs in
  let w := chans 1 o evs in
  let d := chans 2 o evs in
  match code1 r, code1 w, code1 d with
  | Some a, Some b, Some c =>
      Tnat (a + 4 * b + 16 * c + 64 * (if mem o (rd s) then 1 else 0) + 128 * (if mem o (wr s) then 1 else 0))
  | _, _, _ => Tl [Tlist Tnat r; Tlist Tnat w; Tlist Tnat d; Tbool (mem o (rd s)); Tbool (mem o (wr s))]
  end.

Definition obs_tick (pool : list nat) (x : state * list ev) : T :=
  let '(s, evs) := x in Tlist (obs_cell s evs) pool.

Definition obs_run (k : kind) (pool : list nat) (h : list op) : T :=
  let '(tr, oc, _) := run k init h in
  Tl [Tlist (obs_tick pool) tr; Tn (match oc with Done => 0 | Crashed => 1 | BadCase => 2 end)%Z].

Definition obs_hist (pool : list nat) (hs hp he : list op) : T :=
  Tl [obs_run KSelect pool hs; obs_run KPoll pool hp; obs_run KEPoll pool he].

(* the same history (and the same recorded statuses) for the three pollers *)
Definition obs_hist1 (pool : list nat) (h : list op) : T := obs_hist pool h h h.
