(* Executable model of circuits/node: protocol.py (add_buffer, send, __process_packet*, send_result,
   result_handler), utils.py (dump_event/load_event/dump_value/load_value, META_EXCLUDE) as used by
   client.py / server.py / node.py.  The model is the REPAIRED code (fixes/C19_1..6).
   Bytes and code points are N; strings are lists of code points.  json.dumps / json.loads are oracles
   (function arguments).  No proofs in this file. *)
From Coq Require Import List NArith ZArith Bool.
Import ListNotations.

(* ------------------------------------------------------------------------------------------------
   1. framing: bytes.split(DELIMITER) and Protocol.add_buffer                                     *)

Fixpoint prefixb (d s : list N) : bool :=
  match d, s with
  | [], _ => true
  | x :: d', y :: s' => N.eqb x y && prefixb d' s'
  | _ :: _, [] => false
  end.

(* pieces d skip s = s.split(d) (leftmost, non-overlapping occurrences), d non-empty.
   [skip] = number of delimiter bytes still to be passed over.  The result is never empty; its head
   is the piece under construction. *)
Fixpoint pieces (d : list N) (skip : nat) (s : list N) : list (list N) :=
  match s with
  | [] => [[]]
  | c :: t =>
      match skip with
      | S k => pieces d k t
      | O => if prefixb d s then [] :: pieces d (length d - 1) t
             else match pieces d 0 t with
                  | h :: r => (c :: h) :: r
                  | [] => [[c]]          (* unreachable *)
                  end
      end
  end.

Definition split (d s : list N) : list (list N) := pieces d 0 s.

Definition opt_list {A} (o : option A) : list A := match o with Some a => [a] | None => [] end.

Section Framing.
  Variable P : Type.                         (* parsed packets *)
  Variable parse : list N -> option P.       (* json.loads succeeded (Some) / ValueError (None) *)
  Variable D : list N.                       (* DELIMITER *)

  (* the loop of add_buffer over the pieces: a piece that is followed by a delimiter is processed or
     dropped; the bytes after the last delimiter are processed if they already parse (packets sent
     without delimiter, as the repo's tests do) and kept in the buffer otherwise *)
  Fixpoint proc (ps : list (list N)) : list P * list N :=
    match ps with
    | [] => ([], [])
    | [l] => match parse l with Some p => ([p], []) | None => ([], l) end
    | x :: r => let '(o, b) := proc r in (opt_list (parse x) ++ o, b)
    end.

  Definition feed (buf data : list N) : list P * list N := proc (split D (buf ++ data)).

  Fixpoint run (buf : list N) (chunks : list (list N)) : list P * list N :=
    match chunks with
    | [] => ([], buf)
    | c :: cs => let '(o, b) := feed buf c in
                 let '(o', b') := run b cs in (o ++ o', b')
    end.

  (* the stream an honest peer writes: each packet followed by the delimiter *)
  Variable enc : P -> list N.
  Definition frames (ps : list P) : list N := concat (map (fun p => enc p ++ D) ps).
End Framing.

(* dump_*: json.dumps(data).replace('~', '\\u007e') *)
Definition TILDE : N := 126.
Definition esc_tilde : list N := [92; 117; 48; 48; 55; 101]%N.
Fixpoint escape (s : list N) : list N :=
  match s with
  | [] => []
  | c :: t => if N.eqb c TILDE then esc_tilde ++ escape t else c :: escape t
  end.

(* ------------------------------------------------------------------------------------------------
   2. JSON values, events, dump/load                                                              *)

Inductive json :=
| JNull | JBool (b : bool) | JInt (z : Z) | JStr (s : list N)
| JArr (l : list json) | JObj (kv : list (list N * json)).

Fixpoint str_eqb (a b : list N) : bool :=
  match a, b with
  | [], [] => true
  | x :: a', y :: b' => N.eqb x y && str_eqb a' b'
  | _, _ => false
  end.

Fixpoint json_eqb (a b : json) {struct a} : bool :=
  match a, b with
  | JNull, JNull => true
  | JBool x, JBool y => Bool.eqb x y
  | JInt x, JInt y => Z.eqb x y
  | JStr x, JStr y => str_eqb x y
  | JArr l, JArr m =>
      (fix go (l m : list json) {struct l} : bool :=
         match l, m with
         | [], [] => true
         | x :: l', y :: m' => json_eqb x y && go l' m'
         | _, _ => false
         end) l m
  | JObj l, JObj m =>
      (fix go (l m : list (list N * json)) {struct l} : bool :=
         match l, m with
         | [], [] => true
         | (k, x) :: l', (k', y) :: m' => str_eqb k k' && json_eqb x y && go l' m'
         | _, _ => false
         end) l m
  | _, _ => false
  end.

(* lexicographic order on strings (Python's str order); objects are kept sorted by key *)
Fixpoint str_ltb (a b : list N) : bool :=
  match a, b with
  | [], [] => false
  | [], _ :: _ => true
  | _ :: _, [] => false
  | x :: a', y :: b' => if N.ltb x y then true else if N.eqb x y then str_ltb a' b' else false
  end.

Fixpoint get {A} (k : list N) (kv : list (list N * A)) : option A :=
  match kv with
  | [] => None
  | (k', v) :: r => if str_eqb k k' then Some v else get k r
  end.

Fixpoint set_kv {A} (k : list N) (v : A) (kv : list (list N * A)) : list (list N * A) :=
  match kv with
  | [] => [(k, v)]
  | (k', v') :: r => if str_eqb k k' then (k, v) :: r
                     else if str_ltb k k' then (k, v) :: (k', v') :: r
                     else (k', v') :: set_kv k v r
  end.

Definition mem_str (k : list N) (l : list (list N)) : bool := existsb (str_eqb k) l.

Definition UNDERSCORE : N := 95.
Definition dunder (k : list N) : bool :=
  match k with a :: b :: _ => N.eqb a UNDERSCORE && N.eqb b UNDERSCORE | _ => false end.

(* bool(x) *)
Definition truthy (j : json) : bool :=
  match j with
  | JNull => false | JBool b => b | JInt z => negb (Z.eqb z 0)
  | JStr s => match s with [] => false | _ => true end
  | JArr l => match l with [] => false | _ => true end
  | JObj l => match l with [] => false | _ => true end
  end.

(* iterating a JSON value (tuple(x), f( *x )): None = TypeError *)
Definition iter_json (j : json) : option (list json) :=
  match j with
  | JArr l => Some l
  | JStr s => Some (map (fun c => JStr [c]) s)
  | JObj kv => Some (map (fun p => JStr (fst p)) kv)
  | _ => None
  end.

(* a lone surrogate: the name of a class must be encodable (UnicodeEncodeError is a ValueError) *)
Definition surrogate (c : N) : bool := N.leb 55296 c && N.leb c 57343.

Definition hashable (j : json) : bool := match j with JArr _ | JObj _ => false | _ => true end.

Record event := {
  ename : list N; eargs : list json; ekwargs : list (list N * json);
  esuccess : bool; efailure : bool; enotify : bool;
  echannels : list json;
  eattrs : list (list N * json)     (* instance attributes outside dir(Event()), sorted by name *)
}.

(* string constants (code points) *)
Definition k_id := [105;100]%N.
Definition k_name := [110;97;109;101]%N.
Definition k_args := [97;114;103;115]%N.
Definition k_kwargs := [107;119;97;114;103;115]%N.
Definition k_success := [115;117;99;99;101;115;115]%N.
Definition k_failure := [102;97;105;108;117;114;101]%N.
Definition k_notify := [110;111;116;105;102;121]%N.
Definition k_channels := [99;104;97;110;110;101;108;115]%N.
Definition k_meta := [109;101;116;97]%N.
Definition k_value := [118;97;108;117;101]%N.
Definition k_errors := [101;114;114;111;114;115]%N.
Definition k__name := [95;110;97;109;101]%N.
Definition k_cls := [99;108;115]%N.
Definition k_self := [115;101;108;102]%N.
Definition k_cause := [99;97;117;115;101]%N.
Definition k_effects := [101;102;102;101;99;116;115]%N.
Definition k_complete_channels := [99;111;109;112;108;101;116;101;95;99;104;97;110;110;101;108;115]%N.
Definition k_success_channels := [115;117;99;99;101;115;115;95;99;104;97;110;110;101;108;115]%N.
Definition k_node_call_id := [110;111;100;101;95;99;97;108;108;95;105;100]%N.
Definition k_node_sock := [110;111;100;101;95;115;111;99;107]%N.

(* attributes of an event that Manager._dispatcher/_eventDone read and that are not in dir(Event()) *)
Definition dispatcher_attrs : list (list N) :=
  [k_cause; k_effects; k_complete_channels; k_success_channels; k_node_call_id; k_node_sock].

Inductive hres := HNone | HVal (r : json) | HValLate (r : json) | HRaise (late : bool).

(* what the caller sees as the value of a failed remote event: the peer serialises the
   (type, exception, traceback) triple with default=str; the text is environment dependent and is
   treated as one opaque value *)
Definition JERR : json := JStr [60; 101; 114; 114; 111; 114; 62]%N.

Section Meta.
  Variable excl : list (list N).     (* META_EXCLUDE *)

  Definition allowed (k : list N) : bool := negb (dunder k) && negb (mem_str k excl).

  (* for k, v in meta.items(): skip excluded; setattr(e, k, v) *)
  Fixpoint apply_meta (meta attrs : list (list N * json)) : list (list N * json) :=
    match meta with
    | [] => attrs
    | (k, v) :: r => apply_meta r (if allowed k then set_kv k v attrs else attrs)
    end.

  (* dict(data['meta']): None = TypeError/ValueError (packet dropped).  Non-empty arrays are outside
     the model (treated as dropped; the generators never produce them). *)
  Definition as_dict (j : json) : option (list (list N * json)) :=
    match j with
    | JObj kv => Some kv
    | JArr [] => Some []
    | JStr [] => Some []
    | _ => None
    end.

  (* utils.load_event on the parsed text; None = TypeError / ValueError / LookupError *)
  Definition load_event (data : json) : option (event * json) :=
    match data with
    | JObj o =>
        match get k_name o, get k_args o, get k_kwargs o, get k_success o, get k_failure o,
              get k_notify o, get k_channels o, get k_meta o, get k_id o with
        | Some (JStr name), Some a, Some (JObj kw), Some s, Some f, Some n, Some ch, Some m, Some id =>
            match iter_json a, iter_json ch, as_dict m with
            | Some args, Some chans, Some meta =>
                if mem_str k__name (map fst kw) || mem_str k_cls (map fst kw) || mem_str k_self (map fst kw)
                   || existsb (N.eqb 0) name || existsb surrogate name
                then None
                else if forallb hashable chans then
                  Some ({| ename := name; eargs := args; ekwargs := kw; esuccess := truthy s;
                           efailure := truthy f; enotify := truthy n; echannels := chans;
                           eattrs := apply_meta meta [] |}, id)
                else None
            | _, _, _ => None
            end
        | _, _, _, _, _, _, _, _, _ => None
        end
    | _ => None
    end.

  (* what Manager._dispatcher / _eventDone need from a received event in order not to raise outside the
     dispatcher's try: the channels key the handler cache (hashable), and a truthy [cause] makes
     _eventDone execute [event.effects -= 1] *)
  Definition dispatch_safe (e : event) : bool :=
    forallb hashable (echannels e)
    && match get k_cause (eattrs e) with
       | None => true
       | Some c => negb (truthy c)
                   || match get k_effects (eattrs e) with Some (JInt _) => true | _ => false end
       end.

  (* meta of dump_event / dump_value: attributes not in META_EXCLUDE (dump_value: and not __x) *)
  Definition dump_meta (e : event) : list (list N * json) :=           (* dump_value *)
    filter (fun p => allowed (fst p)) (eattrs e).
  Definition dump_meta_ev (e : event) : list (list N * json) :=        (* dump_event: no __ test *)
    filter (fun p => negb (mem_str (fst p) excl)) (eattrs e).

  (* the dict dump_event serialises, keys sorted *)
  Definition event_data (e : event) (id : json) : json :=
    JObj [ (k_args, JArr (eargs e)); (k_channels, JArr (echannels e)); (k_failure, JBool (efailure e));
           (k_id, id); (k_kwargs, JObj (ekwargs e)); (k_meta, JObj (dump_meta_ev e));
           (k_name, JStr (ename e)); (k_notify, JBool (enotify e)); (k_success, JBool (esuccess e)) ].

  Definition value_data (id errors value : json) (e : event) : json :=
    JObj [ (k_errors, errors); (k_id, id); (k_meta, JObj (dump_meta e)); (k_value, value) ].

  (* utils.load_value: (value, id, errors, meta) *)
  Inductive lv := LvDrop | LvAbort | LvOk (value id errors : json) (meta : list (list N * json)).
  Definition load_value (o : list (list N * json)) : lv :=
    match get k_meta o with
    | None => LvDrop                                    (* KeyError *)
    | Some (JObj m) =>
        match get k_value o, get k_id o, get k_errors o with
        | Some v, Some id, Some er => LvOk v id er (filter (fun p => allowed (fst p)) m)
        | _, _, _ => LvDrop
        end
    | Some _ => LvAbort                                 (* .items(): AttributeError, not caught *)
    end.

  (* --------------------------------------------------------------------------------------------
     3. the two parties.  A = calling side (Node + Client + Protocol), B = serving side
        (Node + Server + Protocol).                                                              *)

  Variable dumps : json -> option (list N).     (* json.dumps, None = question not in the table *)
  Variable loads : list N -> option (option json).  (* json.loads: Some None = ValueError; None = miss *)
  Variable D : list N.
  Variable fw_send fw_recv : event -> bool.     (* firewalls: true = allowed *)
  (* B's application on a dispatched event: HNone = no handler for the name (nothing runs, result null);
     HVal r = the handlers run and the value is r (HValLate r: a generator handler yields it, the event is
     finished in a later tick); HRaise late = a handler raises - at once (late = false)
     or in a later tick, after a yield of a generator handler (late = true) *)
  Variable handler : event -> hres.
  Variable b_chan : json.                       (* channel of B's Protocol component *)

  Record call := { c_fin : bool;                 (* remote_finish set or rejected by send firewall *)
                   c_res : bool; c_val : json;   (* Value._collecting / Value._value of ev.value *)
                   c_err : option json }.        (* ev.errors *)
  Definition call0 := {| c_fin := false; c_res := false; c_val := JNull; c_err := None |}.

  Record st := {
    a_nid : Z;
    a_issued : list Z;    (* ghost: every id ever written to the peer, in order *)
    a_nores : list Z;     (* ghost: the ids among them that belong to sends without result *)
    a_pend : list (Z * nat); a_calls : list call; a_buf : list N;
    b_buf : list N; b_log : list event;
    wab : list N; wba : list N;                 (* bytes written and not yet delivered *)
    bad : bool                                  (* the model was asked something it does not cover *)
  }.
  Definition st0 := {| a_nid := 0; a_issued := []; a_nores := []; a_pend := []; a_calls := []; a_buf := []; b_buf := []; b_log := [];
                       wab := []; wba := []; bad := false |}.

  Definition packet (j : json) : option (list N) :=
    match dumps j with Some b => Some (escape b ++ D) | None => None end.

  (* how the caller uses Protocol.send:
     MCall      - a handler returns the generator and waits for the result (Node.__on_remote, Client.send,
                  Server.send);
     MNoResAttr - the same, but event.node_without_result is set: the generator ends after the write;
     MNoResApi  - Server.send(no_result=True) / send_to / send_all: the first next() is done by Server.send
                  and its value thrown away, nobody waits *)
  Inductive smode := MCall | MNoResAttr | MNoResApi.

  (* Protocol.send: every send that passes the firewall takes a fresh id, with or without result; only a
     send with result registers the event in __events *)
  Definition a_send (s : st) (e : event) (m : smode) : st :=
    if fw_send e then
      match packet (event_data e (JInt (a_nid s))) with
      | Some b => {| a_nid := a_nid s + 1; a_issued := a_issued s ++ [a_nid s];
                     a_nores := match m with MCall => a_nores s | _ => a_nores s ++ [a_nid s] end;
                     a_pend := match m with
                               | MCall => a_pend s ++ [(a_nid s, length (a_calls s))]
                               | _ => a_pend s
                               end;
                     a_calls := a_calls s ++ [call0]; a_buf := a_buf s; b_buf := b_buf s;
                     b_log := b_log s; wab := wab s ++ b; wba := wba s; bad := bad s |}
      | None => {| a_nid := a_nid s; a_issued := a_issued s; a_nores := a_nores s; a_pend := a_pend s;
                   a_calls := a_calls s; a_buf := a_buf s;
                   b_buf := b_buf s; b_log := b_log s; wab := wab s; wba := wba s; bad := true |}
      end
    else {| a_nid := a_nid s; a_issued := a_issued s; a_nores := a_nores s; a_pend := a_pend s;
            (* yield Value(event, self): seen by the waiting handler, discarded by Server.send(no_result) *)
            a_calls := a_calls s ++ [{| c_fin := match m with MNoResApi => false | _ => true end;
                                        c_res := false; c_val := JNull; c_err := None |}];
            a_buf := a_buf s; b_buf := b_buf s; b_log := b_log s; wab := wab s; wba := wba s;
            bad := bad s |}.

  (* a question the recorded json.loads table cannot answer is passed on as a marker packet *)
  Definition JMISS : json := JStr [0; 109; 105; 115; 115]%N.
  Definition parse (b : list N) : option json :=
    match loads b with Some r => r | None => Some JMISS end.
  Definition is_miss (j : json) : bool := json_eqb j JMISS.

  Definition is_value (j : json) : option (list (list N * json)) :=
    match j with JObj o => match get k_value o with Some _ => Some o | None => None end | _ => None end.

  (* --- B: one parsed packet -> (log', bytes written, abort) *)
  Definition no_reply (id : json) : bool :=     (* getattr(e, 'node_call_id', False) is not False *)
    match id with JBool false => true | _ => false end.

  (* -> (dispatched events, answers written as (class, bytes), abort, bad).  The classes order the answers
     produced by one read on the wire:
       0  a rejection is answered from inside add_buffer;
       1  the result of a dispatched event is written two queue passes later
          (event -> <name>_success on node_result -> write);
       2  the error answer of an event whose handler raised is written after that
          (event -> exception -> <name>_complete on node_result -> write);
       3  when a generator handler raises after a yield, in a later tick. *)
  Definition b_packet (j : json) : list event * list (nat * list N) * bool * bool :=
    if is_miss j then ([], [], false, true) else
    match is_value j with
    | Some o =>
        match load_value o with
        | LvAbort => ([], [], true, false)
        | LvOk _ id _ _ => ([], [], negb (hashable id), false)   (* __events.get(id): TypeError *)
        | LvDrop => ([], [], false, false)
        end
    | None =>
        match load_event j with
        | None => ([], [], false, false)
        | Some (e, id) =>
            if fw_recv e then
              (* event.success = True; event.complete = True; fire(event, *event.channels) *)
              let e' := {| ename := ename e; eargs := eargs e; ekwargs := ekwargs e; esuccess := true;
                           efailure := efailure e; enotify := enotify e;
                           echannels := match echannels e with [] => [b_chan] | l => l end;
                           eattrs := eattrs e |} in
              let h := handler e' in
              let log := match h with HNone => [] | _ => [e'] end in
              let cls := match h with HRaise true | HValLate _ => 3 | HRaise false => 2 | _ => 1 end in
              let r := match h with HVal r | HValLate r => r | HRaise _ => JERR | HNone => JNull end in
              let er := match h with HRaise _ => true | _ => false end in
              if no_reply id then (log, [], false, false) else
              match packet (value_data id (JBool er) r e) with
              | Some b => (log, [(cls, b)], false, false)
              | None => (log, [], false, true)
              end
            else match packet (value_data id (JBool false) JNull e) with
                 | Some b => ([], [(0, b)], false, false)
                 | None => ([], [], false, true)
                 end
        end
    end.

  Fixpoint b_packets (js : list json) : list event * list (nat * list N) * bool * bool :=
    match js with
    | [] => ([], [], false, false)
    | j :: r => let '(l, o, ab, bd) := b_packet j in
                if ab then (l, o, true, bd)
                else let '(l', o', ab', bd') := b_packets r in
                     (l ++ l', o ++ o', ab', bd || bd')
    end.

  Definition pick (k : nat) (rs : list (nat * list N)) : list N :=
    concat (map snd (filter (fun p => Nat.eqb (fst p) k) rs)).

  Definition b_read (s : st) (data : list N) : st :=
    let '(js, buf) := feed json parse D (b_buf s) data in
    let '(l, o, ab, bd) := b_packets js in
    {| a_nid := a_nid s; a_issued := a_issued s; a_nores := a_nores s; a_pend := a_pend s; a_calls := a_calls s; a_buf := a_buf s;
       b_buf := if ab then [] else buf; b_log := b_log s ++ l; wab := wab s;
       wba := wba s ++ pick 0 o ++ pick 1 o ++ pick 2 o ++ pick 3 o;
       bad := bad s || bd |}.

  (* --- A: Value.setValue on ev.value, ev.errors, ev.remote_finish, setattr of the meta *)
  Definition set_value (c : call) (v er : json) (meta : list (list N * json)) : call :=
    (* Value.setValue: the first value is kept as it is (a list result is one result); from the second
       value on the results are collected in a list ([c_res] = Value._collecting) *)
    let val := if c_res c then match c_val c with JArr l => JArr (l ++ [v]) | x => JArr [x; v] end
               else match c_val c with JNull => v | x => JArr [x; v] end in
    let res := c_res c || match c_val c with JNull => false | _ => true end in
    {| c_fin := true; c_res := res; c_val := val;
       c_err := match get k_errors meta with Some x => Some x | None => Some er end |}.

  Fixpoint upd {A} (n : nat) (f : A -> A) (l : list A) : list A :=
    match l, n with
    | [], _ => []
    | x :: r, O => f x :: r
    | x :: r, S k => x :: upd k f r
    end.

  (* the key a JSON id hits in the dict of pending calls (True == 1) *)
  Definition id_key (id : json) : option Z :=
    match id with JInt z => Some z | JBool b => Some (if b then 1 else 0)%Z | _ => None end.

  Fixpoint zget (k : Z) (l : list (Z * nat)) : option nat :=
    match l with [] => None | (k', v) :: r => if Z.eqb k k' then Some v else zget k r end.

  (* one parsed packet at A -> (calls', abort, bad) *)
  Definition a_packet (pend : list (Z * nat)) (calls : list call) (j : json) : list call * bool * bool :=
    if is_miss j then (calls, false, true) else
    match is_value j with
    | Some o =>
        match load_value o with
        | LvAbort => (calls, true, false)
        | LvDrop => (calls, false, false)
        | LvOk v id er meta =>
            if hashable id then
              match id_key id with
              | Some z => match zget z pend with
                          | Some i => (upd i (fun c => set_value c v er meta) calls, false, false)
                          | None => (calls, false, false)
                          end
              | None => (calls, false, false)
              end
            else (calls, true, false)
        end
    | None => match load_event j with
              | None => (calls, false, false)
              | Some _ => (calls, false, true)     (* calls towards A are outside the model *)
              end
    end.

  Fixpoint a_packets (pend : list (Z * nat)) (calls : list call) (js : list json) : list call * bool * bool :=
    match js with
    | [] => (calls, false, false)
    | j :: r => let '(c, ab, bd) := a_packet pend calls j in
                if ab then (c, true, bd)
                else let '(c', ab', bd') := a_packets pend c r in (c', ab', bd || bd')
    end.

  Definition finished (calls : list call) (p : Z * nat) : bool :=
    match nth_error calls (snd p) with Some c => c_fin c | None => false end.

  (* a read at A, then the tick in which the waiting send() generators look at remote_finish *)
  Definition a_read (s : st) (data : list N) : st :=
    let '(js, buf) := feed json parse D (a_buf s) data in
    let '(calls, ab, bd) := a_packets (a_pend s) (a_calls s) js in
    {| a_nid := a_nid s; a_issued := a_issued s; a_nores := a_nores s; a_pend := filter (fun p => negb (finished calls p)) (a_pend s);
       a_calls := calls; a_buf := if ab then [] else buf;
       b_buf := b_buf s; b_log := b_log s; wab := wab s; wba := wba s;
       bad := bad s || bd |}.

  Inductive op := OSend (e : event) (m : smode) | OInjAB (b : list N) | OInjBA (b : list N)
                | OAB (n : nat) | OBA (n : nat)        (* deliver n bytes (0 = everything) as one read *)
                | OABP | OBAP.                         (* deliver one whole packet (up to and including the
                                                          next delimiter; everything if there is none) *)

  Definition take_packet (l : list N) : list N * list N :=
    match split D l with
    | h :: _ :: _ => (firstn (length h + length D) l, skipn (length h + length D) l)
    | _ => (l, [])
    end.

  Definition take (n : nat) (l : list N) : list N * list N :=
    match n with O => (l, []) | _ => (firstn n l, skipn n l) end.

  Definition step (s : st) (o : op) : st :=
    match o with
    | OSend e m => a_send s e m
    | OInjAB b => {| a_nid := a_nid s; a_issued := a_issued s; a_nores := a_nores s; a_pend := a_pend s; a_calls := a_calls s; a_buf := a_buf s;
                     b_buf := b_buf s; b_log := b_log s; wab := wab s ++ b; wba := wba s; bad := bad s |}
    | OInjBA b => {| a_nid := a_nid s; a_issued := a_issued s; a_nores := a_nores s; a_pend := a_pend s; a_calls := a_calls s; a_buf := a_buf s;
                     b_buf := b_buf s; b_log := b_log s; wab := wab s; wba := wba s ++ b; bad := bad s |}
    | OAB n => let '(d, rest) := take n (wab s) in
               match d with
               | [] => s
               | _ => b_read {| a_nid := a_nid s; a_issued := a_issued s; a_nores := a_nores s; a_pend := a_pend s; a_calls := a_calls s;
                                a_buf := a_buf s; b_buf := b_buf s; b_log := b_log s; wab := rest;
                                wba := wba s; bad := bad s |} d
               end
    | OBA n => let '(d, rest) := take n (wba s) in
               match d with
               | [] => s
               | _ => a_read {| a_nid := a_nid s; a_issued := a_issued s; a_nores := a_nores s; a_pend := a_pend s; a_calls := a_calls s;
                                a_buf := a_buf s; b_buf := b_buf s; b_log := b_log s; wab := wab s;
                                wba := rest; bad := bad s |} d
               end
    | OABP => let '(d, rest) := take_packet (wab s) in
               match d with
               | [] => s
               | _ => b_read {| a_nid := a_nid s; a_issued := a_issued s; a_nores := a_nores s; a_pend := a_pend s; a_calls := a_calls s;
                                a_buf := a_buf s; b_buf := b_buf s; b_log := b_log s; wab := rest;
                                wba := wba s; bad := bad s |} d
               end
    | OBAP => let '(d, rest) := take_packet (wba s) in
               match d with
               | [] => s
               | _ => a_read {| a_nid := a_nid s; a_issued := a_issued s; a_nores := a_nores s; a_pend := a_pend s; a_calls := a_calls s;
                                a_buf := a_buf s; b_buf := b_buf s; b_log := b_log s; wab := wab s;
                                wba := rest; bad := bad s |} d
               end
    end.

  Definition exec (ops : list op) : st := fold_left step ops st0.

  (* the bytes one read of the callee makes it write, split by what triggers the write: (answers of the
     receive firewall, written from inside add_buffer; answers written by result_handler when the
     <name>_success / <name>_complete notification of the dispatched event arrives) *)
  Definition b_replies (s : st) (data : list N) : list N * list N :=
    let '(js, _) := feed json parse D (b_buf s) data in
    let '(_, o, _, _) := b_packets js in
    (pick 0 o, pick 1 o ++ pick 2 o ++ pick 3 o).

  (* the answers that a delivery step makes result_handler write *)
  Definition notified (s : st) (o : op) : list N :=
    match o with
    | OAB n => let '(d, _) := take n (wab s) in match d with [] => [] | _ => snd (b_replies s d) end
    | OABP => let '(d, _) := take_packet (wab s) in match d with [] => [] | _ => snd (b_replies s d) end
    | _ => []
    end.
End Meta.

(* ------------------------------------------------------------------------------------------------
   4. several connections on one called side (a Server with several clients, a Node with several
      peers): one single-connection state per connection id; every step happens on one connection.
      In the code after fix 8ca1bbb the <name>_success / <name>_complete notification of a remote event is
      addressed to the Protocol of the connection the call came from ([legacy] = false).  Before, it
      was fired on the shared channel 'node_result' and EVERY Protocol of the process answered: the
      value packet was also written on all other connections ([legacy] = true, [n] connections).   *)
Section Hub.
  Variable excl : list (list N).
  Variable dumps : json -> option (list N).
  Variable loads : list N -> option (option json).
  Variable D : list N.
  Variables fw_send fw_recv : event -> bool.
  Variable handler : event -> hres.
  Variable b_chan : nat -> json.        (* channel of the called side's Protocol of each connection *)
  Variable n : nat.                     (* number of connections (matters for [legacy] only) *)

  Definition hub := nat -> st.
  Definition hub0 : hub := fun _ => st0.

  Definition add_wba (s : st) (b : list N) : st :=
    {| a_nid := a_nid s; a_issued := a_issued s; a_nores := a_nores s; a_pend := a_pend s;
       a_calls := a_calls s; a_buf := a_buf s; b_buf := b_buf s; b_log := b_log s; wab := wab s;
       wba := wba s ++ b; bad := bad s |}.

  Definition hstep (legacy : bool) (h : hub) (co : nat * op) : hub :=
    let '(c, o) := co in
    let s' := step excl dumps loads D fw_send fw_recv handler (b_chan c) (h c) o in
    let extra := notified excl dumps loads D fw_recv handler (b_chan c) (h c) o in
    fun c' => if Nat.eqb c' c then s'
              else if legacy && Nat.ltb c' n then add_wba (h c') extra
              else h c'.

  Definition hrun (legacy : bool) (sched : list (nat * op)) : hub := fold_left (hstep legacy) sched hub0.

  (* the steps of one connection *)
  Definition ops_of (c : nat) (sched : list (nat * op)) : list op :=
    map snd (filter (fun co => Nat.eqb (fst co) c) sched).
End Hub.
