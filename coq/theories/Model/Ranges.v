(* Executable model of circuits/web/utils.py get_ranges (as repaired by
   fixes/C16_get_ranges.patch) and of the Range arm of circuits/web/tools.py
   serve_file.  Strings are lists of code points, file contents lists of bytes.
   Every Python operation that can raise on this path is an explicit crash
   outcome: int() of a non-number (RCrash), file.seek() of a negative offset
   (Err500).  No proofs in this file. *)
From Coq Require Import List ZArith NArith Bool.
From Circ Require Import Model.StaticPath.
Import ListNotations.
Open Scope Z_scope.

Definition EQ : N := 61.     (* '=' *)
Definition DASH : N := 45.   (* '-' *)
Definition COMMA : N := 44.  (* ',' *)

(* str.isspace() code points: what str.strip() and the regex class \s remove *)
Definition is_ws (c : N) : bool :=
  (((9 <=? c) && (c <=? 13)) || ((28 <=? c) && (c <=? 32)) || (c =? 133) || (c =? 160)
  || (c =? 5760) || ((8192 <=? c) && (c <=? 8202)) || (c =? 8232) || (c =? 8233)
  || (c =? 8239) || (c =? 8287) || (c =? 12288))%N.

Fixpoint lstrip_ws (s : str) : str :=
  match s with c :: t => if is_ws c then lstrip_ws t else s | [] => [] end.
Definition strip_ws (s : str) : str := rev (lstrip_ws (rev (lstrip_ws s))).

(* s.partition(d): (before, after) of the first d; None when d does not occur *)
Fixpoint partition_at (d : N) (s : str) : option (str * str) :=
  match s with
  | [] => None
  | c :: t => if (c =? d)%N then Some ([], t)
              else match partition_at d t with
                   | Some (a, b) => Some (c :: a, b)
                   | None => None
                   end
  end.

Definition is_digit (c : N) : bool := ((48 <=? c) && (c <=? 57))%N.
Definition all_digits (s : str) : bool := forallb is_digit s.

(* int(s) for the strings that reach it; None = ValueError *)
Definition int_of (s : str) : option Z :=
  match s with
  | [] => None
  | _ => if all_digits s
         then Some (fold_left (fun acc c => 10 * acc + (Z.of_N c - 48)) s 0)
         else None
  end.

Definition lower_ascii (c : N) : N := (if (65 <=? c) && (c <=? 90) then c + 32 else c)%N.
Definition BYTES : str := [98; 121; 116; 101; 115]%N.

(* byte_range_pattern.fullmatch(brange) -> the two groups.  The pattern is
   ws* digits* '-' digits* ws*  (digits = ASCII 0-9, ws = the regex class \s) *)
Definition parse_spec (b : str) : option (str * str) :=
  match partition_at DASH (strip_ws b) with
  | None => None
  | Some (l, r) => if all_digits l && all_digits r then Some (l, r) else None
  end.

Inductive ranges :=
| RIgnore                       (* None: serve the full file *)
| RList (l : list (Z * Z))      (* (start, stop) slices; [] -> 416 *)
| RUnsat                        (* raise RangeUnsatisfiable() -> 416 *)
| RCrash.                       (* ValueError escaping get_ranges -> 500 *)

Definition pair_eqb (a b : Z * Z) : bool := (fst a =? fst b) && (snd a =? snd b).
(* if x not in result: result.append(x) *)
Definition add_unique (x : Z * Z) (acc : list (Z * Z)) : list (Z * Z) :=
  if existsb (pair_eqb x) acc then acc else acc ++ [x].

Fixpoint ranges_loop (cl : Z) (specs : list str) (acc : list (Z * Z)) : ranges :=
  match specs with
  | [] => RList acc
  | b :: rest =>
      match parse_spec b with
      | None => RIgnore
      | Some (s, e) =>
          if negb (isnil s) then
            match int_of s, (if isnil e then Some (cl - 1) else int_of e) with
            | Some start, Some stop =>
                if start >=? cl then ranges_loop cl rest acc
                else if stop <? start then RIgnore
                else ranges_loop cl rest (add_unique (start, Z.min stop (cl - 1) + 1) acc)
            | _, _ => RCrash
            end
          else if isnil e then RIgnore
          else match int_of e with
               | None => RCrash
               | Some n =>
                   if (n =? 0) || (cl =? 0) then ranges_loop cl rest acc
                   else ranges_loop cl rest (add_unique (Z.max (cl - n) 0, cl) acc)
               end
      end
  end.

Definition zsum (l : list Z) : Z := fold_right Z.add 0 l.
(* stddev(xs) > 2.0, in exact arithmetic:  n * sum x^2 - (sum x)^2 > 4 n^2 *)
Definition too_spread (xs : list Z) : bool :=
  let n := Z.of_nat (length xs) in
  4 * n * n <? n * zsum (map (fun x => x * x) xs) - zsum xs * zsum xs.

(* headervalue.partition('=') -> (before, after); (headervalue, '') when there is no '=' *)
Definition split_unit (h : str) : str * str :=
  match partition_at EQ h with Some ur => ur | None => (h, []) end.

(* get_ranges(headervalue, content_length); hv = None: no Range header *)
Definition get_ranges (hv : option str) (cl : Z) : ranges :=
  match hv with
  | None => RIgnore
  | Some [] => RIgnore
  | Some h =>
      let unit := fst (split_unit h) in
      let rest := snd (split_unit h) in
      if negb (str_eqb (map lower_ascii (strip_ws unit)) BYTES) then RIgnore
      else match ranges_loop cl (split_on COMMA rest) [] with
           | RList l =>
               if (1 <? Z.of_nat (length l)) && too_spread (map (fun x => snd x - fst x) l)
               then RUnsat else RList l
           | r => r
           end
  end.

(* ---- the Range arm of serve_file ---- *)

Inductive resp :=
| Full (len : Z)                                   (* 200, Content-Length: len, the whole file *)
| R416 (len : Z)                                   (* 416, Content-Range: bytes */len *)
| Partial (start stop len : Z) (body : list N)     (* 206, Content-Range: bytes start-(stop-1)/len *)
| Multi (len : Z) (parts : list (Z * Z * list N))  (* 206 multipart/byteranges *)
| Err500.                                          (* an exception escapes *)

(* bodyfile.seek(start); bodyfile.read(n): None = seek raises (negative offset);
   read of a negative count reads to the end of the file *)
Definition seek_read (content : list N) (start n : Z) : option (list N) :=
  if start <? 0 then None
  else let tail := skipn (Z.to_nat start) content in
       Some (if n <? 0 then tail else firstn (Z.to_nat n) tail).

Fixpoint read_parts (content : list N) (l : list (Z * Z)) : option (list (Z * Z * list N)) :=
  match l with
  | [] => Some []
  | (a, b) :: r =>
      match seek_read content a (b - a), read_parts content r with
      | Some body, Some ps => Some ((a, b, body) :: ps)
      | _, _ => None
      end
  end.

Definition serve_range (proto11 : bool) (hv : option str) (content : list N) : resp :=
  let cl := Z.of_nat (length content) in
  if negb proto11 then Full cl
  else match get_ranges hv cl with
       | RCrash => Err500
       | RUnsat => R416 cl
       | RIgnore => Full cl
       | RList [] => R416 cl
       | RList [(a, b)] =>
           match seek_read content a (b - a) with
           | Some body => Partial a b cl body
           | None => Err500
           end
       | RList l =>
           match read_parts content l with
           | Some ps => Multi cl ps
           | None => Err500
           end
       end.
