(* C12 — encoders of the ServerConn model's results into Obs.T for the correspondence check *)
From Coq Require Import List ZArith NArith Arith Bool.
From Circ Require Import Lib.Obs Model.ServerConn.
Import ListNotations.

Fixpoint ins (x : nat) (l : list nat) : list nat :=
  match l with [] => [x] | y :: t => if Nat.leb x y then x :: l else y :: ins x t end.
Definition sort (l : list nat) : list nat := fold_right ins [] l.
Fixpoint insb (x : nat * list N) (l : list (nat * list N)) :=
  match l with [] => [x] | y :: t => if Nat.leb (fst x) (fst y) then x :: l else y :: insb x t end.
Definition sortb (l : list (nat * list N)) := fold_right insb [] l.

Definition Tnats (l : list nat) : T := Tl (map Tnat (sort l)).

(* tables as the harness reads them: live clients, non-empty buffers of live clients (lengths), buffer keys that are
   not clients, closeq, poller read / write / targets / map — each sorted *)
Definition enc_tables (hm : bool) (x : st) : T :=
  let live := x.(clients) in
  Tl [ Tnats live;
       Tl (map (fun p => Tl [Tnat (fst p); Tl (map TN (snd p))])
               (sortb (filter (fun p => mem (fst p) live && negb (isnil (snd p))) x.(bufs))));
       Tnats (map fst (filter (fun p => negb (mem (fst p) live)) x.(bufs)));
       Tnats x.(closeq); Tnats x.(rd); Tnats x.(wr); Tnats x.(tg); Tnats x.(mp);
       (* which tables hold the listening socket: poller read (4), targets (6), map (7) while it is open *)
       Tnats (if x.(lis) then [4; 6] ++ (if hm then [7] else []) else []) ].

Definition enc_call (o : out) : list T :=
  match o with
  | OCall (CRecv s _) => [Tl [Tn 0; Tnat s]]
  | OCall (CSend s n) => [Tl [Tn 1; Tnat s; TN n]]
  | _ => []
  end.
Definition enc_ev (hm : bool) (o : out) : list T :=
  match o with
  | OEv (EConnect s) => [Tl [Tn 0; Tnat s; Tl []]]
  | OEv (ERead s d) => [Tl [Tn 1; Tnat s; Tb d]]
  | OEv (EError s) => [Tl [Tn 2; Tnat s; Tl []]]
  | OEv (EDisconnect s) => [Tl [Tn 3; Tnat s; Tl []]]
  | OSnap x => [Tl [Tn 4; enc_tables hm x]]
  | OSrv VListenDown => [Tl [Tn 5; Tn 0; Tl []]]
  | OSrv VClosed => [Tl [Tn 6; Tn 0; Tl []]]
  | OCall _ => []
  end.

Definition obs_server (hm : bool) (h : list stim) : T :=
  let os := snd (run hm h) in
  Tl [Tl (flat_map enc_call os); Tl (flat_map (enc_ev hm) os)].

(* error events are not compared on the client side: the property only counts connected / disconnected;
   send() calls are compared as a separate sequence (events are seen later than calls) *)
Definition enc_cev (e : cev) : list T :=
  match e with
  | KConnected => [Tl [Tn 0]] | KDisconnected => [Tl [Tn 1]] | KData d => [Tl [Tn 3; Tb d]] | KErr | KSend _ => []
  end.
Definition enc_csend (e : cev) : list T := match e with KSend n => [TN n] | _ => [] end.
Definition obs_client (h : list cstim) : T :=
  let '(x, os) := crun h in
  Tl [Tl (flat_map enc_cev os); Tl (flat_map enc_csend os); Tbool x.(conn); Tl (map TN x.(pending));
      Tbool x.(closeflag); Tbool x.(sopen)].
