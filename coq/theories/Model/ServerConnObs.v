(* C12 — encoders of the ServerConn model's results into Obs.T for the correspondence check *)
From Coq Require Import List ZArith NArith Arith Bool.
From Circ Require Import Lib.Obs Model.ServerConn.
Import ListNotations.

Fixpoint ins (x : nat) (l : list nat) : list nat :=
  match l with [] => [x] | y :: t => if Nat.leb x y then x :: l else y :: ins x t end.
Definition sort (l : list nat) : list nat := fold_right ins [] l.
Fixpoint insb (x : nat * list N) (l : list (nat * list N)) :=
  match l with [] => [x] | y :: t => if Nat.leb (fst x) (fst y) then x :: l else y :: insb x t end.
Definition sortb (l : list (nat * list N)) := fold_right insb [] l.

Definition Tnats (l : list nat) : T := Tl (map Tnat (sort l)).

(* tables as the harness reads them — by meaning, not by attribute name: one row per socket that is open or still
   referenced somewhere:  [s; open?; #containers of the server that track s (clients, pending-close);
   residue (s closed but still a key/value/attribute of the server); lengths of the payloads buffered for s;
   #poller lists holding s; s is a key of a poller dict?; s is a value of a poller dict?]
   then the row of the listening socket [open?; #server containers; #poller lists; key?; value?] *)
Definition b2z (b : bool) : Z := if b then 1%Z else 0%Z.
Definition socks_of (x : st) : list sock :=
  sort (nodup Nat.eq_dec (x.(clients) ++ map fst x.(bufs) ++ x.(closeq) ++ x.(rd) ++ x.(wr) ++ x.(tg) ++ x.(mp))).
Definition enc_row (x : st) (s : sock) : T :=
  let live := mem s x.(clients) in
  Tl [Tnat s; Tbool live; Tn (b2z live + b2z (mem s x.(closeq)))%Z; Tbool (negb live && bhas s x.(bufs));
      Tl (if live then map TN (bget s x.(bufs)) else []);
      Tn (b2z (mem s x.(rd)) + b2z (mem s x.(wr)))%Z; Tbool (mem s x.(tg)); Tbool (mem s x.(mp))].
Definition enc_tables (hm : bool) (x : st) : T :=
  Tl [Tl (map (enc_row x) (socks_of x));
      Tl [Tbool x.(lis); Tn 0; Tbool x.(lis); Tbool x.(lis); Tbool (x.(lis) && hm)]].

Definition enc_call (o : out) : list T :=
  match o with
  | OCall (CRecv s _) => [Tl [Tn 0; Tnat s]]
  | OCall (CSend s n) => [Tl [Tn 1; Tnat s; TN n]]
  | _ => []
  end.
Definition enc_ev (hm : bool) (o : out) : list T :=
  match o with
  | OEv (EConnect s) => [Tl [Tn 0; Tnat s; Tl []]]
  | OEv (ERead s d) => [Tl [Tn 1; Tnat s; Tb d]]
  | OEv (EError s) => [Tl [Tn 2; Tnat s; Tl []]]
  | OEv (EDisconnect s) => [Tl [Tn 3; Tnat s; Tl []]]
  | OSnap x => [Tl [Tn 4; enc_tables hm x]]
  | OSrv VListenDown => [Tl [Tn 5; Tn 0; Tl []]]
  | OSrv VClosed => [Tl [Tn 6; Tn 0; Tl []]]
  | OCall _ => []
  end.

Definition obs_server (hm : bool) (h : list stim) : T :=
  let os := snd (run hm h) in
  Tl [Tl (flat_map enc_call os); Tl (flat_map (enc_ev hm) os)].

(* error events are not compared on the client side: the property only counts connected / disconnected;
   send() calls are compared as a separate sequence (events are seen later than calls) *)
Definition enc_cev (e : cev) : list T :=
  match e with
  | KConnected => [Tl [Tn 0]] | KDisconnected => [Tl [Tn 1]] | KData d => [Tl [Tn 3; Tb d]] | KErr | KSend _ => []
  end.
Definition enc_csend (e : cev) : list T := match e with KSend n => [TN n] | _ => [] end.
(* withflag = false: the pending-close flag could not be observed in the tree under test and is left out *)
Definition obs_client (withflag : bool) (h : list cstim) : T :=
  let '(x, os) := crun h in
  Tl ([Tl (flat_map enc_cev os); Tl (flat_map enc_csend os); Tbool x.(conn); Tl (map TN x.(pending));
       Tbool x.(sopen)] ++ (if withflag then [Tbool x.(closeflag)] else [])).

(* poller emission rule: kinds of the stimuli the server receives for one kernel report (0 _read, 1 _write, 2 _disconnect) *)
Definition obs_emit (ein eout ehup : bool) : T :=
  Tl (flat_map (fun i => match i with SRead _ _ => [Tn 0] | SWritable _ _ => [Tn 1] | SDisc _ => [Tn 2] | _ => [] end)
               (pemit 0 ein eout ehup RWould WTrans)).
