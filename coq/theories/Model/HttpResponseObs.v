From Coq Require Import String List ZArith NArith.
From Circ Require Import Lib.Obs Model.HttpResponse.
Import ListNotations.

(* run-length form of long writes, so that the harness can state multi-kilobyte bodies compactly;
   the harness encodes the observed bytes the same way (maximal runs) *)
Fixpoint rle (l : list N) : list (N * N) :=
  match l with
  | [] => []
  | x :: r =>
      match rle r with
      | (y, k) :: t => if N.eqb x y then (y, N.succ k) :: t else (x, 1%N) :: (y, k) :: t
      | [] => [(x, 1%N)]
      end
  end.

Definition Tw (w : list N) : T :=
  if Nat.ltb 1000 (length w)
  then Tl [Tn (-2)%Z; Tlist (fun p => Tl [TN (fst p); TN (snd p)]) (rle w)]
  else Tb w.

Definition repN {A} (n : N) (l : list A) : list A := rep (N.to_nat n) l.

(* write events and close flag of one response, as the harness observes them *)
Definition obs_resp (c : cfg) : T :=
  match respond c with
  | Out ws b => Tl [Tlist Tw ws; Tbool b]
  | Crash => Tl [Tn (-1)%Z]
  end.

(* one connection: the responses to a sequence of requests *)
Definition obs_seq (cs : list cfg) : T := Tlist obs_resp cs.
