From Coq Require Import String List ZArith NArith.
From Circ Require Import Lib.Obs Model.HttpResponse.
Import ListNotations.

(* A write event is stated literally when it is short, otherwise by length and a polynomial checksum, so
   that the generated case files stay small (the harness computes the same function over the observed bytes). *)
Definition cksum (w : list N) : N :=
  fold_left (fun a x => (a * 257 + x + 1) mod 4294967291)%N w 7%N.

Definition Tw (w : list N) : T :=
  if Nat.leb (length w) 64 then Tb w else Tl [Tn (-2)%Z; Tnat (length w); TN (cksum w)].

Definition repN {A} (n : N) (l : list A) : list A := rep (N.to_nat n) l.

(* write events and close flag of one response, as the harness observes them *)
Definition obs_resp (c : cfg) : T :=
  match respond c with
  | Out ws b => Tl [Tlist Tw ws; Tbool b]
  end.

(* one connection: the responses to a sequence of requests *)
Definition obs_seq (cs : list cfg) : T := Tlist obs_resp cs.

(* the model's independent client run on bytes the real server wrote (ties [parse] to http.client) *)
Definition obs_parse (p : bool * list N) : T :=
  match parse (fst p) (snd p) with
  | Some (r, rest) => Tl [TN (p_status r); Tw (p_body r); Tbool (p_close r); Tnat (length rest)]
  | None => Tl []
  end.

Definition obs_case (cs : list cfg) (ps : list (bool * list N)) : T :=
  Tl [obs_seq cs; Tlist obs_parse ps].

(* the same observable with every write spelled out; asked for when a disagreement is reported *)
Definition obs_case_verbose (cs : list cfg) : T :=
  Tlist (fun c => match respond c with
                  | Out ws b => Tl [Tlist Tb ws; Tbool b]
                  end) cs.
