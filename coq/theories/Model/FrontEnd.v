(* Executable model of what circuits.web does to the request path between the parser and the
   `request` event: wrappers.Request.__init__ (base + path -> parse_url -> URL.sanitize) and the
   redirect guard of http.HTTP._on_read.
     url   = 'http://host/' + path                 (the base ends in '/', the path is appended as is)
     _path = urlparse(url).path                    = '/' + path without the params of its last segment
     _path = URL.abspath: collapse '/'-runs, resolve '.' and '..', mark directories
     _path = URL.escape:  quote(unquote(_path))
     guard: path == _path or quote(path) == _path  -> fire request(path) ; else 301 to _path
   urllib.parse.quote / unquote are parameters (Section variables): every theorem holds for
   all functions in their place.  urlparse of a non-ASCII byte string raises (explicit FeError).
   No proofs in this file. *)
From Coq Require Import List NArith Bool.
From Circ Require Import Model.StaticPath.
Import ListNotations.
Open Scope N_scope.

Definition SEMI : N := 59.  (* ';' *)

(* urllib.parse._splitparams: cut at the first ';' that follows the last '/' *)
Fixpoint cut_semi (s : str) : str :=
  match s with
  | [] => []
  | c :: t => if c =? SEMI then [] else c :: cut_semi t
  end.
Definition split_params (url : str) : str :=
  let parts := split_slash url in
  intercalate (removelast parts ++ [cut_semi (last parts [])]).

(* re.sub(rb'\/{2,}', b'/', path) *)
Fixpoint collapse (s : str) : str :=
  match s with
  | [] => []
  | c :: t => if (c =? SL) && starts_slash t then collapse t else c :: collapse t
  end.

(* the loop of URL.abspath; [stack] = unsplit reversed *)
Fixpoint abs_loop (stack : list str) (dir : bool) (parts : list str) : list str * bool :=
  match parts with
  | [] => (stack, dir)
  | p :: r =>
      if is_dotdot p then abs_loop (tl stack) true r          (* unsplit.pop() when there is one *)
      else if negb (is_dot p) then abs_loop (p :: stack) false r
      else abs_loop stack true r
  end.

Definition url_abspath (path : str) : str :=
  let '(stack, dir) := abs_loop [] false (split_slash (collapse path)) in
  intercalate (rev stack ++ (if dir then [[SL]] else [])).

Definition is_ascii (s : str) : bool := forallb (fun c => c <? 128) s.

Inductive fe_outcome :=
| FeDispatch (path : str)      (* request(req, res) is fired with req.path = path *)
| FeRedirect (target : str)    (* 301 to the sanitised path; no request event *)
| FeError.                     (* Request.__init__ raises: no request event *)

Section FrontEnd.
  Variables quote unquote : str -> str.

  (* req.uri._path after sanitize() *)
  Definition sanitized (path : str) : str :=
    quote (unquote (url_abspath (split_params (SL :: path)))).

  Definition canonical (path : str) : bool :=
    str_eqb path (sanitized path) || str_eqb (quote path) (sanitized path).

  Definition frontend (path : str) : fe_outcome :=
    if negb (is_ascii path) then FeError
    else if canonical path then FeDispatch path
    else FeRedirect (sanitized path).

  (* the request-line parser (split on white space, urlsplit, rejection of fragments ...): any function *)
  Variable parse_target : str -> option str.

  (* HTTP front end followed by the Static dispatcher *)
  Variables fexists isfile isdir : str -> bool.
  Variable unq : str -> str.
  Definition http_static (mount : option str) (d : str) (defaults : list str) (dirlisting : bool)
             (path : str) : outcome :=
    match frontend path with
    | FeDispatch p => static_request fexists isfile isdir unq mount d defaults dirlisting p
    | _ => Pass
    end.

  (* from the raw request target *)
  Definition http_static_target (mount : option str) (d : str) (defaults : list str) (dirlisting : bool)
             (target : str) : outcome :=
    match parse_target target with
    | Some p => http_static mount d defaults dirlisting p
    | None => Pass
    end.
End FrontEnd.
