From Coq Require Import List ZArith Arith.
From Circ Require Import Lib.Obs Model.ClassHandlers Model.HandlersObs.
Import ListNotations.

(* for each event name: the sorted function ids of the instance's handlers for it *)
Definition obs_classes (mro : list klass) (events : list nat) : T :=
  Tlist (fun e => Tlist Tnat (sort (handlers_for mro e))) events.
