(* Encoding of KTree runs into Lib/Obs.T for the correspondence check:
   after every op of the executed history the structure of the pool
   [parent; root; children; pending; queue length] per component, and for every flush round of the op
   the dispatched events with the components that received them. *)
From Coq Require Import List ZArith Arith Bool.
From Circ Require Import Lib.Obs Model.KTree.
Import ListNotations.

Definition Tev (e : ev) : T :=
  match e with
  | Probe i => Tl [Tn 0; Tnat i; Tn 0]
  | Registered c p => Tl [Tn 1; Tnat c; Tnat p]
  | Unregistered c p => Tl [Tn 2; Tnat c; Tnat p]
  | PrepUnreg c => Tl [Tn 3; Tnat c; Tn 0]
  | PrepDone c => Tl [Tn 4; Tnat c; Tn 0]
  | Other => Tl [Tn 9; Tn 0; Tn 0]
  end%Z.

Definition snapshot (n : nat) (s : st) : T :=
  Tlist (fun c => Tl [Tnat (par s c); Tnat (rt s c); Tlist Tnat (filter (kid s c) (seq 0 n));
                      Tbool (pend s c); Tnat (length (q s c))]) (seq 0 n).

Definition Tdrec (d : drec) : T := Tpair (Tev (d_ev d)) (Tlist Tnat (d_recv d)).

(* cut the dispatches of one op (oldest first) into its rounds; one dispatch per scheduled event *)
Fixpoint cut (lens : list nat) (l : list drec) : list (list drec) :=
  match lens with
  | [] => []
  | k :: t => firstn k l :: cut t (skipn k l)
  end.

Definition round_lens (o : op) : list nat :=
  match o with
  | OTick _ scheds => map (@length item) scheds
  | OFlush _ sched => [length sched]
  | _ => []
  end.

Definition obs_step (n : nat) (o : op) (s s' : st) : T :=
  let new := rev (firstn (length (disp s') - length (disp s)) (disp s')) in
  Tpair (snapshot n s') (Tlist (Tlist Tdrec) (cut (round_lens o) new)).

Definition code {A} (r : res A) : Z :=
  match r with Ok _ => 1 | PreViolated => 2 | BadSched => 3 | OutOfFuel => 4 | Crash => 5 end%Z.

Fixpoint obs_steps (n : nat) (h : list op) (s : st) (i : nat) (acc : list T) : T :=
  match h with
  | [] => Tl [Tn 1; Tl (rev acc)]
  | o :: t => match step n o s with
              | Ok s' => obs_steps n t s' (S i) (obs_step n o s s' :: acc)
              | r => Tl [Tn 0; Tn (code r); Tnat i]
              end
  end.

Definition obs_run (n : nat) (h : list op) : T := obs_steps n h init 0 [].
