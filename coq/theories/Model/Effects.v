(* Executable model of the completion tracking in circuits/core/manager.py
   (the KEffects layer of DESIGN.md §6 C05), for the REPAIRED code
   (fixes/C05_cancelled_effect.patch, fixes/C05_generator_step_effects.patch):

     Manager._fire          links a new event to _currently_handling when that is tracked
     Manager._dispatcher    cancelled early return (with the repair: still releases the cause),
                            cause/effects initialisation of complete-requesting events, handler
                            loop with stop() and raising handlers, generator registration
     Manager._eventDone     waitingHandlers gate and the cause-chain walk (_effectDone)
     Manager.processTask    one next() of a generator handler, StopIteration branch
                            (with the repair: _currently_handling = event during the step)
     Manager.tick           tasks of a copy of the task set, then one flush batch

   Handlers are scripts (data).  Ghost state (not in the Python code): [gpar] the event whose
   handler really fired an event, [phase] and [trk].  No proofs in this file. *)
From Coq Require Import List ZArith Bool Arith.
Import ListNotations.

(* ---- programs: finite trees of scripted events *)
Inductive ev :=
| Ev (lbl : nat) (compl canc : bool) (hs : list hdl)
with hdl :=
| HP (kids : list ev) (stop raise : bool)      (* plain handler: fires kids, then stop()/raise *)
| HG (steps : list (list ev)).                 (* generator handler: one list per next() *)

Definition ev_lbl (e : ev) := let 'Ev l _ _ _ := e in l.
Definition ev_compl (e : ev) := let 'Ev _ c _ _ := e in c.
Definition ev_canc (e : ev) := let 'Ev _ _ x _ := e in x.
Definition ev_hs (e : ev) := let 'Ev _ _ _ h := e in h.

Inductive kindT := KUser | KCompl (of : nat) | KExc (of : nat).
Inductive phaseT := PQueued | PActive | PFin.

(* log entries carry runtime event ids *)
Inductive entry :=
| LH (e i : nat)          (* plain handler i of event e invoked *)
| LG (e i k : nat)        (* step k of generator handler i of event e *)
| LFC (e : nat)           (* <e>_complete fired *)
| LDC (e : nat)           (* <e>_complete dispatched *)
| LF (e : nat).           (* user event e fired (its ghost parent is gpar e) *)

Record task := { tev : nat; thd : nat; tk : nat; trest : list (list ev) }.

Record st := {
  next : nat;                     (* events are 0 .. next-1, in firing order *)
  spec : nat -> ev;
  kind : nat -> kindT;
  compl : nat -> bool;            (* event.complete (cleared when a cancelled event is skipped) *)
  cause : nat -> option nat;      (* event.cause; None = attribute absent *)
  effects : nat -> Z;             (* event.effects *)
  waiting : nat -> nat;           (* event.waitingHandlers *)
  gpar : nat -> option nat;       (* ghost: the event whose handler fired this one *)
  phase : nat -> phaseT;          (* ghost *)
  trk : nat -> bool;              (* ghost: has ever had a cause *)
  queue : list nat;
  tasks : list task;
  log : list entry;               (* newest first *)
  oof : bool                      (* a fuel-bounded loop of the model ran out of fuel *)
}.

Definition upd {A} (f : nat -> A) (i : nat) (v : A) : nat -> A :=
  fun j => if Nat.eqb j i then v else f j.

Definition dummy : ev := Ev 0 false false [].

Definition init : st :=
  {| next := 0; spec := fun _ => dummy; kind := fun _ => KUser; compl := fun _ => false;
     cause := fun _ => None; effects := fun _ => 0%Z; waiting := fun _ => 0;
     gpar := fun _ => None; phase := fun _ => PQueued; trk := fun _ => false;
     queue := []; tasks := []; log := []; oof := false |}.

(* ---- field setters *)
Definition set_cause_eff (s : st) (c : nat -> option nat) (f : nat -> Z) (t : nat -> bool) : st :=
  {| next := next s; spec := spec s; kind := kind s; compl := compl s; cause := c; effects := f;
     waiting := waiting s; gpar := gpar s; phase := phase s; trk := t; queue := queue s;
     tasks := tasks s; log := log s; oof := oof s |}.
Definition set_phase (s : st) (p : nat -> phaseT) : st :=
  {| next := next s; spec := spec s; kind := kind s; compl := compl s; cause := cause s;
     effects := effects s; waiting := waiting s; gpar := gpar s; phase := p; trk := trk s;
     queue := queue s; tasks := tasks s; log := log s; oof := oof s |}.
Definition set_compl (s : st) (c : nat -> bool) : st :=
  {| next := next s; spec := spec s; kind := kind s; compl := c; cause := cause s;
     effects := effects s; waiting := waiting s; gpar := gpar s; phase := phase s; trk := trk s;
     queue := queue s; tasks := tasks s; log := log s; oof := oof s |}.
Definition set_queue (s : st) (q : list nat) : st :=
  {| next := next s; spec := spec s; kind := kind s; compl := compl s; cause := cause s;
     effects := effects s; waiting := waiting s; gpar := gpar s; phase := phase s; trk := trk s;
     queue := q; tasks := tasks s; log := log s; oof := oof s |}.
Definition set_tasks (s : st) (w : nat -> nat) (t : list task) : st :=
  {| next := next s; spec := spec s; kind := kind s; compl := compl s; cause := cause s;
     effects := effects s; waiting := w; gpar := gpar s; phase := phase s; trk := trk s;
     queue := queue s; tasks := t; log := log s; oof := oof s |}.
Definition add_log (x : entry) (s : st) : st :=
  {| next := next s; spec := spec s; kind := kind s; compl := compl s; cause := cause s;
     effects := effects s; waiting := waiting s; gpar := gpar s; phase := phase s; trk := trk s;
     queue := queue s; tasks := tasks s; log := x :: log s; oof := oof s |}.
Definition set_oof (s : st) : st :=
  {| next := next s; spec := spec s; kind := kind s; compl := compl s; cause := cause s;
     effects := effects s; waiting := waiting s; gpar := gpar s; phase := phase s; trk := trk s;
     queue := queue s; tasks := tasks s; log := log s; oof := true |}.

(* ---- fire *)
(* a new event object enters the queue: Event.__init__ + _EventQueue.append *)
Definition alloc (k : kindT) (sp : ev) (gp : option nat) (s : st) : st :=
  let d := next s in
  {| next := S d; spec := upd (spec s) d sp; kind := upd (kind s) d k;
     compl := upd (compl s) d (ev_compl sp); cause := upd (cause s) d None;
     effects := upd (effects s) d 0%Z; waiting := upd (waiting s) d 0;
     gpar := upd (gpar s) d gp; phase := upd (phase s) d PQueued; trk := upd (trk s) d false;
     queue := queue s ++ [d]; tasks := tasks s; log := log s; oof := oof s |}.

(* _fire, lines "if self._currently_handling is not None and getattr(..., 'cause', None)":
   h = _currently_handling, d = the event being fired *)
Definition link (h d : nat) (s : st) : st :=
  match cause s h with
  | Some _ => set_cause_eff s (upd (cause s) d (Some h))
                              (upd (upd (effects s) d 1%Z) h (effects s h + 1)%Z)
                              (upd (trk s) d true)
  | None => s
  end.

(* fire while _currently_handling = h (None: fired from outside any handler) *)
Definition fire (h : option nat) (k : kindT) (sp : ev) (s : st) : st :=
  let d := next s in
  let s1 := alloc k sp h s in
  match h with Some hh => link hh d s1 | None => s1 end.

Definition fire_user (h : option nat) (sp : ev) (s : st) : st :=
  fire h KUser sp (add_log (LF (next s)) s).

Fixpoint fire_all (h : option nat) (l : list ev) (s : st) : st :=
  match l with
  | [] => s
  | sp :: r => fire_all h r (fire_user h sp s)
  end.

(* ---- _eventDone's cause-chain walk (Manager._effectDone).  The Python loop is `while True`;
   the chain strictly descends in event age, so fuel e+2 suffices (proved); running out sets oof *)
Definition fire_complete (e : nat) (s : st) : st :=
  alloc (KCompl e) dummy None (add_log (LFC e) s).

Fixpoint walk (fuel : nat) (e : nat) (s : st) : st :=
  match fuel with
  | O => set_oof s
  | S f =>
      match cause s e with
      | None => s
      | Some c =>
          let n := (effects s e - 1)%Z in
          let s1 := set_cause_eff s (cause s) (upd (effects s) e n) (trk s) in
          if (0 <? n)%Z then s1
          else
            let s2 := if compl s1 e then fire_complete e s1 else s1 in
            let s3 := set_cause_eff s2 (upd (cause s2) e None) (upd (effects s2) e 0%Z) (trk s2) in
            walk f c s3
      end
  end.

(* the event has passed the waitingHandlers gate of _eventDone *)
Definition finish (e : nat) (s : st) : st :=
  walk (S (S e)) e (set_phase s (upd (phase s) e PFin)).

(* ---- _dispatcher *)
Definition add_task (e i : nat) (steps : list (list ev)) (s : st) : st :=
  set_tasks s (upd (waiting s) e (S (waiting s e)))
            (tasks s ++ [{| tev := e; thd := i; tk := 0; trest := steps |}]).

Fixpoint run_handlers (e i : nat) (hs : list hdl) (s : st) : st :=
  match hs with
  | [] => s
  | HP kids stop raise :: r =>
      let s1 := fire_all (Some e) kids (add_log (LH e i) s) in
      let s2 := if raise then fire (Some e) (KExc e) dummy s1 else s1 in
      if stop then s2 else run_handlers e (S i) r s2
  | HG steps :: r =>
      run_handlers e (S i) r (add_task e i steps s)
  end.

Definition gate (e : nat) (s : st) : st :=
  if Nat.eqb (waiting s e) 0 then finish e s else s.

Definition dispatch (e : nat) (s : st) : st :=
  if ev_canc (spec s e) then
    (* repaired: event.complete = False; self._effectDone(event); return *)
    walk (S (S e)) e (set_phase (set_compl s (upd (compl s) e false)) (upd (phase s) e PFin))
  else
    let s0 := set_phase s (upd (phase s) e PActive) in
    let s1 := if compl s0 e then
                match cause s0 e with
                | None => set_cause_eff s0 (upd (cause s0) e (Some e)) (upd (effects s0) e 1%Z)
                                        (upd (trk s0) e true)
                | Some _ => set_cause_eff s0 (cause s0) (upd (effects s0) e 1%Z) (trk s0)
                end
              else s0 in
    let s2 := match kind s1 e with
              | KUser => run_handlers e 0 (ev_hs (spec s1 e)) s1
              | KCompl x => add_log (LDC x) s1
              | KExc _ => s1
              end in
    gate e s2.

(* ---- processTask: one next() of the task at position p of the task list *)
Fixpoint remove_nth {A} (p : nat) (l : list A) : list A :=
  match l, p with
  | [], _ => []
  | _ :: r, O => r
  | x :: r, S q => x :: remove_nth q r
  end.
Fixpoint replace_nth {A} (p : nat) (v : A) (l : list A) : list A :=
  match l, p with
  | [], _ => []
  | _ :: r, O => v :: r
  | x :: r, S q => x :: replace_nth q v r
  end.

(* StopIteration branch *)
Definition task_stop (p : nat) (e : nat) (s : st) : st :=
  let s1 := set_tasks s (upd (waiting s) e (pred (waiting s e))) (remove_nth p (tasks s)) in
  if Nat.eqb (waiting s1 e) 0 then finish e s1 else s1.

Definition step_task (p : nat) (s : st) : st :=
  match nth_error (tasks s) p with
  | None => s
  | Some t =>
      let e := tev t in
      match trest t with
      | [] => task_stop p e s
      | kids :: rest =>
          let s1 := fire_all (Some e) kids (add_log (LG e (thd t) (tk t)) s) in
          match rest with
          | [] => task_stop p e s1
          | _ => set_tasks s1 (waiting s1)
                   (replace_nth p {| tev := e; thd := thd t; tk := S (tk t); trest := rest |} (tasks s1))
          end
      end
  end.

(* ---- the transition system the theorems quantify over *)
Inductive label := LDisp | LTask (p : nat).

Definition step (l : label) (s : st) : st :=
  match l with
  | LDisp => match queue s with
             | [] => s
             | e :: q => dispatch e (set_queue s q)
             end
  | LTask p => step_task p s
  end.

Definition exec (ls : list label) (s : st) : st := fold_left (fun s l => step l s) ls s.

Definition start (roots : list ev) : st := fire_all None roots init.

(* ---- tick / run: the particular schedule of Manager.tick, task order given per tick *)
Fixpoint find_task (l i : nat) (s : st) (ts : list task) (p : nat) : option nat :=
  match ts with
  | [] => None
  | t :: r => if Nat.eqb (ev_lbl (spec s (tev t))) l && Nat.eqb (thd t) i then Some p
              else find_task l i s r (S p)
  end.

Fixpoint step_named (keys : list (nat * nat)) (s : st) : st :=
  match keys with
  | [] => s
  | (l, i) :: r =>
      step_named r (match find_task l i s (tasks s) 0 with
                    | Some p => step (LTask p) s
                    | None => s
                    end)
  end.

Fixpoint dispatch_n (n : nat) (s : st) : st :=
  match n with
  | O => s
  | S k => dispatch_n k (step LDisp s)
  end.

Definition tick (keys : list (nat * nat)) (s : st) : st :=
  let s1 := step_named keys s in dispatch_n (length (queue s1)) s1.

Definition quiet (s : st) : bool :=
  match queue s, tasks s with [], [] => true | _, _ => false end.

Fixpoint run (fuel : nat) (sched : list (list (nat * nat))) (s : st) : st :=
  match fuel with
  | O => if quiet s then s else set_oof s
  | S f => if quiet s then s
           else run f (tl sched) (tick (hd [] sched) s)
  end.

(* ---- specification vocabulary used by the theorem statements *)

(* 1 while the event itself has not passed its done gate *)
Definition selfc (ph : nat -> phaseT) (e : nat) : nat := match ph e with PFin => 0 | _ => 1 end.

(* d is an event, different from e, whose cause attribute points to e *)
Definition childb (ca : nat -> option nat) (e d : nat) : bool :=
  negb (Nat.eqb d e) && match ca d with Some c => Nat.eqb c e | None => false end.

(* number of i < n with f i *)
Fixpoint cnt (f : nat -> bool) (n : nat) : nat :=
  match n with O => 0 | S k => cnt f k + (if f k then 1 else 0) end.

(* d belongs to the causal closure of a: reflexive-transitive "was fired by a handler of" *)
Inductive gdesc (g : nat -> option nat) (a : nat) : nat -> Prop :=
| gd_refl : gdesc g a a
| gd_step : forall d h, g d = Some h -> gdesc g a h -> gdesc g a d.

(* log entry x records handler activity (or the firing) of event d *)
Definition hentry (x : entry) (d : nat) : Prop :=
  match x with LH e _ => e = d | LG e _ _ => e = d | LF e => e = d | _ => False end.

Fixpoint fc_count (e : nat) (l : list entry) : nat :=
  match l with
  | [] => 0
  | LFC e' :: r => (if Nat.eqb e' e then 1 else 0) + fc_count e r
  | _ :: r => fc_count e r
  end.

Definition reachable (s : st) : Prop := exists roots ls, s = exec ls (start roots).
