(* Correspondence between a run of the real loop and the timer model (C09), evaluated inside Coq.

   [k_agree] gets the program, the recorded schedules and what the implementation was observed to do (its history
   as [lrec]s, and per timer whether it is alive and its expiry at the end) and answers [Tn 1] when
   (a) exactly what C09 constrains: the implementation's history is accepted by the specification monitor
       (firing times, nobody fires twice, due timers fire, wait bounds, datetime deadlines) and the monitor's
       book-keeping agrees with the fields of the real timers at the end (alive, expiry);
   (b) tolerantly, the rest of the loop skeleton: the implementation's history, without the iterations in which
       nothing fired and nobody waited, extends what the model has done after n/2 ticks and is extended by what the
       model has done after 2n ticks (the implementation ran n ticks).  How many ticks a removal or a hand-over
       takes is therefore not compared, only bounded; the TIMEOUT constant is read from the implementation.
   Any other answer is a diagnostic. *)
From Coq Require Import List ZArith Bool.
From Circ Require Import Lib.Obs Model.Timers.
Import ListNotations.
Open Scope Z_scope.

(* a TIMEOUT that happens to lie on the grid is the same budget as that grid value *)
Definition tl_eqb (num den : Z) (a b : tlv) : bool :=
  match a, b with
  | Inf, Inf => true | Fin x, Fin y => x =? y | Tmo, Tmo => true
  | Fin x, Tmo => x * den =? num | Tmo, Fin x => x * den =? num
  | _, _ => false
  end.
Definition opt_eqb {A} (f : A -> A -> bool) (a b : option A) : bool :=
  match a, b with None, None => true | Some x, Some y => f x y | _, _ => false end.
Fixpoint nats_eqb (l m : list nat) : bool :=
  match l, m with [], [] => true | x :: l', y :: m' => Nat.eqb x y && nats_eqb l' m' | _, _ => false end.

Definition lrec_eqb (num den : Z) (a b : lrec) : bool :=
  match a, b with
  | LCreate t iv p dl, LCreate t' iv' p' dl' => (t =? t') && (iv =? iv') && Bool.eqb p p' && opt_eqb Z.eqb dl dl'
  | LReset i t niv, LReset i' t' niv' => Nat.eqb i i' && (t =? t') && opt_eqb Z.eqb niv niv'
  | LUnreq i t, LUnreq i' t' => Nat.eqb i i' && (t =? t')
  | LIter t f w, LIter t' f' w' => (t =? t') && nats_eqb f f' && opt_eqb (tl_eqb num den) w w'
  | LDisp i t, LDisp i' t' => Nat.eqb i i' && (t =? t')
  | LRereg i t, LRereg i' t' => Nat.eqb i i' && (t =? t')
  | _, _ => false
  end.

Definition is_noop (r : lrec) : bool := match r with LIter _ [] None => true | _ => false end.
Definition proj (h : list lrec) : list lrec := filter (fun r => negb (is_noop r)) h.

(* length of the common prefix, and whether the first list is exhausted by it *)
Fixpoint common (num den : Z) (a b : list lrec) (k : nat) : nat * bool :=
  match a, b with
  | [], _ => (k, true)
  | _ :: _, [] => (k, false)
  | x :: a', y :: b' => if lrec_eqb num den x y then common num den a' b' (S k) else (k, false)
  end.

Fixpoint finals_ok (ms : list stimer) (fin : list (bool * Z)) : bool :=
  match ms, fin with
  | [], [] => true
  | x :: ms', (al, ex) :: fin' => Bool.eqb (s_alive x) al && (s_t0 x + s_iv x =? ex) && finals_ok ms' fin'
  | _, _ => false
  end.

Definition k_agree (p : prog) (t0 : Z) (sts : list (Z * bool * nat)) (sch tsch : list nat) (n : nat)
                   (hi : list lrec) (fin : list (bool * Z)) : T :=
  match mon_run (p_tmo_num p) (p_tmo_den p) [] hi with
  | None => Tl [Tn 2]                                  (* the implementation's history violates the specification *)
  | Some ms =>
      if negb (finals_ok ms fin) then Tl [Tn 3]        (* the timers' fields disagree with their history *)
      else
        let lo := proj (history (fst (run p (init t0 sts sch tsch) (Nat.div2 n)))) in
        let hi' := proj (history (fst (run p (init t0 sts sch tsch) (n + n)))) in
        let pi := proj hi in
        let '(k1, ok1) := common (p_tmo_num p) (p_tmo_den p) lo pi 0 in
        if negb ok1 then Tl [Tn 4; Tnat k1]            (* diverges from / lags behind the model (index of the record) *)
        else let '(k2, ok2) := common (p_tmo_num p) (p_tmo_den p) pi hi' 0 in
             if negb ok2 then Tl [Tn 5; Tnat k2]       (* diverges from / runs ahead of the model *)
             else Tn 1
  end.

(* the plain observable of a model run (used for diagnostics) *)
Definition obs_tl (w : option tlv) : T :=
  match w with
  | None => Tl []
  | Some Inf => Tl [Tn (-1)]
  | Some (Fin d) => Tl [Tn d]
  | Some Tmo => Tl [Tn (-2)]
  end.

Definition obs_rec (r : lrec) : T :=
  match r with
  | LCreate t iv p dl => Tl [Tn 1; Tn t; Tn iv; Tbool p; Tn (match dl with Some d => d | None => -1 end)]
  | LReset i t niv => Tl [Tn 2; Tnat i; Tn t; Topt Tn niv]
  | LUnreq i t => Tl [Tn 3; Tnat i; Tn t]
  | LIter t f w => Tl [Tn 4; Tn t; Tlist Tnat f; obs_tl w]
  | LDisp i t => Tl [Tn 5; Tnat i; Tn t]
  | LRereg i t => Tl [Tn 6; Tnat i; Tn t]
  end.

Definition obs_run (p : prog) (t0 : Z) (sts : list (Z * bool * nat)) (sch tsch : list nat) (n : nat) : T :=
  let '(s, m) := run p (init t0 sts sch tsch) n in
  Tl [Tlist obs_rec (proj (history s)); Tn (now s); Tnat m; Tbool (halted s)].
