(* Encoding of a run of the timer model into Lib/Obs.T for the correspondence check (C09). *)
From Coq Require Import List ZArith Bool.
From Circ Require Import Lib.Obs Model.Timers.
Import ListNotations.
Open Scope Z_scope.

Definition obs_tl (w : option tlv) : T :=
  match w with
  | None => Tl []
  | Some Inf => Tl [Tn (-1)]
  | Some (Fin d) => Tl [Tn d]
  | Some Tmo => Tl [Tn (-2)]
  end.

Definition obs_rec (r : lrec) : T :=
  match r with
  | LCreate t iv p dl => Tl [Tn 1; Tn t; Tn iv; Tbool p; Tn (match dl with Some d => d | None => -1 end)]
  | LReset i t niv => Tl [Tn 2; Tnat i; Tn t; Topt Tn niv]
  | LUnreq i t => Tl [Tn 3; Tnat i; Tn t]
  | LIter t _ w => Tl [Tn 4; Tn t; obs_tl w]
  | LDisp i t => Tl [Tn 5; Tnat i; Tn t]
  end.

Definition obs_timer (tm : timer) : T := Tl [Tbool (t_reg tm); Tbool (t_pend tm); Tn (t_exp tm)].

Definition obs_run (p : prog) (t0 : Z) (sts : list (Z * bool * nat)) (sch : list nat) (n : nat) : T :=
  let '(s, m) := run p (init t0 sts sch) n in
  Tl [Tlist obs_rec (history s); Tlist obs_timer (timers s); Tn (now s); Tnat m; Tbool (halted s)].
