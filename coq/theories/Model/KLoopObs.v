(* C08 — encoding of the model's trace into Lib/Obs.T for the correspondence check.
   The ghost entries (TFire) are not observable on the implementation and are dropped. *)
From Coq Require Import List ZArith NArith Bool.
From Circ Require Import Lib.Obs Model.KLoop.
Import ListNotations.
Open Scope Z_scope.

Definition enc_k (k : evk) : T :=
  match k with
  | KStarted => Tn 0 | KStopped => Tn 1 | KGE => Tn 2 | KExc => Tn 3
  | KUser n => Tn (10 + Z.of_nat n)
  end.

Definition enc_c (c : option Z) : T := Topt Tn c.

Definition enc_tr (x : tr) : list T :=
  match x with
  | TFire _ => []
  | TDisp k => [Tl [Tn 1; enc_k k]]
  | TH k i => [Tl [Tn 2; enc_k k; Tnat i]]
  | TC k i g => [Tl [Tn 3; enc_k k; Tnat i; Tnat g]]
  | TG g j => [Tl [Tn 4; Tnat g; Tnat j]]
  | TReq c => [Tl [Tn 5; enc_c c]]
  | TT2 c => [Tl [Tn 6; Tn c]]
  | TWait b => [Tl [Tn 7; Tbool b]]
  | TTick => [Tl [Tn 8]]
  | TOut o => [Tl [Tn 9; Topt enc_c o]]
  | TLen n => [Tl [Tn 10; Tnat n]]
  | TLate => [Tl [Tn 11]]
  | TEarly => [Tl [Tn 12]]
  | TChildStop c => [Tl [Tn 13; enc_c c]]
  end.

Definition enc_trace (l : list tr) : T := Tl (flat_map enc_tr l).

(* the observable of one case: the trace of the top-level script, or [-1] when the model runs out of fuel *)
Definition obs_case (hs : list (evk * list body)) (sc : list (list nat)) (xs : list xact)
                    (ms : list (option (option Z))) (os : list op) : T :=
  match exec_ops false false (prog_of hs) 3 400 os (set_mid ms (init sc xs)) with
  | None => Tl [Tn (-1)]
  | Some s => if bad s then Tl [Tn (-2)] else enc_trace (trace s)
  end.
