(* Executable model of the write path of a circuits stream endpoint:
     circuits/net/sockets.py  Server.write / _on_write / _write / close / _close   (one accepted connection:
                              _buffers[sock], sock in _closeq, sock in _clients, poller writer interest)
                              Client.write / __on_write / _write / close / _close  (_buffer, _closeflag, _connected)
     circuits/io/file.py      File.write / __on_write / _write / close / _close    (_buffer, _closeflag, _fd.closed)
   The three endpoints run the same algorithm; they differ in which errno values the except clause of _write
   treats how ([policy]).  [fixed k] is the code with the three proposed C11 patches applied, [legacy k] the
   code before them (Client and File dropped the popped payload on a transient refusal; Client did not close on
   a fatal errno other than EPIPE/ENOTCONN).
   Bytes are N.  No proofs in this file. *)
From Coq Require Import List NArith Bool Arith.
Import ListNotations.

Inductive kind := Server | Client | File.

(* errno numbers (Linux; the harness asserts that Python's errno module agrees) *)
Definition EINTR : N := 4.
Definition EAGAIN : N := 11.        (* = EWOULDBLOCK *)
Definition EPIPE : N := 32.
Definition ENOBUFS : N := 105.
Definition ENOTCONN : N := 107.

(* the errno sets of the except clause *)
Definition transient (e : N) : bool := N.eqb e EINTR || N.eqb e EAGAIN || N.eqb e ENOBUFS.
Definition pipe_like (e : N) : bool := N.eqb e EPIPE || N.eqb e ENOTCONN.

Record policy := {
  requeue : N -> bool;        (* except clause: push the popped payload back to the front *)
  quiet : N -> bool;          (* close without an error event (Client: EPIPE, ENOTCONN) *)
  ignore : N -> bool;         (* legacy only: drop the payload and carry on (with or without an error event) *)
  ignore_err : N -> bool      (* ... whether that branch fires an error event *)
}.

Definition fixed (k : kind) : policy :=
  {| requeue := transient;
     quiet := match k with Client => pipe_like | _ => fun _ => false end;
     ignore := fun _ => false;
     ignore_err := fun _ => false |}.

Definition legacy (k : kind) : policy :=
  match k with
  | Server => fixed Server
  | Client => {| requeue := fun _ => false; quiet := pipe_like;
                 ignore := fun e => negb (pipe_like e); ignore_err := fun _ => true |}
  | File => {| requeue := fun _ => false; quiet := fun _ => false;
               ignore := fun e => N.eqb e EAGAIN || N.eqb e EINTR; ignore_err := fun _ => false |}
  end.

(* what the OS answers to one send(): accepts up to k bytes, or raises errno e *)
Inductive outcome := Accept (k : N) | Refuse (e : N).

(* what the application / the poller does *)
Inductive op :=
| Write (d : list N)      (* a write event with payload d *)
| Close                   (* a close event *)
| Tick (o : outcome).     (* one poller iteration; the OS would answer a send() with o *)

(* what can be seen at the OS boundary and on the event bus *)
Inductive ev :=
| Send (d : list N) (n : nat)      (* send(d) returned n *)
| SendErr (d : list N) (e : N)     (* send(d) raised errno e *)
| SockClose                        (* shutdown()/close() of the descriptor *)
| EvError                          (* an error event *)
| EvDisc.                          (* disconnect / disconnected / closed event *)

Record ostate := {
  buf : list (list N);      (* _buffers[sock] / _buffer: unsent payloads, oldest first *)
  closereq : bool;          (* sock in _closeq / _closeflag *)
  writing : bool            (* poller.isWriting(sock) *)
}.

Inductive state := Open (s : ostate) | Closed.

Definition init : state := Open {| buf := []; closereq := false; writing := false |}.

(* _close(): discard from the poller, drop the buffer, shutdown+close the descriptor, fire the event *)
Definition closing : list ev := [SockClose; EvDisc].

(* the second half of _on_write:
     if not buffer:  if close requested: _close()   elif isWriting: removeWriter *)
Definition after_write (s : ostate) (evs : list ev) : state * list ev :=
  match buf s with
  | [] => if closereq s then (Closed, evs ++ closing)
          else (Open {| buf := []; closereq := false; writing := false |}, evs)
  | _ :: _ => (Open s, evs)
  end.

Definition set_buf (s : ostate) (b : list (list N)) : ostate :=
  {| buf := b; closereq := closereq s; writing := writing s |}.

(* one `_write(sock)` event, fired by the poller only while the endpoint has writer interest *)
Definition tick (p : policy) (o : outcome) (s : ostate) : state * list ev :=
  if negb (writing s) then (Open s, []) else
  match buf s with
  | [] => after_write s []
  | d :: rest =>
      match o with
      | Accept k =>
          let n := N.to_nat (N.min k (N.of_nat (length d))) in
          let b := if n <? length d then skipn n d :: rest else rest in
          after_write (set_buf s b) [Send d n]
      | Refuse e =>
          if requeue p e then after_write (set_buf s (d :: rest)) [SendErr d e]
          else if quiet p e then (Closed, SendErr d e :: closing)
          else if ignore p e then
            after_write (set_buf s rest) (SendErr d e :: if ignore_err p e then [EvError] else [])
          else (Closed, SendErr d e :: EvError :: closing)
      end
  end.

Definition step (p : policy) (st : state) (o : op) : state * list ev :=
  match st with
  | Closed => (Closed, [])      (* the model stops at the close; see notes/C11.md *)
  | Open s =>
      match o with
      | Write d => (Open {| buf := buf s ++ [d]; closereq := closereq s; writing := true |}, [])
      | Close => match buf s with
                 | [] => (Closed, closing)
                 | _ :: _ => (Open {| buf := buf s; closereq := true; writing := writing s |}, [])
                 end
      | Tick oc => tick p oc s
      end
  end.

Fixpoint run (p : policy) (st : state) (ops : list op) : state * list ev :=
  match ops with
  | [] => (st, [])
  | o :: r => let '(st1, e1) := step p st o in
              let '(st2, e2) := run p st1 r in (st2, e1 ++ e2)
  end.

(* ---- vocabulary of the specification *)

(* the bytes the OS accepted, in the order it accepted them *)
Fixpoint accepted (evs : list ev) : list N :=
  match evs with
  | [] => []
  | Send d n :: r => firstn n d ++ accepted r
  | _ :: r => accepted r
  end.

(* the payloads passed to write events, in order *)
Fixpoint payloads (ops : list op) : list (list N) :=
  match ops with
  | [] => []
  | Write d :: r => d :: payloads r
  | _ :: r => payloads r
  end.

Definition written (ops : list op) : list N := concat (payloads ops).

Definition is_send (e : ev) : bool :=
  match e with Send _ _ | SendErr _ _ => true | _ => false end.

(* a refusal that the endpoint does not survive *)
Definition fatal_ev (e : ev) : bool :=
  match e with SendErr _ x => negb (transient x) | _ => false end.

Definition signalled (evs : list ev) : bool :=
  existsb (fun e => match e with EvError | EvDisc => true | _ => false end) evs.

Definition sock_closed (evs : list ev) : bool :=
  existsb (fun e => match e with SockClose => true | _ => false end) evs.
