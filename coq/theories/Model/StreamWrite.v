(* Executable model of the write path of a circuits stream endpoint:
     circuits/net/sockets.py  Server.write / _on_write / _write / close / _close   (one accepted connection:
                              _buffers[sock], sock in _closeq, sock in _clients, poller writer interest)
                              Client.write / __on_write / _write / close / _close  (_buffer, _closeflag, _connected)
     circuits/io/file.py      File.write / __on_write / _write / close / _close    (_buffer, _closeflag, _fd.closed)
   The three endpoints run the same algorithm; they differ in which errno values the except clause of _write
   treats how ([policy]).  [fixed k] is the code with the three proposed C11 patches applied, [legacy k] the
   code before them (Client and File dropped the popped payload on a transient refusal; Client did not close on
   a fatal errno other than EPIPE/ENOTCONN; all three kept state for writes and closes arriving after the
   descriptor was closed).
   The second half of the file is the Server with its real tables (_clients, _buffers, _closeq, the poller's
   writer list) for any number of connections.
   Bytes are N.  No proofs in this file. *)
From Coq Require Import List NArith Bool Arith.
Import ListNotations.

Inductive kind := Server | Client | File.

(* errno numbers (Linux; the harness asserts that Python's errno module agrees) *)
Definition EINTR : N := 4.
Definition EAGAIN : N := 11.        (* = EWOULDBLOCK *)
Definition EPIPE : N := 32.
Definition ENOBUFS : N := 105.
Definition ENOTCONN : N := 107.

(* the errno sets of the except clause *)
Definition transient (e : N) : bool := N.eqb e EINTR || N.eqb e EAGAIN || N.eqb e ENOBUFS.
Definition pipe_like (e : N) : bool := N.eqb e EPIPE || N.eqb e ENOTCONN.

Record policy := {
  requeue : N -> bool;        (* except clause: push the popped payload back to the front *)
  quiet : N -> bool;          (* close without an error event (Client: EPIPE, ENOTCONN) *)
  ignore : N -> bool;         (* legacy only: drop the payload and carry on (with or without an error event) *)
  ignore_err : N -> bool;     (* ... whether that branch fires an error event *)
  late_write_noop : bool;     (* write on a closed endpoint returns at once (Server: sock not in _clients;
                                 Client: _sock.fileno() < 0; File: _fd closed) *)
  closed_guard : bool         (* Server only: close(sock) and _on_write(sock) return at once for a socket that
                                 is not in _clients *)
}.

Definition fixed (k : kind) : policy :=
  {| requeue := transient;
     quiet := match k with Client => pipe_like | _ => fun _ => false end;
     ignore := fun _ => false;
     ignore_err := fun _ => false;
     late_write_noop := true;
     closed_guard := match k with Server => true | _ => false end |}.

Definition legacy (k : kind) : policy :=
  match k with
  | Server => {| requeue := transient; quiet := fun _ => false; ignore := fun _ => false;
                 ignore_err := fun _ => false; late_write_noop := false; closed_guard := false |}
  | Client => {| requeue := fun _ => false; quiet := pipe_like;
                 ignore := fun e => negb (pipe_like e); ignore_err := fun _ => true;
                 late_write_noop := false; closed_guard := false |}
  | File => {| requeue := fun _ => false; quiet := fun _ => false;
               ignore := fun e => N.eqb e EAGAIN || N.eqb e EINTR; ignore_err := fun _ => false;
               late_write_noop := false; closed_guard := false |}
  end.

(* what the OS answers to one send(): accepts up to k bytes, or raises errno e *)
Inductive outcome := Accept (k : N) | Refuse (e : N).

(* what the application / the poller does *)
Inductive op :=
| Write (d : list N)      (* a write event with payload d *)
| Close                   (* a close event *)
| Tick (o : outcome).     (* one poller iteration; the OS would answer a send() with o *)

(* what can be seen at the OS boundary and on the event bus *)
Inductive ev :=
| Send (d : list N) (n : nat)      (* send(d) returned n *)
| SendErr (d : list N) (e : N)     (* send(d) raised errno e *)
| SockClose                        (* shutdown()/close() of the descriptor *)
| EvError                          (* an error event *)
| EvDisc                           (* disconnect / disconnected / closed event *)
| Unmodelled.                      (* a `_write` event for a closed endpoint that still has writer interest: what the
                                      code does then (EBADF / ValueError paths) is not transcribed; the theorems show
                                      that the patched code never gets there *)

Record ostate := {
  buf : list (list N);      (* _buffers[sock] / _buffer: unsent payloads, oldest first *)
  closereq : bool;          (* sock in _closeq / _closeflag *)
  writing : bool            (* poller.isWriting(sock) *)
}.

(* a closed endpoint keeps its tables: the code could (and before the repairs did) put things into them *)
Inductive state := Open (s : ostate) | Closed (s : ostate).

Definition empty : ostate := {| buf := []; closereq := false; writing := false |}.
Definition init : state := Open empty.

(* _close(): discard from the poller, drop the buffer, shutdown+close the descriptor, fire the event *)
Definition closing : list ev := [SockClose; EvDisc].

(* the second half of _on_write:
     if not buffer:  if close requested: _close()   elif isWriting: removeWriter *)
Definition after_write (s : ostate) (evs : list ev) : state * list ev :=
  match buf s with
  | [] => if closereq s then (Closed empty, evs ++ closing)
          else (Open empty, evs)
  | _ :: _ => (Open s, evs)
  end.

Definition set_buf (s : ostate) (b : list (list N)) : ostate :=
  {| buf := b; closereq := closereq s; writing := writing s |}.

(* one `_write(sock)` event, fired by the poller only while the endpoint has writer interest *)
Definition tick (p : policy) (o : outcome) (s : ostate) : state * list ev :=
  if negb (writing s) then (Open s, []) else
  match buf s with
  | [] => after_write s []
  | d :: rest =>
      match o with
      | Accept k =>
          let n := N.to_nat (N.min k (N.of_nat (length d))) in
          let b := if n <? length d then skipn n d :: rest else rest in
          after_write (set_buf s b) [Send d n]
      | Refuse e =>
          if requeue p e then after_write (set_buf s (d :: rest)) [SendErr d e]
          else if quiet p e then (Closed empty, SendErr d e :: closing)
          else if ignore p e then
            after_write (set_buf s rest) (SendErr d e :: if ignore_err p e then [EvError] else [])
          else (Closed empty, SendErr d e :: EvError :: closing)
      end
  end.

Definition step (p : policy) (st : state) (o : op) : state * list ev :=
  match st with
  | Closed s =>
      (* after _close(): Server.write/close/_on_write look the socket up in _clients; Client.write asks
         _sock.fileno(), Client.close / File.close look at the buffer and call _close(), which returns at once;
         File.write asks _fd.closed *)
      match o with
      | Write d =>
          if late_write_noop p then (Closed s, [])
          else (Closed {| buf := buf s ++ [d]; closereq := closereq s; writing := true |}, [])
      | Close =>
          if closed_guard p then (Closed s, [])
          else match buf s with
               | [] => (Closed s, [])
               | _ :: _ => (Closed {| buf := buf s; closereq := true; writing := writing s |}, [])
               end
      | Tick _ =>
          if negb (writing s) then (Closed s, [])       (* the poller has nothing registered *)
          else if closed_guard p then (Closed s, [])
          else (Closed s, [Unmodelled])
      end
  | Open s =>
      match o with
      | Write d => (Open {| buf := buf s ++ [d]; closereq := closereq s; writing := true |}, [])
      | Close => match buf s with
                 | [] => (Closed empty, closing)
                 | _ :: _ => (Open {| buf := buf s; closereq := true; writing := writing s |}, [])
                 end
      | Tick oc => tick p oc s
      end
  end.

Fixpoint run (p : policy) (st : state) (ops : list op) : state * list ev :=
  match ops with
  | [] => (st, [])
  | o :: r => let '(st1, e1) := step p st o in
              let '(st2, e2) := run p st1 r in (st2, e1 ++ e2)
  end.

(* ---- vocabulary of the specification *)

(* the bytes the OS accepted, in the order it accepted them *)
Fixpoint accepted (evs : list ev) : list N :=
  match evs with
  | [] => []
  | Send d n :: r => firstn n d ++ accepted r
  | _ :: r => accepted r
  end.

(* the payloads passed to write events, in order *)
Fixpoint payloads (ops : list op) : list (list N) :=
  match ops with
  | [] => []
  | Write d :: r => d :: payloads r
  | _ :: r => payloads r
  end.

Definition written (ops : list op) : list N := concat (payloads ops).

Definition is_send (e : ev) : bool :=
  match e with Send _ _ | SendErr _ _ => true | _ => false end.

(* a refusal that the endpoint does not survive *)
Definition fatal_ev (e : ev) : bool :=
  match e with SendErr _ x => negb (transient x) | _ => false end.

Definition signalled (evs : list ev) : bool :=
  existsb (fun e => match e with EvError | EvDisc => true | _ => false end) evs.

Definition sock_closed (evs : list ev) : bool :=
  existsb (fun e => match e with SockClose => true | _ => false end) evs.

(* ================================================================================================
   The Server with its real tables, any number of connections (sockets are nat ids).
     _clients : list        membership decides whether a socket is connected
     _buffers : dict        socket -> deque of unsent payloads (a defaultdict: a missing key reads as empty)
     _closeq  : list        sockets to close once drained
     writers  : list        the poller's _write list
   Transcribed from circuits/net/sockets.py (HEAD with the C11 and C12 repairs): Server.write, close(sock),
   close() [all], _on_write, _write, _close.  The listening socket is not part of the model. *)

Definition mem (t : nat) (l : list nat) : bool := existsb (Nat.eqb t) l.

(* list.remove(x): the first occurrence *)
Fixpoint remove1 (t : nat) (l : list nat) : list nat :=
  match l with
  | [] => []
  | x :: r => if Nat.eqb t x then r else x :: remove1 t r
  end.

Definition add1 (t : nat) (l : list nat) : list nat := if mem t l then l else l ++ [t].

Definition dict := list (nat * list (list N)).

Fixpoint dget (t : nat) (b : dict) : list (list N) :=      (* defaultdict read; missing = empty deque *)
  match b with
  | [] => []
  | (x, v) :: r => if Nat.eqb t x then v else dget t r
  end.

Fixpoint dset (t : nat) (v : list (list N)) (b : dict) : dict :=
  match b with
  | [] => [(t, v)]
  | (x, w) :: r => if Nat.eqb t x then (t, v) :: r else (x, w) :: dset t v r
  end.

Definition ddel (t : nat) (b : dict) : dict := filter (fun e => negb (Nat.eqb t (fst e))) b.

Record srv := {
  clients : list nat;
  buffers : dict;
  closeq : list nat;
  writers : list nat
}.

Definition with_buffers (m : srv) (b : dict) : srv :=
  {| clients := clients m; buffers := b; closeq := closeq m; writers := writers m |}.

(* Server._close(sock) *)
Definition s_close1 (m : srv) (t : nat) : srv * list ev :=
  if mem t (clients m) then
    ({| clients := remove1 t (clients m); buffers := ddel t (buffers m);
        closeq := remove1 t (closeq m); writers := remove1 t (writers m) |}, closing)
  else (m, []).

(* Server.write(sock, data) *)
Definition s_write (m : srv) (t : nat) (d : list N) : srv * list ev :=
  if mem t (clients m) then
    ({| clients := clients m; buffers := dset t (dget t (buffers m) ++ [d]) (buffers m);
        closeq := closeq m; writers := add1 t (writers m) |}, [])
  else (m, []).

(* Server.close(sock): one target of the loop *)
Definition s_close (m : srv) (t : nat) : srv * list ev :=
  if mem t (clients m) then
    match dget t (buffers m) with
    | [] => s_close1 m t
    | _ :: _ => ({| clients := clients m; buffers := buffers m; closeq := add1 t (closeq m);
                    writers := writers m |}, [])
    end
  else (m, []).

(* second half of Server._on_write *)
Definition s_after (m : srv) (t : nat) (evs : list ev) : srv * list ev :=
  match dget t (buffers m) with
  | [] => if mem t (closeq m) then
            let '(m1, e1) := s_close1 {| clients := clients m; buffers := buffers m;
                                        closeq := remove1 t (closeq m); writers := writers m |} t in
            (m1, evs ++ e1)
          else ({| clients := clients m; buffers := buffers m; closeq := closeq m;
                   writers := remove1 t (writers m) |}, evs)
  | _ :: _ => (m, evs)
  end.

(* one poller iteration for socket t: `_write(t)` is fired iff t has writer interest *)
Definition s_tick (m : srv) (t : nat) (o : outcome) : srv * list ev :=
  if negb (mem t (writers m)) then (m, []) else
  if negb (mem t (clients m)) then (m, []) else
  match dget t (buffers m) with
  | [] => s_after m t []
  | d :: rest =>
      match o with
      | Accept k =>
          let n := N.to_nat (N.min k (N.of_nat (length d))) in
          let b := if n <? length d then skipn n d :: rest else rest in
          s_after (with_buffers m (dset t b (buffers m))) t [Send d n]
      | Refuse e =>
          if transient e then s_after (with_buffers m (dset t (d :: rest) (buffers m))) t [SendErr d e]
          else let '(m1, e1) := s_close1 (with_buffers m (dset t rest (buffers m))) t in
               (m1, SendErr d e :: EvError :: e1)      (* then: `if sock not in self._clients: return` *)
      end
  end.

Inductive mop :=
| On (t : nat) (o : op)       (* write(t, d) / close(t) / poller iteration for t *)
| CloseAll.                   (* close(): every connection, in _clients order *)

Definition tag (t : nat) (evs : list ev) : list (nat * ev) := map (pair t) evs.

Fixpoint s_close_list (m : srv) (l : list nat) : srv * list (nat * ev) :=
  match l with
  | [] => (m, [])
  | t :: r => let '(m1, e1) := s_close m t in
              let '(m2, e2) := s_close_list m1 r in (m2, tag t e1 ++ e2)
  end.

Definition mstep (m : srv) (o : mop) : srv * list (nat * ev) :=
  match o with
  | On t (Write d) => let '(m1, e) := s_write m t d in (m1, tag t e)
  | On t Close => let '(m1, e) := s_close m t in (m1, tag t e)
  | On t (Tick oc) => let '(m1, e) := s_tick m t oc in (m1, tag t e)
  | CloseAll => s_close_list m (clients m)
  end.

Fixpoint mrun (m : srv) (ops : list mop) : srv * list (nat * ev) :=
  match ops with
  | [] => (m, [])
  | o :: r => let '(m1, e1) := mstep m o in
              let '(m2, e2) := mrun m1 r in (m2, e1 ++ e2)
  end.

(* a server that has accepted the connections l and done nothing else *)
Definition fresh (l : list nat) : srv := {| clients := l; buffers := []; closeq := []; writers := [] |}.

(* what the tables say about one socket: the per-connection state of the first half of this file *)
Definition view (m : srv) (s : nat) : state :=
  let o := {| buf := dget s (buffers m); closereq := mem s (closeq m); writing := mem s (writers m) |} in
  if mem s (clients m) then Open o else Closed o.

(* the operations and events that concern socket s *)
Fixpoint proj (s : nat) (ops : list mop) : list op :=
  match ops with
  | [] => []
  | On t o :: r => if Nat.eqb t s then o :: proj s r else proj s r
  | CloseAll :: r => Close :: proj s r
  end.

Fixpoint projev (s : nat) (evs : list (nat * ev)) : list ev :=
  match evs with
  | [] => []
  | (t, e) :: r => if Nat.eqb t s then e :: projev s r else projev s r
  end.
