(* C01 — events reach exactly the matching handlers, once, using the live handler set. *)
From Coq Require Import List ZArith Arith.
From Circ Require Import Model.Handlers Proofs.HandlersP Model.ClassHandlers Proofs.ClassHandlersP.
Import ListNotations.

(* For every pool of components, and every history of addHandler / removeHandler /
   register / unregister(+completion) / fire / flush operations accepted by the API:
   every dispatch invokes each handler at most once, and invokes h iff, in the world as it is
   at the moment of the dispatch, h is registered on a component of the dispatching root's tree,
   is declared for the event's name (or for all events) and listens on the event's channel
   (equal channels, either side '*', or the event addressed to the component itself).
   "World at the moment of dispatch" makes staleness impossible: the handler cache is
   proved coherent ([Inv]) across all operations, including a detached subtree that runs
   as its own root again. *)
Theorem C01_delivery_exact : forall cs ops d, NoDup (map fst cs) ->
  In d (fst (fst (run (fresh_world cs) ops))) ->
  NoDup (d_invoked d) /\
  forall h, In h (d_invoked d) <-> delivers (d_world d) (d_root d) (d_name d) (d_chan d) h.
Proof. exact delivery_exact. Qed.
Print Assumptions C01_delivery_exact.

(* the cache never serves anything but an uncached lookup in the live world *)
Theorem C01_never_stale : forall ops w, Inv w -> Forall good (fst (fst (run w ops))).
Proof. exact run_good. Qed.
Print Assumptions C01_never_stale.

(* the lookup itself implements the matching rule of the statement *)
Theorem C01_matching_rule : forall w r n ch h, (forall c, In c w -> global_ok c) ->
  In h (get_handlers w r n ch) <-> delivers w r n ch h.
Proof. exact get_handlers_spec. Qed.
Print Assumptions C01_matching_rule.

(* non-vacuity: X is a root and dispatches (fills its cache), is registered under R, gets a new
   handler, is detached and dispatches again: the new handler is used (the pre-fix code served the
   stale cache here) *)
Example C01_ex_detach :
  let h1 := {| hid := 1; hnames := [0]; hchan := None; hprio := 0%Z |} in
  let h2 := {| hid := 2; hnames := [0]; hchan := None; hprio := 0%Z |} in
  map d_invoked (fst (fst (run (fresh_world [(0, CStar); (1, CStar)])
    [OAdd 1 h1; OFire 1 0 0 CStar; OFlush 1; ORegister 1 0; OAdd 1 h2; ODetach 1 [1];
     OFire 1 1 0 CStar; OFlush 1]))) = [[1]; [2; 1]].
Proof. vm_compute. reflexivity. Qed.

(* ---- which handlers an instance has: class hierarchies of any depth ----
   A handler definition is in force iff no more derived class of the MRO redefines the
   same attribute as a handler with override=True (the documented semantics of @handler).
   [collect] models BaseComponent.__new__ + __init__'s getmembers loop. *)
Theorem C01_classes_sound : forall mro d, In d (collect mro) -> in_force mro d.
Proof. exact collect_sound. Qed.
Print Assumptions C01_classes_sound.

Theorem C01_classes_complete : forall mro d, uniq_attrs mro -> in_force mro d ->
  exists d', In d' (collect mro) /\ m_fid d' = m_fid d.
Proof. exact collect_complete. Qed.
Print Assumptions C01_classes_complete.

(* non-vacuity: A defines foo; B(A) adds nothing; C(B) redefines foo without override:
   both functions are handlers of a C instance (the pre-fix code dropped A's) *)
Example C01_ex_three_levels :
  let fooA := {| m_attr := 0; m_fid := 10; m_handler := true; m_override := false; m_names := [0] |} in
  let fooC := {| m_attr := 0; m_fid := 12; m_handler := true; m_override := false; m_names := [0] |} in
  handlers_for [[fooC]; []; [fooA]] 0 = [12; 10].
Proof. vm_compute. reflexivity. Qed.
