(* C19 — node: remote events run once and return their result; peers cannot harm the loop.
   Only statements here; proofs live in Proofs/NodeProtoP.v.  The model (Model/NodeProto.v) is the
   code after fixes/C19_1..6; json.dumps / json.loads are oracles whose laws appear as premises. *)
From Coq Require Import List NArith ZArith Bool.
From Circ Require Import Model.NodeProto Proofs.NodeProtoP Proofs.NodeEndToEndP Proofs.NodeHubP.
Import ListNotations.

(* ---- framing: every cut of the stream of packets into reads yields exactly the packets sent, in
   order, each once, nothing held back.  Premises = what is needed from the serialiser:
   loads (text p) = p; the text contains no delimiter byte (dump_* escape '~', see C19_escape);
   no proper prefix of a text parses; a text followed by part of the delimiter does not parse;
   a proper prefix of the delimiter does not parse.  [ok] = the packets honest peers send (JSON
   objects: for a top-level number a proper prefix does parse). *)
Theorem C19_framing :
  forall (P : Type) (parse : list N -> option P) (enc : P -> list N) (d0 : N) (dr : list N) (ok : P -> Prop),
  (forall p, ok p -> parse (enc p) = Some p) ->
  (forall p, ok p -> ~ In d0 (enc p)) ->
  (forall p q r, ok p -> enc p = q ++ r -> r <> [] -> parse q = None) ->
  (forall p t t', ok p -> d0 :: dr = t ++ t' -> t <> [] -> t' <> [] -> parse (enc p ++ t) = None) ->
  (forall t t', d0 :: dr = t ++ t' -> t' <> [] -> parse t = None) ->
  forall (ps : list P) (chunks : list (list N)), Forall ok ps ->
    concat chunks = frames P (d0 :: dr) enc ps -> run P parse (d0 :: dr) [] chunks = (ps, []).
Proof. exact framing. Qed.
Print Assumptions C19_framing.

Theorem C19_framing_cut_independent :
  forall (P : Type) (parse : list N -> option P) (enc : P -> list N) (d0 : N) (dr : list N) (ok : P -> Prop),
  (forall p, ok p -> parse (enc p) = Some p) ->
  (forall p, ok p -> ~ In d0 (enc p)) ->
  (forall p q r, ok p -> enc p = q ++ r -> r <> [] -> parse q = None) ->
  (forall p t t', ok p -> d0 :: dr = t ++ t' -> t <> [] -> t' <> [] -> parse (enc p ++ t) = None) ->
  (forall t t', d0 :: dr = t ++ t' -> t' <> [] -> parse t = None) ->
  forall ps cs1 cs2, Forall ok ps ->
    concat cs1 = frames P (d0 :: dr) enc ps -> concat cs2 = frames P (d0 :: dr) enc ps ->
    run P parse (d0 :: dr) [] cs1 = run P parse (d0 :: dr) [] cs2.
Proof. exact framing_cut_independent. Qed.
Print Assumptions C19_framing_cut_independent.

(* the premises are satisfiable: a two-packet toy codec *)
Example C19_framing_instance : forall ps cs,
  concat cs = frames bool (Toy.d0 :: Toy.dr) Toy.enc ps ->
  run bool Toy.parse (Toy.d0 :: Toy.dr) [] cs = (ps, []).
Proof. exact Toy.toy_framing. Qed.
Example C19_framing_run :
  run bool Toy.parse [126; 126; 126]%N [] [[49; 126]%N; [126]%N; [126; 48]%N; []; [48; 126; 126; 126; 49]%N; [126; 126; 126]%N]
  = ([true; false; true], []).
Proof. vm_compute. reflexivity. Qed.

(* the serialised text never contains a delimiter byte, whatever json.dumps returned *)
Theorem C19_escape : forall s, ~ In TILDE (escape s).
Proof. exact escape_no_tilde. Qed.
Print Assumptions C19_escape.

(* ---- serialisation: load_event (dump_event e id) = e on name, args, kwargs, flags, channels, id;
   attributes outside META_EXCLUDE (and not __x) are carried over, the others are dropped *)
Theorem C19_serial : forall excl e id, wf_event e ->
  load_event excl (event_data excl e id) =
  Some ({| ename := ename e; eargs := eargs e; ekwargs := ekwargs e; esuccess := esuccess e;
           efailure := efailure e; enotify := enotify e; echannels := echannels e;
           eattrs := apply_meta excl (dump_meta_ev excl e) [] |}, id).
Proof. exact serial. Qed.
Print Assumptions C19_serial.

Theorem C19_serial_attrs : forall excl e k, NoDup (map fst (eattrs e)) ->
  get k (apply_meta excl (dump_meta_ev excl e) []) = if allowed excl k then get k (eattrs e) else None.
Proof. exact serial_attrs. Qed.
Print Assumptions C19_serial_attrs.

Example C19_serial_ex : wf_event Ex.e0 /\ NoDup (map fst (eattrs Ex.e0)).
Proof. exact Ex.e0_wf. Qed.

(* ---- hostile metadata: for EVERY JSON value a peer sends as a call, the event handed to the
   dispatcher has no attribute named in META_EXCLUDE or starting with "__", and hashable channels *)
Theorem C19_meta_safe : forall excl data e id, load_event excl data = Some (e, id) ->
  (forall k, allowed excl k = false -> get k (eattrs e) = None) /\ forallb hashable (echannels e) = true.
Proof. exact load_event_safe. Qed.
Print Assumptions C19_meta_safe.

(* the flags success / failure / notify of the loaded event are booleans - bool() of whatever JSON value the
   peer sent (a string in notify would otherwise become the name of an event class inside Value.inform, which
   runs outside the dispatcher's try) *)
Theorem C19_flags_bool : forall excl data e id, load_event excl data = Some (e, id) ->
  exists o s f n, data = JObj o /\ get k_success o = Some s /\ get k_failure o = Some f /\
                  get k_notify o = Some n /\
                  esuccess e = truthy s /\ efailure e = truthy f /\ enotify e = truthy n.
Proof. exact load_event_flags. Qed.
Print Assumptions C19_flags_bool.

(* ... hence what _dispatcher/_eventDone read from it cannot make them raise (model: dispatch_safe) *)
Theorem C19_loop_survives : forall excl data e id, load_event excl data = Some (e, id) ->
  mem_str k_cause excl = true -> dispatch_safe e = true.
Proof. exact load_event_dispatch_safe. Qed.
Print Assumptions C19_loop_survives.

(* the same for the metadata of a value packet, which is set on the sender's waiting event *)
Theorem C19_value_meta_safe : forall excl o v id er meta, load_value excl o = LvOk v id er meta ->
  forall k, allowed excl k = false -> get k meta = None.
Proof. exact load_value_safe. Qed.
Print Assumptions C19_value_meta_safe.

(* ---- firewalls, for every predicate *)
Theorem C19_firewall_recv : forall excl dumps D fw_recv handler b_chan j e id,
  load_event excl j = Some (e, id) -> fw_recv e = false ->
  dispatched (b_packet excl dumps D fw_recv handler b_chan j) = [].
Proof. exact firewall_recv. Qed.
Print Assumptions C19_firewall_recv.

Theorem C19_firewall_send : forall excl dumps D fw_send s e m, fw_send e = false ->
  wab (a_send excl dumps D fw_send s e m) = wab s /\ a_nid (a_send excl dumps D fw_send s e m) = a_nid s
  /\ a_pend (a_send excl dumps D fw_send s e m) = a_pend s
  /\ a_issued (a_send excl dumps D fw_send s e m) = a_issued s.
Proof. exact firewall_send. Qed.
Print Assumptions C19_firewall_send.

(* ---- ids: a send that passes the firewall - with result (MCall) or without (node_without_result set,
   Server.send(no_result=True), send_to, send_all) - writes the call with the current id, records the id as
   handed to the peer (ghost list a_issued) and advances the counter; only a send with result registers a
   waiting call *)
Theorem C19_send_id : forall excl dumps D fw_send s e m b, fw_send e = true ->
  packet dumps D (event_data excl e (JInt (a_nid s))) = Some b ->
  wab (a_send excl dumps D fw_send s e m) = wab s ++ b
  /\ a_issued (a_send excl dumps D fw_send s e m) = a_issued s ++ [a_nid s]
  /\ a_nid (a_send excl dumps D fw_send s e m) = (a_nid s + 1)%Z
  /\ a_pend (a_send excl dumps D fw_send s e m) =
     match m with MCall => a_pend s ++ [(a_nid s, length (a_calls s))] | _ => a_pend s end
  /\ a_nores (a_send excl dumps D fw_send s e m) =
     match m with MCall => a_nores s | _ => a_nores s ++ [a_nid s] end.
Proof. exact send_id. Qed.
Print Assumptions C19_send_id.

(* ---- once: any packet dispatches at most one event; an honest call that passes the firewall and
   has a handler is dispatched exactly once, as the event that was sent *)
Theorem C19_at_most_once : forall excl dumps D fw_recv handler b_chan j,
  length (dispatched (b_packet excl dumps D fw_recv handler b_chan j)) <= 1.
Proof. exact dispatch_at_most_once. Qed.
Print Assumptions C19_at_most_once.

Theorem C19_once : forall excl dumps D fw_recv handler b_chan e id, wf_event e ->
  let e1 := {| ename := ename e; eargs := eargs e; ekwargs := ekwargs e; esuccess := esuccess e;
               efailure := efailure e; enotify := enotify e; echannels := echannels e;
               eattrs := apply_meta excl (dump_meta_ev excl e) [] |} in
  let e2 := {| ename := ename e; eargs := eargs e; ekwargs := ekwargs e; esuccess := true;
               efailure := efailure e; enotify := enotify e;
               echannels := match echannels e with [] => [b_chan] | l => l end;
               eattrs := apply_meta excl (dump_meta_ev excl e) [] |} in
  is_miss (event_data excl e id) = false -> fw_recv e1 = true -> handler e2 <> HNone ->
  dispatched (b_packet excl dumps D fw_recv handler b_chan (event_data excl e id)) = [e2].
Proof. exact dispatch_exactly_once. Qed.
Print Assumptions C19_once.

(* the answer carrying id [id] is stored in the waiting call registered under [id], and only there *)
Theorem C19_result_routing : forall excl pend calls id i v er e,
  zget id pend = Some i -> is_miss (value_data excl (JInt id) er v e) = false ->
  a_packet excl pend calls (value_data excl (JInt id) er v e) =
  (upd i (fun c => set_value c v er (filter (fun p => allowed excl (fst p)) (dump_meta excl e))) calls,
   false, false).
Proof. exact result_routing. Qed.
Print Assumptions C19_result_routing.

(* a reply whose id is not registered - in particular the reply the peer sends to an event that was sent
   without result - resumes nobody and changes no waiting call *)
Theorem C19_unregistered_reply_ignored : forall excl pend calls id v er e,
  zget id pend = None -> is_miss (value_data excl (JInt id) er v e) = false ->
  a_packet excl pend calls (value_data excl (JInt id) er v e) = (calls, false, false).
Proof. exact unregistered_reply_ignored. Qed.
Print Assumptions C19_unregistered_reply_ignored.

(* after every schedule of sends (with and without result), injected (hostile) bytes and reads of any
   size: no id handed to the peer is ever reused; the ids of the waiting calls are among them and pairwise
   distinct; the id of a send without result is never the id of a waiting call (so its reply, whenever it
   arrives, is ignored by C19_unregistered_reply_ignored) *)
Theorem C19_ids_unique : forall excl dumps loads D fw_send fw_recv handler b_chan ops,
  let s := exec excl dumps loads D fw_send fw_recv handler b_chan ops in
  NoDup (a_issued s) /\ NoDup (map fst (a_pend s)) /\
  (forall x, In x (map fst (a_pend s)) -> In x (a_issued s)) /\
  (forall x, In x (a_nores s) -> In x (a_issued s) /\ zget x (a_pend s) = None).
Proof. exact ids_unique. Qed.
Print Assumptions C19_ids_unique.

Example C19_noresult_ex : forall m, In m [MNoResAttr; MNoResApi] ->
  length (b_log (Ex.final_nores m)) = 1%nat /\ map c_fin (a_calls (Ex.final_nores m)) = [false; false]
  /\ a_issued (Ex.final_nores m) = [0; 1]%Z /\ a_nores (Ex.final_nores m) = [0%Z]
  /\ map fst (a_pend (Ex.final_nores m)) = [1%Z].
Proof. exact Ex.noresult_ex. Qed.

(* ---- end to end on one concrete exchange (non-vacuity of the protocol model): the call is cut at
   byte 0..3, dispatched once, and its result reaches the sender *)
Example C19_roundtrip_ex : forall cut, In cut [0; 1; 2; 3]%nat ->
  map c_val (a_calls (Ex.final (fun _ => HVal Ex.result) cut)) = [Ex.result]
  /\ map c_fin (a_calls (Ex.final (fun _ => HVal Ex.result) cut)) = [true]
  /\ length (b_log (Ex.final (fun _ => HVal Ex.result) cut)) = 1%nat.
Proof. exact Ex.roundtrip. Qed.

(* ---- END TO END.  The two-party system [exec] (caller protocol, callee protocol, the two byte channels with
   what has been written and not yet read, the callee's handler) under ANY honest schedule: sends in any
   mode (MCall / node_without_result set / Server.send(no_result=True), send_to, send_all) interleaved in
   any way with reads of ANY size on either channel (OAB n / OBA n / one packet).  Premise: the json laws
   (record json_laws: dumps total with text [ser j]; for JSON objects loads(escape(ser j)) = j, no proper
   prefix parses, text + partial delimiter does not parse; a partial delimiter does not parse) - the same
   laws as the premises of C19_framing.  If at the end both channels are empty (everything written was
   delivered), then
   - the callee dispatched, in order, exactly [logof e] for every send e that passed the send firewall:
     [ev2 e] (the event that was sent; success set, default channel filled in) exactly once if it passes
     the receive firewall and has a handler, nothing otherwise - whatever the mode (fire-and-forget
     sends run once), and nothing for sends rejected by the send firewall (they produced no bytes);
   - the caller's entry of every send is exactly [exp1]: for an accepted call whose handler returns r:
     finished with value r (that event's result and nothing else); a handler raises: finished with the
     error flag and the error marker; rejected by the receive firewall / no handler: finished with null; sends without result: never resumed; rejected by the send firewall: the rejection marker;
   - both protocol buffers are empty and the model never left its domain. *)
Theorem C19_end_to_end :
  forall excl dumps loads fw_send fw_recv handler b_chan ser, json_laws dumps loads ser ->
  forall ops, Forall honest_op ops ->
  let s := exec excl dumps loads DELIM fw_send fw_recv handler b_chan ops in
  wab s = [] -> wba s = [] ->
  b_log s = flat_map (logof excl fw_recv handler b_chan) (filter fw_send (map fst (sends_of ops)))
  /\ a_calls s = map (exp1 excl fw_send fw_recv handler b_chan) (sends_of ops)
  /\ a_buf s = [] /\ b_buf s = [] /\ bad s = false.
Proof. exact end_to_end. Qed.
Print Assumptions C19_end_to_end.

(* an honest schedule that ends with empty channels (toy oracles; the json laws themselves are not
   instantiated in Coq - see notes: the same-shaped premises of C19_framing are, by the Toy codec) *)
Example C19_e2e_schedule_ex :
  Forall honest_op [OSend Ex.e0 MCall; OAB 2; OAB 0; OBA 2; OBA 0]
  /\ wab (Ex.final (fun _ => HVal Ex.result) 2) = []
  /\ wba (Ex.final (fun _ => HVal Ex.result) 2) = [].
Proof. exact e2e_schedule_ex. Qed.

(* how to read exp1 / logof.  An accepted call is always finished, with the peer's answer for its own event:
   the handler's value (C19_e2e_value), null (C19_e2e_null: rejected by the receive firewall, or no handler),
   or - when a handler raised, at once or after a yield - the error marker together with the error flag
   (C19_e2e_error; before fixes/C19_remote_error.patch the sender was never resumed) *)
Theorem C19_e2e_call : forall excl fw_send fw_recv handler b_chan e, fw_send e = true ->
  exp1 excl fw_send fw_recv handler b_chan (e, MCall) = final excl fw_recv handler b_chan e
  /\ c_fin (final excl fw_recv handler b_chan e) = true
  /\ c_val (final excl fw_recv handler b_chan e) = oval excl fw_recv handler b_chan e.
Proof. exact exp1_call. Qed.
Print Assumptions C19_e2e_call.
Theorem C19_e2e_errflag : forall excl fw_recv handler b_chan e,
  get k_errors (meta_of excl e) = None ->
  c_err (final excl fw_recv handler b_chan e) = Some (JBool (oerr excl fw_recv handler b_chan e)).
Proof. exact final_err. Qed.
Print Assumptions C19_e2e_errflag.
Theorem C19_e2e_value : forall excl fw_recv handler b_chan e r,
  fw_recv (ev1 excl e) = true ->
  handler (ev2 excl b_chan e) = HVal r \/ handler (ev2 excl b_chan e) = HValLate r ->
  oval excl fw_recv handler b_chan e = r /\ oerr excl fw_recv handler b_chan e = false.
Proof. exact oval_val. Qed.
Print Assumptions C19_e2e_value.
Theorem C19_e2e_error : forall excl fw_recv handler b_chan e late,
  fw_recv (ev1 excl e) = true -> handler (ev2 excl b_chan e) = HRaise late ->
  oval excl fw_recv handler b_chan e = JERR /\ oerr excl fw_recv handler b_chan e = true.
Proof. exact oval_raise. Qed.
Print Assumptions C19_e2e_error.
Theorem C19_e2e_null : forall excl fw_recv handler b_chan e,
  fw_recv (ev1 excl e) = false \/ handler (ev2 excl b_chan e) = HNone ->
  oval excl fw_recv handler b_chan e = JNull /\ oerr excl fw_recv handler b_chan e = false.
Proof. exact oval_null. Qed.
Print Assumptions C19_e2e_null.
Theorem C19_e2e_noresult : forall excl fw_send fw_recv handler b_chan e m,
  fw_send e = true -> m <> MCall -> exp1 excl fw_send fw_recv handler b_chan (e, m) = call0.
Proof. exact exp1_nores. Qed.
Print Assumptions C19_e2e_noresult.
Theorem C19_e2e_rejected : forall excl fw_send fw_recv handler b_chan e m,
  fw_send e = false -> exp1 excl fw_send fw_recv handler b_chan (e, m) = rej_call m.
Proof. exact exp1_rej. Qed.
Print Assumptions C19_e2e_rejected.
Theorem C19_e2e_dispatched : forall excl fw_recv handler b_chan e,
  fw_recv (ev1 excl e) = true -> handler (ev2 excl b_chan e) <> HNone ->
  logof excl fw_recv handler b_chan e = [ev2 excl b_chan e].
Proof. exact logof_run. Qed.
Print Assumptions C19_e2e_dispatched.
Theorem C19_e2e_blocked : forall excl fw_recv handler b_chan e, fw_recv (ev1 excl e) = false ->
  logof excl fw_recv handler b_chan e = [].
Proof. exact logof_blocked. Qed.
Print Assumptions C19_e2e_blocked.

(* a raising handler (at once / after a yield), one concrete exchange cut at byte 0 or 2: dispatched once,
   the caller is finished with the error flag and the error marker *)
Example C19_error_returns_ex : forall late cut, In cut [0; 2]%nat ->
  length (b_log (Ex.final_err late cut)) = 1%nat
  /\ map c_fin (a_calls (Ex.final_err late cut)) = [true]
  /\ map c_err (a_calls (Ex.final_err late cut)) = [Some (JBool true)]
  /\ map c_val (a_calls (Ex.final_err late cut)) = [JERR].
Proof. exact Ex.error_returns. Qed.

(* ---- SEVERAL CONNECTIONS on one called side (a Server with several clients, a Node with several peers).
   Hub model (Model/NodeProto.v, Section Hub): a map connection id -> single-connection state; every step
   (a send of the connection's caller, a read of either end) is tagged with its connection; [legacy = false] is
   the code after fix 8ca1bbb, where the <name>_success / <name>_complete notification of a remote event is
   addressed to the Protocol of the connection the call came from; [legacy = true] is the code before it
   (notification on the shared channel: every Protocol of the process writes the answer on its connection). *)

(* (1) frame: a step on connection c is the single-connection step on c's state and leaves every other
   connection - its state, both wires, its dispatch log, its calls - unchanged *)
Theorem C19_hub_step_own : forall excl dumps loads D fw_send fw_recv handler b_chan n legacy h c o,
  hstep excl dumps loads D fw_send fw_recv handler b_chan n legacy h (c, o) c
  = step excl dumps loads D fw_send fw_recv handler (b_chan c) (h c) o.
Proof. exact hstep_own. Qed.
Print Assumptions C19_hub_step_own.

Theorem C19_hub_frame : forall excl dumps loads D fw_send fw_recv handler b_chan n h c o c', c' <> c ->
  hstep excl dumps loads D fw_send fw_recv handler b_chan n false h (c, o) c' = h c'.
Proof. exact hstep_frame. Qed.
Print Assumptions C19_hub_frame.

(* (2) routing: for every schedule over any number of connections, the hub seen on connection c IS the
   single-connection system run on c's own steps - in particular the bytes on c's answer wire, hence every value
   packet written on c answers a call received on c ... *)
Theorem C19_hub_independent : forall excl dumps loads D fw_send fw_recv handler b_chan n sched c,
  hrun excl dumps loads D fw_send fw_recv handler b_chan n false sched c
  = exec excl dumps loads D fw_send fw_recv handler (b_chan c) (ops_of c sched).
Proof. exact hub_independent. Qed.
Print Assumptions C19_hub_independent.

(* ... and C19_end_to_end holds on every connection, whatever ids are in flight on the others: every sender gets
   the result of its own event *)
Theorem C19_hub_end_to_end :
  forall excl dumps loads fw_send fw_recv handler (b_chan : nat -> json) n ser, json_laws dumps loads ser ->
  forall sched, Forall (fun co => honest_op (snd co)) sched ->
  forall c,
  let s := hrun excl dumps loads DELIM fw_send fw_recv handler b_chan n false sched c in
  let sends := sends_of (ops_of c sched) in
  wab s = [] -> wba s = [] ->
  b_log s = flat_map (logof excl fw_recv handler (b_chan c)) (filter fw_send (map fst sends))
  /\ a_calls s = map (exp1 excl fw_send fw_recv handler (b_chan c)) sends
  /\ a_buf s = [] /\ b_buf s = [] /\ bad s = false.
Proof. exact hub_end_to_end. Qed.
Print Assumptions C19_hub_end_to_end.

(* (3) the behaviour before the fix does NOT have this property: two connections, a call with id 0 in flight on
   both; the sender on connection c asked for event y and is resumed with the result of event x, the call of the
   other connection (corpus/C19/result_to_caller_only.json); the same schedule under the fixed hub gives y *)
Theorem C19_hub_legacy_refuted : exists sched c x y, x <> y
  /\ sends_of (ops_of c sched) = [(HubEx.ev y, MCall)]
  /\ HubEx.handler (HubEx.ev y) = HVal (JStr [y])
  /\ map c_val (a_calls (HubEx.run true 2 sched c)) = [JStr [x]]
  /\ map c_val (a_calls (HubEx.run false 2 sched c)) = [JStr [y]].
Proof. exact HubEx.legacy_refuted. Qed.
Print Assumptions C19_hub_legacy_refuted.

(* three connections, equal ids in flight, deliveries interleaved and cut: every sender gets the own result *)
Example C19_hub_three_ex : forall c, In c [0; 1; 2]%nat ->
  map c_val (a_calls (HubEx.run false 3 HubEx.three c)) = [JStr [(97 + N.of_nat c)%N]]
  /\ map c_fin (a_calls (HubEx.run false 3 HubEx.three c)) = [true]
  /\ length (b_log (HubEx.run false 3 HubEx.three c)) = 1%nat
  /\ wab (HubEx.run false 3 HubEx.three c) = [] /\ wba (HubEx.run false 3 HubEx.three c) = [].
Proof. exact HubEx.fixed_three. Qed.
