(* C19 — node: remote events run once and return their result; peers cannot harm the loop.
   Only statements here; proofs live in Proofs/NodeProtoP.v. *)
From Coq Require Import List NArith ZArith.
From Circ Require Import Model.NodeProto Proofs.NodeProtoP.
Import ListNotations.

Theorem C19_escape_no_delimiter_byte : forall s, ~ In TILDE (escape s).
Proof. exact escape_no_tilde. Qed.
Print Assumptions C19_escape_no_delimiter_byte.
