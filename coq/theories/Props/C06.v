(* C06 — call()/wait() resume the caller exactly once with the result, leaving no residue.
   Only statements here; proofs live in Proofs/KTasksP.v, the model in Model/KTasks.v.

   Reading guide.  [run p gen scheds roots n] is the world after n iterations of tick() of the program p
   (handlers per event name), with generate_events fired iff gen, the task set iterated in the order
   given by scheds (any schedule: [order_by] only permutes), and the root events fired as listed.  Every
   theorem is for ALL p, gen, scheds, roots, n.  [bad w = false] says the machinery itself has not raised
   (removeHandler of an absent handler, a generator resumed against the protocol); [bad] is part of the
   observable compared with the implementation on every generated case.
   A wait state (one per executed call()/wait()) carries ghost fields, written only by the model's
   transition functions: s_ph (Armed: waiting for the event; Seen: _on_event ran; Flagged: _on_done ran, the
   wait generator is a task; Dead: resumed or timed out), s_resumes (number of times the suspended handler
   was resumed through this wait, by send() of the result or by throw() of TimeoutError), s_ticks (number of
   generate_events dispatches its tick handler counted), s_tmo0 (the timeout given), s_timedout.

   NOT proved here (checked on every generated case by the oracle in harness/c06.py only): liveness (the
   caller IS resumed when the callee finishes), and that the result is delivered only after the last
   handler step of the callee.  So "no residue at quiescence" is proved in the form C06_no_residue (nothing is
   left once every wait has been resumed or has timed out); that every wait does get there is the unproved part. *)
From Coq Require Import List ZArith Bool.
From Circ Require Import Model.KTasks Proofs.KTasksP.
Import ListNotations.
Open Scope Z_scope.

(* residue: the temporary handlers installed are exactly those the live wait states call for
   (<name> while Armed; <name>_done until resumed/timed out; generate_events while Armed/Seen with a timeout),
   each at most once *)
Theorem C06_residue : forall p g scheds roots n, let w := run p g scheds roots n in bad w = false ->
  NoDup (ths w) /\
  forall h, In h (ths w) <-> exists st, nth_error (wsts w) (sid_of h) = Some st /\ wants h st.
Proof. exact residue_spec. Qed.
Print Assumptions C06_residue.

(* ... so once every wait has been resumed or has timed out, no temporary handler and no wait generator task is left *)
Theorem C06_no_residue : forall p g scheds roots n, let w := run p g scheds roots n in bad w = false ->
  (forall sid st, nth_error (wsts w) sid = Some st -> s_ph st = Dead) ->
  ths w = [] /\ forall t, In t (tasks w) -> forall sid, t_ref t <> RWait sid.
Proof. exact no_residue_all_dead. Qed.
Print Assumptions C06_no_residue.

(* exactly-once accounting: at every moment a wait is exactly one of: live (handlers installed, caller suspended),
   timed out with its TimeoutError pending as a task, or has resumed its caller exactly once *)
Theorem C06_resume_accounting : forall p g scheds roots n sid st, let w := run p g scheds roots n in bad w = false ->
  nth_error (wsts w) sid = Some st ->
  (s_resumes st + alive (s_ph st) + count_rt sid (tasks w) = 1)%nat.
Proof. exact resume_accounting. Qed.
Print Assumptions C06_resume_accounting.

(* the caller is resumed at most once per call/wait, result and TimeoutError together; after it nothing is pending *)
Theorem C06_resume_at_most_once : forall p g scheds roots n sid st, let w := run p g scheds roots n in bad w = false ->
  nth_error (wsts w) sid = Some st ->
  (s_resumes st <= 1)%nat /\ (s_resumes st = 1%nat -> s_ph st = Dead /\ count_rt sid (tasks w) = O).
Proof. exact resume_at_most_once. Qed.
Print Assumptions C06_resume_at_most_once.

(* a TimeoutError (fired, or still pending as a task) exists only after the wait has counted tmo0+1 generate_events
   dispatches, i.e. not before tmo0 further loop iterations; until then the countdown is exact *)
Theorem C06_timeout_not_early : forall p g scheds roots n sid st, let w := run p g scheds roots n in bad w = false ->
  nth_error (wsts w) sid = Some st ->
  (s_timedout st = true \/ (0 < count_rt sid (tasks w))%nat) ->
  Z.of_nat (s_ticks st) = s_tmo0 st + 1 /\ s_ph st = Dead.
Proof. exact timeout_not_early. Qed.
Print Assumptions C06_timeout_not_early.

Theorem C06_countdown : forall p g scheds roots n sid st, let w := run p g scheds roots n in bad w = false ->
  nth_error (wsts w) sid = Some st -> s_timedout st = false -> 0 <= s_tmo0 st ->
  0 <= s_timeout st /\ s_timeout st + Z.of_nat (s_ticks st) = s_tmo0 st.
Proof. exact live_countdown. Qed.
Print Assumptions C06_countdown.

(* a wait generator is in the task set only between _on_done and its resumption; then only <name>_done is installed *)
Theorem C06_wait_task : forall p g scheds roots n t sid, let w := run p g scheds roots n in bad w = false ->
  In t (tasks w) -> t_ref t = RWait sid ->
  exists st, nth_error (wsts w) sid = Some st /\ s_ph st = Flagged /\ In (THDone sid) (ths w) /\
             ~ In (THEv sid) (ths w) /\ ~ In (THTick sid) (ths w).
Proof. exact wait_task_flagged. Qed.
Print Assumptions C06_wait_task.

(* non-vacuity: a call that returns (resumed once with the callee's two values) and a call that times out
   (timeout 1: two generate_events dispatches counted, TimeoutError delivered once) *)
Example C06_ex_ok :
  let w := run prog_ok false [] [(O, O)] 12 in
  bad w = false /\ ths w = [] /\ tasks w = [] /\
  map (fun s => (s_ph s, s_resumes s, s_timedout s)) (wsts w) = [(Dead, 1%nat, false)] /\
  In (LRes 1 0 0 2 [205; 209] false) (wlog w).
Proof. vm_compute. repeat split. tauto. Qed.

Example C06_ex_tmo :
  let w := run prog_tmo true [] [(O, O)] 14 in
  bad w = false /\ ths w = [] /\ tasks w = [] /\
  map (fun s => (s_ph s, s_resumes s, s_timedout s, s_tmo0 s, s_ticks s)) (wsts w) = [(Dead, 1%nat, true, 1, 2%nat)] /\
  In (LTmo 1 0 0) (wlog w).
Proof. vm_compute. repeat split. tauto. Qed.

(* a callee whose generator handler raises after its first yield: the caller is resumed once, with the error *)
Example C06_ex_genraise :
  let w := run prog_genraise false [] [(O, O)] 12 in
  bad w = false /\ ths w = [] /\ tasks w = [] /\
  map (fun s => (s_ph s, s_resumes s)) (wsts w) = [(Dead, 1%nat)] /\
  In (LRes 1 0 0 2 [209; -1] true) (wlog w).
Proof. vm_compute. repeat split. tauto. Qed.

(* a handler that raises right after being resumed from its own call: its event still finishes, its caller is resumed *)
Example C06_ex_raise_resumed :
  let w := run prog_raise_resumed false [] [(O, O)] 14 in
  bad w = false /\ ths w = [] /\ tasks w = [] /\
  map (fun e => e_waiting e) (evs w) = [0; 0; 0; 0] /\
  map (fun s => (s_ph s, s_resumes s)) (wsts w) = [(Dead, 1%nat); (Dead, 1%nat)] /\
  In (LRes 1 0 0 2 [-1] true) (wlog w).
Proof. vm_compute. repeat split. tauto. Qed.
