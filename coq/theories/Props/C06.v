(* C06 — call()/wait() resume the caller exactly once with the result, leaving no residue.
   Only statements here; proofs live in Proofs/KTasksP.v. *)
From Coq Require Import List ZArith Bool.
From Circ Require Import Model.KTasks Proofs.KTasksP.
Import ListNotations.
Open Scope Z_scope.

Theorem C06_genraise_refuted :
  let w := run prog_genraise false [O] [(O, O)] 12 in
  tasks w = [] /\ queue w = [] /\ ths w = [THDone O] /\ bad w = false.
Proof. exact genraise_residue. Qed.
Print Assumptions C06_genraise_refuted.
