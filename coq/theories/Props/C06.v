(* C06 — call()/wait() resume the caller exactly once with the result, leaving no residue.
   Only statements here; proofs live in Proofs/KTasksP.v, the model in Model/KTasks.v.

   Reading guide.  [run p gen scheds roots n] is the world after n iterations of tick() of the program p
   (handlers per event name), with generate_events fired iff gen, the task set iterated in the order
   given by scheds (any schedule: [order_by] only permutes), and the root events fired as listed.  Every
   theorem is for ALL p, gen, scheds, roots, n, without side condition.
   [bad w] says the machinery itself has raised (removeHandler of an absent handler, a generator resumed
   against the protocol, a table index out of range); C06_no_crash proves it unreachable.
   A wait state (one per executed call()/wait()) carries ghost fields, written only by the model's
   transition functions: s_ph (Armed: waiting for the event; Seen: _on_event ran; Flagged: _on_done ran, the
   wait generator is a task; Dead: resumed or timed out), s_resumes (number of times the suspended handler
   was resumed through this wait, by send() of the result or by throw() of TimeoutError), s_ticks (number of
   generate_events dispatches its tick handler counted), s_tmo0 (the timeout given), s_timedout.
   The log [wlog] (newest first) has one entry per handler step; [LRes tok hi k e vals err] = handler hi of
   event instance tok is resumed in its step k with the Value (vals, err) of instance e; [htok x = Some t]
   says that x is a step of a handler of instance t (LPlain, LStep, LRes, LTmo, LTmoUncaught, LEnd).
   What remains unproved: termination itself (that a run of an acyclic program does go quiet within a bound) - the
   theorems say what holds whenever it has; the generated cases of the correspondence all do. *)
From Coq Require Import List ZArith Bool.
From Circ Require Import Model.KTasks Proofs.KTasksP.
Import ListNotations.
Open Scope Z_scope.

(* the coroutine machinery never raises by itself: every removeHandler finds its handler, every generator is
   resumed the way it is suspended (next / send / throw), every table lookup succeeds *)
Theorem C06_no_crash : forall p g scheds roots n, bad (run p g scheds roots n) = false.
Proof. exact run_no_crash. Qed.
Print Assumptions C06_no_crash.

(* residue: the temporary handlers installed are exactly those the live wait states call for
   (<name> while Armed; <name>_done until resumed/timed out; generate_events while Armed/Seen with a timeout),
   each at most once *)
Theorem C06_residue : forall p g scheds roots n, let w := run p g scheds roots n in
  NoDup (ths w) /\
  forall h, In h (ths w) <-> exists st, nth_error (wsts w) (sid_of h) = Some st /\ wants h st.
Proof. exact residue_spec_nc. Qed.
Print Assumptions C06_residue.

(* ... so once every wait has been resumed or has timed out, no temporary handler and no wait generator task is left *)
Theorem C06_no_residue : forall p g scheds roots n, let w := run p g scheds roots n in
  (forall sid st, nth_error (wsts w) sid = Some st -> s_ph st = Dead) ->
  ths w = [] /\ forall t, In t (tasks w) -> forall sid, t_ref t <> RWait sid.
Proof. exact no_residue_all_dead_nc. Qed.
Print Assumptions C06_no_residue.

(* exactly-once accounting: at every moment a wait is exactly one of: live (handlers installed, caller suspended),
   timed out with its TimeoutError pending as a task, or has resumed its caller exactly once *)
Theorem C06_resume_accounting : forall p g scheds roots n sid st, let w := run p g scheds roots n in
  nth_error (wsts w) sid = Some st ->
  (s_resumes st + alive (s_ph st) + count_rt sid (tasks w) = 1)%nat.
Proof. exact resume_accounting_nc. Qed.
Print Assumptions C06_resume_accounting.

(* the caller is resumed at most once per call/wait, result and TimeoutError together; after it nothing is pending *)
Theorem C06_resume_at_most_once : forall p g scheds roots n sid st, let w := run p g scheds roots n in
  nth_error (wsts w) sid = Some st ->
  (s_resumes st <= 1)%nat /\ (s_resumes st = 1%nat -> s_ph st = Dead /\ count_rt sid (tasks w) = O).
Proof. exact resume_at_most_once_nc. Qed.
Print Assumptions C06_resume_at_most_once.

(* a TimeoutError (fired, or still pending as a task) exists only after the wait has counted tmo0+1 generate_events
   dispatches, i.e. not before tmo0 further loop iterations; until then the countdown is exact *)
Theorem C06_timeout_not_early : forall p g scheds roots n sid st, let w := run p g scheds roots n in
  nth_error (wsts w) sid = Some st ->
  (s_timedout st = true \/ (0 < count_rt sid (tasks w))%nat) ->
  Z.of_nat (s_ticks st) = s_tmo0 st + 1 /\ s_ph st = Dead.
Proof. exact timeout_not_early_nc. Qed.
Print Assumptions C06_timeout_not_early.

Theorem C06_countdown : forall p g scheds roots n sid st, let w := run p g scheds roots n in
  nth_error (wsts w) sid = Some st -> s_timedout st = false -> 0 <= s_tmo0 st ->
  0 <= s_timeout st /\ s_timeout st + Z.of_nat (s_ticks st) = s_tmo0 st.
Proof. exact live_countdown_nc. Qed.
Print Assumptions C06_countdown.

(* a wait generator is in the task set only between _on_done and its resumption; then only <name>_done is installed *)
Theorem C06_wait_task : forall p g scheds roots n t sid, let w := run p g scheds roots n in
  In t (tasks w) -> t_ref t = RWait sid ->
  exists st, nth_error (wsts w) sid = Some st /\ s_ph st = Flagged /\ In (THDone sid) (ths w) /\
             ~ In (THEv sid) (ths w) /\ ~ In (THTick sid) (ths w).
Proof. exact wait_task_flagged_nc. Qed.
Print Assumptions C06_wait_task.

(* resumed only after the callee has finished: in the log (oldest first), after the entry that resumes a caller with
   the result of instance e there is no step of any handler of e (plain handler, generator step, resumption of a
   handler of e from its own nested call, TimeoutError in it, its end); moreover, at the end of the run, no handler
   generator of e is a task and no handler of e is suspended in a call/wait that has not resumed it.  (Nested calls:
   a handler of e continues after its own nested call only through an LRes / LTmo entry of e, which by this theorem
   applied to that entry comes after the last step of the nested callee.) *)
Theorem C06_resume_after_finish : forall p g scheds roots n l1 l2 tok hi k e vals err, let w := run p g scheds roots n in
  rev (wlog w) = l1 ++ LRes tok hi k e vals err :: l2 ->
  (forall x, In x l2 -> htok x <> Some e) /\
  (forall t, In t (tasks w) -> t_ev t = e -> is_gen (t_ref t) = false) /\
  (forall sid st, nth_error (wsts w) sid = Some st -> s_tevent st = e -> s_resumes st <> O).
Proof. exact resume_after_finish. Qed.
Print Assumptions C06_resume_after_finish.

(* the value and error flag delivered at a resumption are those of instance e itself — read from e when the caller is
   resumed (Model: gen_resume (RSend e)), and, because e has passed its waitingHandlers gate by then (dispatched, no
   count left) and nothing writes to it afterwards, still e's value and error flag at the end of the run *)
Theorem C06_resume_value : forall p g scheds roots n tok hi k e vals err, let w := run p g scheds roots n in
  In (LRes tok hi k e vals err) (wlog w) ->
  exists ev, nth_error (evs w) e = Some ev /\ e_vals ev = vals /\ e_errors ev = err /\
             (1 <= e_gate ev)%nat /\ e_dispatched ev = true /\ e_waiting ev = 0.
Proof. exact resume_value. Qed.
Print Assumptions C06_resume_value.

(* liveness, in the form a terminating run offers: if the run has gone quiet (no queued event, no task left) and no wait
   by name is still armed (a wait("name") whose event was never dispatched to it and whose timeout, if any, has not
   fired - that one legitimately keeps waiting), then EVERY call()/wait() executed in the run has resumed its caller,
   exactly once (result or TimeoutError), and by C06_no_residue nothing of them is left.  Proof: the youngest wait
   that is still live would be (a) flagged - but then its wait generator is a task; (b) armed on an event object - but
   then that event is still queued; or (c) have seen its event e, which has not passed its gate - but then e still holds
   a waitingHandlers count that, with no task left, belongs to a handler of e suspended in a younger live wait. *)
Theorem C06_quiescent_all_resumed : forall p g scheds roots n, let w := run p g scheds roots n in
  queue w = [] -> tasks w = [] ->
  (forall sid st, nth_error (wsts w) sid = Some st -> s_ph st = Armed -> s_obj st <> None) ->
  forall sid st, nth_error (wsts w) sid = Some st -> s_ph st = Dead /\ s_resumes st = 1%nat.
Proof. exact quiescent_all_resumed. Qed.
Print Assumptions C06_quiescent_all_resumed.

(* non-vacuity: a call that returns (resumed once with the callee's two values) and a call that times out
   (timeout 1: two generate_events dispatches counted, TimeoutError delivered once) *)
Example C06_ex_ok :
  let w := run prog_ok false [] [(O, O)] 12 in
  bad w = false /\ ths w = [] /\ tasks w = [] /\
  map (fun s => (s_ph s, s_resumes s, s_timedout s)) (wsts w) = [(Dead, 1%nat, false)] /\
  In (LRes 1 0 0 2 [205; 209] false) (wlog w).
Proof. vm_compute. repeat split. tauto. Qed.

Example C06_ex_tmo :
  let w := run prog_tmo true [] [(O, O)] 14 in
  bad w = false /\ ths w = [] /\ tasks w = [] /\
  map (fun s => (s_ph s, s_resumes s, s_timedout s, s_tmo0 s, s_ticks s)) (wsts w) = [(Dead, 1%nat, true, 1, 2%nat)] /\
  In (LTmo 1 0 0) (wlog w).
Proof. vm_compute. repeat split. tauto. Qed.

(* a callee whose generator handler raises after its first yield: the caller is resumed once, with the error *)
Example C06_ex_genraise :
  let w := run prog_genraise false [] [(O, O)] 12 in
  bad w = false /\ ths w = [] /\ tasks w = [] /\
  map (fun s => (s_ph s, s_resumes s)) (wsts w) = [(Dead, 1%nat)] /\
  In (LRes 1 0 0 2 [209; -1] true) (wlog w).
Proof. vm_compute. repeat split. tauto. Qed.

(* a handler that raises right after being resumed from its own call: its event still finishes, its caller is resumed *)
Example C06_ex_raise_resumed :
  let w := run prog_raise_resumed false [] [(O, O)] 14 in
  bad w = false /\ ths w = [] /\ tasks w = [] /\
  map (fun e => e_waiting e) (evs w) = [0; 0; 0; 0] /\
  map (fun s => (s_ph s, s_resumes s)) (wsts w) = [(Dead, 1%nat); (Dead, 1%nat)] /\
  In (LRes 1 0 0 2 [-1] true) (wlog w).
Proof. vm_compute. repeat split. tauto. Qed.

(* the hypothesis of C06_resume_after_finish is met: the callee's steps precede the resumption, the caller goes on after it *)
Example C06_ex_after_finish :
  let w := run prog_ok false [] [(O, O)] 12 in
  exists l1 l2, rev (wlog w) = l1 ++ LRes 1 0 0 2 [205; 209] false :: l2 /\
                In (LPlain 2 0) l1 /\ In (LEnd 2 1) l1 /\ In (LStep 1 0 1) l2.
Proof.
  exists (firstn 14 (rev (wlog (run prog_ok false [] [(O, O)] 12)))), (skipn 15 (rev (wlog (run prog_ok false [] [(O, O)] 12)))).
  vm_compute. repeat split; tauto.
Qed.

(* the hypotheses of C06_quiescent_all_resumed are met by runs that do something: nested calls, a timeout *)
Example C06_ex_quiet :
  let w := run prog_raise_resumed false [] [(O, O)] 14 in
  queue w = [] /\ tasks w = [] /\ length (wsts w) = 2%nat /\
  forallb (fun s => match s_ph s, s_obj s with Armed, None => false | _, _ => true end) (wsts w) = true.
Proof. vm_compute. repeat split. Qed.
Example C06_ex_quiet_tmo :
  let w := run prog_tmo true [] [(O, O)] 14 in
  queue w = [] /\ tasks w = [] /\ length (wsts w) = 1%nat /\
  forallb (fun s => match s_ph s, s_obj s with Armed, None => false | _, _ => true end) (wsts w) = true.
Proof. vm_compute. repeat split. Qed.

(* ================================================================== several awaited channels (layer model Model/WaitChannels.v)
   One wait of waitEvent with a list [cs] of awaited channels, per channel one temporary handler for <name> and one for
   <name>_done, one generate_events handler; [reach cs obj tmo steps] is its state after ANY sequence of steps (dispatch of
   an event named <name> on any channels, dispatch of a <name>_done, generate_events, a pass over the tasks).
   [cmatch] is getHandlers' rule (handler channel '*', dispatch channel '*', or equal). *)
From Circ Require Import Model.WaitChannels Proofs.WaitChannelsP.

Theorem C06_mc_no_crash : forall cs obj tmo steps, w_crash (reach cs obj tmo steps) = false.
Proof. exact WaitChannelsP.no_crash. Qed.
Print Assumptions C06_mc_no_crash.

(* (1) an armed wait latches onto a dispatched event iff the event is dispatched on at least one awaited channel (and is
   the awaited object, if one was given); it latches onto exactly that event, removes its <name> temporaries on all
   channels, and an event that does not qualify leaves the state untouched; once latched, the event never changes -
   in particular an event matching several awaited channels, or a later one, does not latch a second time *)
Theorem C06_mc_latch : forall cs obj tmo steps eid dcs, let s := reach cs obj tmo steps in armed s ->
  let s' := do_step s (Dispatch eid dcs) in
  (w_run s' = true <-> awaited cs dcs = true /\ WaitChannels.obj_ok obj eid = true) /\
  (w_run s' = true -> w_event s' = Some eid /\ w_ev s' = []) /\
  (w_run s' = false -> s' = s).
Proof. exact latch_iff. Qed.
Print Assumptions C06_mc_latch.

Theorem C06_mc_latch_once : forall cs obj tmo steps e x, let s := reach cs obj tmo steps in
  w_event s = Some e -> w_event (do_step s x) = Some e.
Proof. exact latch_once. Qed.
Print Assumptions C06_mc_latch_once.

(* (2) the caller is resumed at most once (result and TimeoutError together), after which nothing of the wait is left ... *)
Theorem C06_mc_at_most_once : forall cs obj tmo steps, let s := reach cs obj tmo steps in
  (w_resumed s + w_thrown s <= 1)%nat /\
  ((w_resumed s + w_thrown s)%nat = 1%nat -> no_temporaries s /\ w_task_wait s = false /\ w_task_tmo s = false).
Proof. exact WaitChannelsP.at_most_once. Qed.
Print Assumptions C06_mc_at_most_once.

(* ... exactly once when the latched event finishes (its <name>_done goes to the event's channels, one of which is awaited) ... *)
Theorem C06_mc_result_exactly_once : forall cs obj tmo steps e dcs, let s := reach cs obj tmo steps in
  w_event s = Some e -> live s -> w_resumed s = O -> awaited cs dcs = true ->
  let s' := do_step (do_step s (DispatchDone e dcs)) RunTasks in
  w_resumed s' = 1%nat /\ w_thrown s' = O /\ no_temporaries s' /\ w_crash s' = false.
Proof. exact result_exactly_once. Qed.
Print Assumptions C06_mc_result_exactly_once.

(* ... and exactly once when the timeout expires, whether or not an event had been latched, timeout 0 included *)
Theorem C06_mc_timeout_exactly_once : forall cs obj tmo steps k, let s := reach cs obj tmo steps in
  live s -> w_resumed s = O -> w_timeout s = Z.of_nat k ->
  let s' := do_step (fold_left do_step (repeat Tick (S k)) s) RunTasks in
  w_thrown s' = 1%nat /\ w_resumed s' = O /\ no_temporaries s' /\ w_crash s' = false.
Proof. exact timeout_exactly_once. Qed.
Print Assumptions C06_mc_timeout_exactly_once.

(* (3) residue: while the wait is armed exactly the installed set remains (one <name> and one <name>_done temporary per
   awaited channel, the tick handler iff a timeout was given); on every exit path - result, timeout, pending TimeoutError -
   all temporaries on all channels are gone; a latched wait has no <name> temporary left *)
Theorem C06_mc_residue : forall cs obj tmo steps, let s := reach cs obj tmo steps in
  (armed s -> w_ev s = cs /\ w_done s = cs /\ w_tick s = (0 <=? tmo)) /\
  (w_resumed s = 1%nat \/ w_thrown s = 1%nat \/ w_task_tmo s = true -> no_temporaries s) /\
  (w_run s = true -> w_ev s = []).
Proof. exact WaitChannelsP.residue. Qed.
Print Assumptions C06_mc_residue.

(* three awaited channels a, b, c: an event on d is ignored, an event on (d, b) latches (once, although (b, '*') would
   match four ways), its <name>_done resumes the caller once and nothing is left; and the same wait with timeout 1
   and no matching event expires after two generate_events *)
Example C06_ex_mc_result :
  let s := reach [CNamed 0; CNamed 1; CNamed 2] None 5
             [Tick; Dispatch 7 [CNamed 3]; Dispatch 8 [CNamed 3; CNamed 1]; Dispatch 9 [CNamed 1; CStar]; Tick;
              RunTasks; DispatchDone 8 [CNamed 3; CNamed 1]; Tick; RunTasks; Tick; RunTasks] in
  w_event s = Some 8%nat /\ w_resumed s = 1%nat /\ w_thrown s = O /\ no_temporaries s /\ w_crash s = false.
Proof. vm_compute. repeat split. Qed.
Example C06_ex_mc_armed :
  let s := reach [CNamed 0; CNamed 1; CNamed 2] None 5 [Tick; Dispatch 7 [CNamed 3]; RunTasks] in
  armed s /\ w_ev s = [CNamed 0; CNamed 1; CNamed 2] /\ w_done s = [CNamed 0; CNamed 1; CNamed 2] /\ w_tick s = true.
Proof. vm_compute. repeat split. Qed.
Example C06_ex_mc_timeout :
  let s := reach [CNamed 0; CNamed 1; CNamed 2] None 1 [Tick; Dispatch 7 [CNamed 3]; RunTasks; Tick; RunTasks] in
  w_event s = None /\ w_thrown s = 1%nat /\ w_resumed s = O /\ no_temporaries s /\ w_crash s = false.
Proof. vm_compute. repeat split. Qed.
