(* C15 — every HTTP response is a well-formed, self-delimiting message with exact body.
   Only statements here; proofs live in Proofs/HttpResponseP.v.

   [cfg]      one response as the application left it: protocol, method, status, headers, body shape
              (sized list / iterator, stream flag) and body pieces, and the keep-alive wish (close0);
   [respond]  model of Response.prepare + HTTP._on_response/_on_stream: the write events and the close;
   [wire]     the concatenated bytes; [closed] whether the server closes the connection;
   [parse]    an independent HTTP/1.x client (status line, headers, body by HEAD/1xx/204/304 rule,
              chunked, Content-Length, or until close) returning the response and the unread rest;
   [wf]       header names/values, cookies and reason are free of CR (names of colon), the application sets
              neither Transfer-Encoding nor Connection itself, a Content-Length it sets on an iterator body
              is the true length, and 100 <= status <= 999.  (Nothing is assumed about the stream flag.) *)
From Coq Require Import String List NArith Bool.
From Circ Require Import Model.HttpResponse Proofs.HttpResponseP.
Import ListNotations.
Open Scope N_scope.

(* Every response parses back to exactly the status, reason, headers (application headers followed by the
   framing headers) and body bytes; the client stops exactly at the end of the response, whatever follows
   ([rest]); only a response that is delimited by the close must be the last thing on the connection. *)
Theorem C15_roundtrip : forall c rest, wf c = true -> (until_close c = true -> rest = []) ->
  parse (head c) (wire c ++ rest) = Some (expected c, rest).
Proof. exact roundtrip. Qed.
Print Assumptions C15_roundtrip.

(* every header the application put on the response (other than a Content-Length, which the server owns for
   sized bodies) and every cookie (as a Set-Cookie line) is among the recovered headers; the recovered body is
   the concatenation of the body pieces (none for HEAD and for 1xx/204/205/304) *)
Theorem C15_expected_is_app_data : forall c,
  (forall h, In h (pre c) -> ci_is k_cl (fst h) = false -> In h (p_headers (expected c))) /\
  (forall v, In v (cookies c) -> In (str "Set-Cookie", v) (p_headers (expected c))) /\
  p_status (expected c) = status c /\
  p_body (expected c) = if head c || nobody_status (status c) then [] else concat (chunks c).
Proof. exact expected_app_data. Qed.
Print Assumptions C15_expected_is_app_data.

(* Response.stream only matters for iterator bodies: a complete body (str, bytes, list, or the values of a
   generator handler that the core ran as a coroutine) goes out at once after the header block, flag or not *)
Theorem C15_sized_written_at_once : forall c, eff_sized c = true -> head c = false ->
  streamed c = false /\ wire c = head_bytes c ++ concat (eff_chunks c).
Proof. exact sized_written_at_once. Qed.
Print Assumptions C15_sized_written_at_once.

(* the connection is closed iff the response, as the client reads it, says so *)
Theorem C15_closed_iff_announced : forall c rest r rest', wf c = true -> (until_close c = true -> rest = []) ->
  parse (head c) (wire c ++ rest) = Some (r, rest') -> p_close r = closed c.
Proof. exact close_iff_announced. Qed.
Print Assumptions C15_closed_iff_announced.

(* HEAD, 1xx, 204, 205, 304: only status line and header block reach the wire *)
Theorem C15_no_body : forall c, wf c = true ->
  head c = true \/ nobody_status (status c) = true -> wire c = head_bytes c.
Proof. exact no_body_bytes. Qed.
Print Assumptions C15_no_body.

(* keep-alive wishes: a request that asked for close gets it; a keep-alive request keeps the connection
   whenever the body can be delimited without closing (known length, or chunked to an HTTP/1.1 GET) *)
Theorem C15_close_wish : forall c, wf c = true -> close0 c = true -> closed c = true.
Proof. exact close_wish_honoured. Qed.
Print Assumptions C15_close_wish.

Theorem C15_keep_alive_kept : forall c, wf c = true -> close0 c = false -> status c <> 413 ->
  has_cl c = true \/ (v11 c = true /\ head c = false) -> closed c = false.
Proof. exact keep_alive_kept. Qed.
Print Assumptions C15_keep_alive_kept.

(* HEAD (with a known length) and body-less statuses never end a kept-alive connection by themselves *)
Theorem C15_bodiless_keeps_open : forall c, wf c = true -> close0 c = false -> status c <> 413 ->
  nobody_status (status c) = true \/ (head c = true /\ has_cl c = true) -> closed c = false.
Proof. exact bodiless_keeps_open. Qed.
Print Assumptions C15_bodiless_keeps_open.

(* chunked encoding is only used towards HTTP/1.1, never for HEAD, never together with Content-Length *)
Theorem C15_chunked_only_11 : forall c, chunked c = true -> v11 c = true /\ head c = false /\ cl_hdr c = None.
Proof. exact chunked_only_11. Qed.
Print Assumptions C15_chunked_only_11.

(* whichever Content-Length ends up on a non-HEAD response - the server's count, or the application's own
   header on an iterator body (wf: it told the truth) - the client reads it and it is the number of body bytes;
   for sized bodies the server's count replaces whatever the application set *)
Theorem C15_content_length_exact : forall c v, wf c = true -> head c = false -> cl_hdr c = Some v ->
  lookup k_cl (p_headers (expected c)) = Some v /\
  undec v = Some (N.of_nat (length (concat (eff_chunks c)))).
Proof. exact content_length_exact. Qed.
Print Assumptions C15_content_length_exact.

Theorem C15_sized_overrides_app_cl : forall c, eff_sized c = true ->
  cl_hdr c = Some (dec (N.of_nat (length (concat (eff_chunks c))))).
Proof. exact sized_overrides_app_cl. Qed.
Print Assumptions C15_sized_overrides_app_cl.

(* any sequence of requests on one connection, each response but the last leaving it open: the client reads
   the concatenated output as exactly the sequence of responses, with nothing left over.  [cs] is arbitrary:
   HEAD requests, body-less statuses, streamed and sized bodies, cookies and application Content-Length may be
   interleaved in any order (C15_ex_seq is such a sequence; C15_bodiless_keeps_open says those never break it) *)
Theorem C15_keepalive_sequence : forall cs, conn_ok cs = true ->
  parse_many (map head cs) (concat (map wire cs)) = Some (map expected cs).
Proof. exact keepalive_sequence. Qed.
Print Assumptions C15_keepalive_sequence.

(* codecs used for Content-Length and chunk sizes *)
Theorem C15_dec_roundtrip : forall n, undec (dec n) = Some n.
Proof. exact undec_dec. Qed.
Print Assumptions C15_dec_roundtrip.

Theorem C15_hex_roundtrip : forall n, unhex (hex n) = Some n.
Proof. exact unhex_hex. Qed.
Print Assumptions C15_hex_roundtrip.

(* bodies that have a read() method (files, pipes, sockets, decompressors; wrappers.file_generator):
   [file_gen reads] are the body pieces when successive read() calls return [reads].  The pieces are exactly
   what was read before the first empty result - short reads do not end the body - so a source that hands out
   [data] in reads of any positive sizes ([caps], each at most the chunk size n) is delivered completely;
   with C15_roundtrip (chunks := file_gen reads) the client then recovers exactly those bytes. *)
Theorem C15_stream_until_empty_read : forall a b, forallb nonempty a = true -> file_gen (a ++ [] :: b) = a.
Proof. exact file_gen_until_empty. Qed.
Print Assumptions C15_stream_until_empty_read.

Theorem C15_stream_all_reads : forall reads, forallb nonempty reads = true -> file_gen reads = reads.
Proof. exact file_gen_all. Qed.
Print Assumptions C15_stream_all_reads.

Theorem C15_stream_short_reads_complete : forall fuel n caps data, (0 < n)%nat -> (length data < fuel)%nat ->
  concat (file_gen (src_reads fuel n caps data)) = data.
Proof. exact file_gen_src_reads. Qed.
Print Assumptions C15_stream_short_reads_complete.

(* ---- non-vacuity *)
Definition ex_stream : cfg :=
  {| v11 := true; head := false; status := 200; reason := str "OK"; close0 := false;
     pre := [(str "X-Tag", str "7")]; cookies := [str "a=1"]; sized := false; stream := true;
     chunks := [[]; str "abc"; []; str "de"] |}.
Definition ex_head : cfg :=
  {| v11 := true; head := true; status := 200; reason := str "OK"; close0 := false;
     pre := []; cookies := []; sized := true; stream := false; chunks := [str "hello"] |}.
Definition ex_204 : cfg :=
  {| v11 := true; head := false; status := 204; reason := str "No Content"; close0 := false;
     pre := []; cookies := []; sized := true; stream := false; chunks := [str "dropped"] |}.
Definition ex_10_iter : cfg :=
  {| v11 := false; head := false; status := 200; reason := str "OK"; close0 := false;
     pre := []; cookies := []; sized := false; stream := false; chunks := [str "a"; str "b"] |}.

(* a file served with the application's own Content-Length (as tools.serve_file does) and two cookies,
   on HTTP/1.0 keep-alive: delimited by that header, connection stays open *)
Definition ex_file_cl : cfg :=
  {| v11 := false; head := false; status := 200; reason := str "OK"; close0 := false;
     pre := [(str "Content-Length", str "5"); (str "X-Tag", str "1")]; cookies := [str "a=1"; str "c=x; Path=/"];
     sized := false; stream := true; chunks := [str "abc"; str "de"] |}.
(* the same header on a sized body is overwritten *)
Definition ex_sized_cl : cfg :=
  {| v11 := true; head := false; status := 200; reason := str "OK"; close0 := false;
     pre := [(str "Content-Length", str "999")]; cookies := []; sized := true; stream := false; chunks := [str "hello"] |}.

(* a handler that sets Response.stream and returns a list (or a generator run as a coroutine) *)
Definition ex_stream_list : cfg :=
  {| v11 := true; head := false; status := 200; reason := str "OK"; close0 := false;
     pre := []; cookies := []; sized := true; stream := true; chunks := [str "ab"; str "cd"] |}.
Example C15_ex_stream_list :
  wf ex_stream_list = true /\
  match respond ex_stream_list with Out (_ :: body) cl => body = [str "abcd"] /\ cl = false | _ => False end /\
  option_map (fun p => p_body (fst p)) (parse false (wire ex_stream_list)) = Some (str "abcd").
Proof. vm_compute. repeat split. Qed.

Example C15_ex_wf : forallb wf [ex_stream; ex_head; ex_204; ex_10_iter; ex_file_cl; ex_sized_cl] = true.
Proof. vm_compute. reflexivity. Qed.
Example C15_ex_stream_wire :
  match respond ex_stream with
  | Out (_ :: body) cl => body = [str "3" ++ crlf ++ str "abc" ++ crlf; str "2" ++ crlf ++ str "de" ++ crlf; term] /\ cl = false
  | _ => False
  end.
Proof. vm_compute. split; reflexivity. Qed.
Example C15_ex_until_close : until_close ex_10_iter = true /\ closed ex_10_iter = true /\ chunked ex_stream = true.
Proof. vm_compute. repeat split. Qed.
Example C15_ex_app_cl : cl_hdr ex_file_cl = Some (str "5") /\ closed ex_file_cl = false /\ chunked ex_file_cl = false
  /\ cl_hdr ex_sized_cl = Some (str "5").
Proof. vm_compute. repeat split. Qed.
Example C15_ex_seq : conn_ok [ex_head; ex_204; ex_file_cl; ex_head; ex_stream; ex_sized_cl; ex_204; ex_10_iter] = true.
Proof. vm_compute. reflexivity. Qed.
Example C15_ex_seq_parse :
  option_map (map p_body) (parse_many [true; false; false; true; false; false; false; false]
     (concat (map wire [ex_head; ex_204; ex_file_cl; ex_head; ex_stream; ex_sized_cl; ex_204; ex_10_iter])))
  = Some [[]; []; str "abcde"; []; str "abcde"; str "hello"; []; str "ab"].
Proof. vm_compute. reflexivity. Qed.

(* a pipe-like source: 10 bytes handed out as 3 + 1 + 4 (chunk size) + 2, then the empty read *)
Example C15_ex_short_reads :
  src_reads 20 4 [3; 1; 0; 7]%nat (str "0123456789") = [str "012"; str "3"; str "4567"; str "89"; []]
  /\ file_gen (src_reads 20 4 [3; 1; 0; 7]%nat (str "0123456789")) = [str "012"; str "3"; str "4567"; str "89"].
Proof. vm_compute. split; reflexivity. Qed.
Definition ex_pipe : cfg :=
  {| v11 := true; head := false; status := 200; reason := str "OK"; close0 := false;
     pre := []; cookies := []; sized := false; stream := true;
     chunks := file_gen (src_reads 20 4 [3; 1; 0; 7]%nat (str "0123456789")) |}.
Example C15_ex_pipe : wf ex_pipe = true /\
  option_map (fun p => p_body (fst p)) (parse false (wire ex_pipe)) = Some (str "0123456789").
Proof. vm_compute. split; reflexivity. Qed.
