(* C15 — every HTTP response is a well-formed, self-delimiting message with exact body.
   Only statements here; proofs live in Proofs/HttpResponseP.v. *)
From Coq Require Import String List NArith Bool.
From Circ Require Import Model.HttpResponse Proofs.HttpResponseP.
Import ListNotations.
Open Scope N_scope.

Theorem C15_dec_roundtrip : forall n, undec (dec n) = Some n.
Proof. exact undec_dec. Qed.
Print Assumptions C15_dec_roundtrip.
