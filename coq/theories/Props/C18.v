(* C18 — Line protocol is segmentation-invariant; IRC messages are exactly one line.
   Only statements here; proofs live in Proofs/LineP.v, Proofs/LineTotalP.v, Proofs/IrcP.v, Proofs/IrcStreamP.v and
   Proofs/IrcRoundP.v. *)
From Coq Require Import List NArith.
From Circ Require Import Model.Line Model.Irc Proofs.LineP Proofs.LineTotalP Proofs.IrcP Proofs.IrcStreamP Proofs.IrcRoundP.
Import ListNotations.
Open Scope N_scope.

(* every cut of a byte stream into reads yields the lines of the whole stream;
   the unterminated tail is held *)
Theorem C18_lines : forall chunks : list (list N),
  run [] chunks = (removelast (resplit (concat chunks)), last (resplit (concat chunks)) []).
Proof. exact lines_segmentation. Qed.
Print Assumptions C18_lines.

Theorem C18_lines_cut_independent : forall cs1 cs2 : list (list N),
  concat cs1 = concat cs2 -> run [] cs1 = run [] cs2.
Proof. exact lines_segmentation_eq. Qed.
Print Assumptions C18_lines_cut_independent.

(* independent description of "the lines contained in the stream":
   line_1 t_1 ... line_n t_n tail, t_i in {LF, CRLF} *)
Theorem C18_lines_exact : forall ls tail chunks, wf_lines ls -> noLF tail ->
  concat chunks = join_lines ls tail -> run [] chunks = (map fst ls, tail).
Proof. exact lines_exact. Qed.
Print Assumptions C18_lines_exact.

(* the independent description is total and unambiguous: every stream has
   exactly one well-formed description, so C18_lines_exact speaks about every
   stream ... *)
Theorem C18_stream_decomposes : forall s : list N,
  exists ls tail, wf_lines ls /\ noLF tail /\ s = join_lines ls tail.
Proof. exact stream_decomposes. Qed.
Print Assumptions C18_stream_decomposes.

Theorem C18_decomposition_unique : forall ls1 t1 ls2 t2,
  wf_lines ls1 -> noLF t1 -> wf_lines ls2 -> noLF t2 ->
  join_lines ls1 t1 = join_lines ls2 t2 -> map fst ls1 = map fst ls2 /\ t1 = t2.
Proof. exact decomposition_unique. Qed.
Print Assumptions C18_decomposition_unique.

(* ... and conservation: for every cut of every stream, the emitted lines, each
   followed by the terminator it had, followed by the held tail, are exactly
   the bytes received (no byte lost, invented or reordered) *)
Theorem C18_lines_conserve : forall chunks : list (list N),
  exists ls tail, wf_lines ls /\ noLF tail /\
    run [] chunks = (map fst ls, tail) /\ concat chunks = join_lines ls tail.
Proof. exact lines_conserve. Qed.
Print Assumptions C18_lines_conserve.

(* server mode: the lines and held tail of socket k depend only on k's reads *)
Theorem C18_isolation : forall k evs,
  (projl k (fst (run_srv empty_bufs evs)), snd (run_srv empty_bufs evs) k) = run [] (proj k evs).
Proof. exact server_isolation. Qed.
Print Assumptions C18_isolation.

(* ... and per-socket conservation under every interleaving of sockets *)
Theorem C18_server_conserve : forall (k : nat) (evs : list (nat * list N)),
  exists ls tail, wf_lines ls /\ noLF tail /\
    projl k (fst (run_srv empty_bufs evs)) = map fst ls /\
    snd (run_srv empty_bufs evs) k = tail /\
    concat (proj k evs) = join_lines ls tail.
Proof. exact server_conserve. Qed.
Print Assumptions C18_server_conserve.

(* every accepted IRC message is exactly one CRLF-terminated line without CR, LF, NUL inside *)
Theorem C18_one_line : forall m b, to_str m = Some b ->
  exists body, b = body ++ [13; 10] /\ clean body.
Proof. exact one_line. Qed.
Print Assumptions C18_one_line.

Theorem C18_one_line_protocol : forall m b, to_str m = Some b ->
  exists body, run [] [b] = ([body], []) /\ b = body ++ [13; 10].
Proof. exact one_line_protocol. Qed.
Print Assumptions C18_one_line_protocol.

(* a stream of any number of accepted messages, cut into reads in any way, is
   received as exactly one line per message, in order, nothing held back *)
Theorem C18_message_stream : forall (ms : list msg) (bs chunks : list (list N)),
  Forall2 (fun m b => to_str m = Some b) ms bs ->
  concat chunks = concat bs ->
  exists bodies, run [] chunks = (bodies, []) /\
                 Forall2 (fun b body => b = body ++ [13; 10] /\ clean body) bs bodies.
Proof. exact message_stream. Qed.
Print Assumptions C18_message_stream.

(* ... and in server mode for the messages arriving on one socket, whatever the other sockets receive in between *)
Theorem C18_server_message_stream : forall (k : nat) (evs : list (nat * list N)) (ms : list msg) (bs : list (list N)),
  Forall2 (fun m b => to_str m = Some b) ms bs ->
  concat (proj k evs) = concat bs ->
  exists bodies, projl k (fst (run_srv empty_bufs evs)) = bodies /\
                 snd (run_srv empty_bufs evs) k = [] /\
                 Forall2 (fun b body => b = body ++ [13; 10] /\ clean body) bs bodies.
Proof. exact server_message_stream. Qed.
Print Assumptions C18_server_message_stream.

(* non-vacuity *)
Example C18_ex_stream :
  run [] [[49; 13]; [10; 50; 10; 13]; [51]] = ([[49]; [50]], [13; 51]).
Proof. vm_compute. reflexivity. Qed.
Example C18_ex_msg :
  to_str {| command := [80; 73]; prefix := Some [97]; args := [[120]; [104; 32; 105]] |}
  = Some [58; 97; 32; 80; 73; 32; 120; 32; 58; 104; 32; 105; 13; 10].
Proof. vm_compute. reflexivity. Qed.

(* round trip, partial: parsemsg inverts to_str on canonical messages, i.e. the
   command and every argument but the last are tokens (non-empty, no whitespace,
   no leading ':'), and the last argument is a token or contains a space and
   does not start with ':' *)
Theorem C18_roundtrip_partial : forall m b, to_str m = Some b -> canonical m ->
  exists body, b = body ++ [13; 10] /\
    parsemsg body = POk (match prefix m with Some p => p | None => [] end)
                        (Some (command m)) (args m).
Proof. exact roundtrip. Qed.
Print Assumptions C18_roundtrip_partial.

(* ... and not in general: an accepted message whose parse differs from it *)
Theorem C18_roundtrip_refuted : exists m b body,
  to_str m = Some b /\ b = body ++ [13; 10] /\
  parsemsg body <> POk (match prefix m with Some p => p | None => [] end)
                       (Some (command m)) (args m).
Proof. exact roundtrip_refuted. Qed.
Print Assumptions C18_roundtrip_refuted.

(* non-vacuity of canonical:  ":nick PRIVMSG #c x :h i" *)
Example C18_ex_canonical :
  canonical {| command := [80; 82; 73; 86; 77; 83; 71]; prefix := Some [110; 105; 99; 107];
               args := [[35; 99]; [120]; [104; 32; 105]] |}.
Proof.
  split; [|split; [right; split; reflexivity|]];
    repeat first [ constructor | discriminate | reflexivity ].
Qed.
Example C18_ex_roundtrip :
  parsemsg [58; 110; 105; 99; 107; 32; 80; 82; 73; 86; 77; 83; 71; 32; 35; 99; 32; 120;
            32; 58; 104; 32; 105]
  = POk [110; 105; 99; 107] (Some [80; 82; 73; 86; 77; 83; 71]) [[35; 99]; [120]; [104; 32; 105]].
Proof. vm_compute. reflexivity. Qed.
