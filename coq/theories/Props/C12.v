(* C12 — every connection: one connect, ordered reads, one disconnect, then no trace.
   Only statements here; the model is Model/ServerConn.v (the Server/Client code after fixes/C12_*.patch),
   proofs are in Proofs/ServerConnP.v.

   A history [h : list stim] is ANY sequence of handler invocations the Server component receives, each with
   the answer of the kernel to the call the handler makes: accepts, readable/writable/hang-up reports of the
   poller (also stale or spurious ones), recv() results (data, EOF, EWOULDBLOCK, error), send() results
   (partial, transient, fatal), write(sock, data) and close(sock) requests — also for sockets that were
   disconnected long ago.  [hm] says whether the poller keeps a fileno map (Poll/EPoll: true, Select: false).
   The only hypothesis: accept() never returns the same socket object twice, [NoDup (accepted h)]. *)
From Coq Require Import List NArith Arith Bool.
From Circ Require Import Model.ServerConn Proofs.ServerConnP.
Import ListNotations.

(* Per socket the observers' view is a run of the automaton  connect . read* . error? . disconnect :
   nothing before the accept, `PLive` exactly while the socket is in _clients, `PDead` (one disconnect seen,
   nothing after it, or the automaton would be in PBad) for ever after — for every socket whose peer had not
   already reset before accept() (complement: C12_automaton_refuted, known finding C12-reset-before-accept). *)
Theorem C12_automaton_partial : forall hm h s, NoDup (accepted h) -> ~ In s (gone h) ->
  phase_of s (snd (run hm h)) =
  if mem s (accepted h) then if mem s (clients (fst (run hm h))) then PLive else PDead else PNone.
Proof. exact automaton. Qed.
Print Assumptions C12_automaton_partial.

(* the same in list terms: whatever an observer sees for s starts with connect(s), and nothing follows disconnect(s) *)
Theorem C12_connect_first : forall hm h s e rest, NoDup (accepted h) -> ~ In s (gone h) ->
  proj s (snd (run hm h)) = e :: rest -> e = EConnect s.
Proof. exact connect_first. Qed.
Print Assumptions C12_connect_first.

Theorem C12_nothing_after_disconnect : forall hm h s pre post, NoDup (accepted h) -> ~ In s (gone h) ->
  proj s (snd (run hm h)) = pre ++ EDisconnect s :: post -> post = [].
Proof. exact nothing_after_disconnect. Qed.
Print Assumptions C12_nothing_after_disconnect.

(* full statement (without "~ In s (gone h)") is false for the code as it is: a connection reset before
   accept() is reported as error + disconnect without a connect *)
Theorem C12_automaton_refuted :
  exists h, NoDup (accepted h) /\ phase_of 0 (snd (run true h)) = PBad.
Proof. exact automaton_refuted. Qed.
Print Assumptions C12_automaton_refuted.

(* read events = what recv() returned, chunk by chunk, same order, nothing lost, nothing twice, nothing else *)
Theorem C12_reads_exact : forall hm h s, NoDup (accepted h) ->
  reads s (snd (run hm h)) = recvd s (snd (run hm h)).
Proof. exact reads_exact. Qed.
Print Assumptions C12_reads_exact.

(* exactly one disconnect per accepted socket, fired when it leaves _clients; none otherwise — all sockets *)
Theorem C12_disconnect_once : forall hm h s, NoDup (accepted h) ->
  count (is_disc s) (snd (run hm h)) =
  if mem s (accepted h) && negb (mem s (clients (fst (run hm h)))) then 1 else 0.
Proof. exact disconnect_once. Qed.
Print Assumptions C12_disconnect_once.

Theorem C12_connect_once : forall hm h s, NoDup (accepted h) ->
  count (is_conn s) (snd (run hm h)) = if mem s (accepted h) && negb (mem s (gone h)) then 1 else 0.
Proof. exact connect_once. Qed.
Print Assumptions C12_connect_once.

(* no trace: once disconnect(s) has been fired, s is in none of _clients, _buffers, _closeq, poller _read,
   _write, _targets, _map — after ANY continuation of the history (late writes, late closes, stale poller
   events for s included, since h is arbitrary) *)
Theorem C12_no_trace : forall hm h s, NoDup (accepted h) ->
  In (OEv (EDisconnect s)) (snd (run hm h)) -> no_state s (fst (run hm h)).
Proof. exact no_trace. Qed.
Print Assumptions C12_no_trace.

(* stronger form: at every moment every key of every table is a live client *)
Theorem C12_tables_live : forall hm h s, NoDup (accepted h) ->
  let x := fst (run hm h) in
  In s (map fst x.(bufs)) \/ In s x.(closeq) \/ In s x.(rd) \/ In s x.(wr) \/ In s x.(tg) \/ In s x.(mp) ->
  In s x.(clients) /\ In s (accepted h).
Proof. exact tables_live. Qed.
Print Assumptions C12_tables_live.

(* liveness relative to the stimuli: the very step that processes a terminal stimulus for a live socket s —
   recv() error, EOF or close(s) with nothing buffered, a send() that fails fatally, the poller's hang-up, or
   the flush of the last buffered payload when a close was deferred (Model.terminal) — fires disconnect(s)
   and leaves s in no table.  With C12_disconnect_once: exactly one disconnect, and it comes at that step. *)
Theorem C12_disconnect_follows : forall hm h s i, NoDup (accepted h) ->
  In s (clients (fst (run hm h))) -> terminal s (fst (run hm h)) i = true ->
  In (OEv (EDisconnect s)) (snd (step hm (fst (run hm h)) i)) /\ no_state s (fst (step hm (fst (run hm h)) i)).
Proof. exact disconnect_follows. Qed.
Print Assumptions C12_disconnect_follows.

(* EOF or close(s) while output is buffered: s is queued in _closeq with its buffer intact (then the flush of the
   last payload, or any error, is terminal) *)
Theorem C12_deferred_close : forall hm h s i, NoDup (accepted h) ->
  In s (clients (fst (run hm h))) -> deferring s (fst (run hm h)) i = true ->
  In s (closeq (fst (step hm (fst (run hm h)) i))) /\ In s (clients (fst (step hm (fst (run hm h)) i))) /\
  bget s (bufs (fst (step hm (fst (run hm h)) i))) = bget s (bufs (fst (run hm h))).
Proof. exact deferred_close. Qed.
Print Assumptions C12_deferred_close.

(* many connections at once: whatever happens on other sockets (any number of them, any stimuli, from any
   state x) leaves the table rows of s, the events observers see for s and the kernel calls made on s unchanged *)
Theorem C12_isolation : forall hm s h x acc, Forall (fun i => touches s i = false) h ->
  row_of s (fst (run_from hm x acc h)) = row_of s x /\
  proj s (snd (run_from hm x acc h)) = proj s acc /\
  calls s (snd (run_from hm x acc h)) = calls s acc.
Proof. exact isolation. Qed.
Print Assumptions C12_isolation.

(* close() of the whole server, in any reachable state: the listening socket is down afterwards (its disconnect is
   reported iff it was still open), every client with nothing buffered gets its disconnect in this step and leaves
   no trace, every other client is queued for a deferred close, no client appears, closed() is fired *)
Theorem C12_close_all : forall hm h, NoDup (accepted h) ->
  let x := fst (run hm h) in
  let r := step hm x SCloseAll in
  lis (fst r) = false /\
  (forall s, In s (clients x) -> bget s (bufs x) = [] ->
             In (OEv (EDisconnect s)) (snd r) /\ no_state s (fst r)) /\
  (forall s, In s (clients x) -> bget s (bufs x) <> [] -> In s (clients (fst r)) /\ In s (closeq (fst r))) /\
  (forall s, In s (clients (fst r)) -> In s (clients x)) /\
  In (OSrv VClosed) (snd r) /\ (In (OSrv VListenDown) (snd r) <-> lis x = true).
Proof. exact close_all_spec. Qed.
Print Assumptions C12_close_all.

(* "whichever poller": what Poll / EPoll make of one kernel report (Model.pemit, tied to the real pollers by
   scripted poll results) never puts the hang-up before readable input: with IN set no _disconnect is emitted for
   the report, and the server's first reaction is the recv() and the read event carrying its data *)
Theorem C12_hangup_after_reads : forall hm h s eout ehup d w, NoDup (accepted h) ->
  In s (clients (fst (run hm h))) -> d <> [] ->
  forallb (fun i => negb (is_hangup_stim i)) (pemit s true eout ehup (RData d) w) = true /\
  exists post, snd (run_from hm (fst (run hm h)) [] (pemit s true eout ehup (RData d) w))
               = OCall (CRecv s (RData d)) :: OEv (ERead s d) :: post.
Proof. exact hangup_after_reads. Qed.
Print Assumptions C12_hangup_after_reads.

(* clients: #connected = #disconnected (+1 while connected), for every history of connect results, recv/send
   outcomes, poller hang-ups, writes and closes (also after the disconnect) in which connect is not requested
   while connected *)
Theorem C12_client_balance_partial : forall h, connect_when_down cinit h = true ->
  count is_kconn (snd (crun h)) = count is_kdisc (snd (crun h)) + b2n (conn (fst (crun h))).
Proof. exact client_balance. Qed.
Print Assumptions C12_client_balance_partial.

Theorem C12_client_balance_refuted :
  exists h, count is_kconn (snd (crun h)) = 2 /\ count is_kdisc (snd (crun h)) = 0.
Proof. exact client_balance_refuted. Qed.
Print Assumptions C12_client_balance_refuted.

(* after `disconnected` (code after fixes/C12_client_late_write.patch), for EVERY history: while the socket object is
   closed the client is not connected, buffers nothing and has no deferred close ... *)
Theorem C12_client_closed_clean : forall h, sopen (fst (crun h)) = false -> cdown (fst (crun h)).
Proof. exact client_closed_clean. Qed.
Print Assumptions C12_client_closed_clean.

(* ... the step that reports `disconnected` is the one that closes the socket and clears everything ... *)
Theorem C12_client_disconnected_closes : forall x i, In KDisconnected (snd (cstep x i)) ->
  sopen (fst (cstep x i)) = false /\ cdown (fst (cstep x i)).
Proof. exact cstep_disc_closes. Qed.
Print Assumptions C12_client_disconnected_closes.

(* ... and every late request (write, close, stale poller event) changes nothing, sends nothing, announces nothing *)
Theorem C12_client_late_requests_inert : forall h i, sopen (fst (crun h)) = false ->
  match i with KConnect _ _ => False | _ => True end ->
  fst (cstep (fst (crun h)) i) = fst (crun h) /\
  (forall e, In e (snd (cstep (fst (crun h)) i)) -> is_ksend e = false /\ is_kconn e = false /\ is_kdisc e = false).
Proof. exact client_late_requests_inert. Qed.
Print Assumptions C12_client_late_requests_inert.

(* non-vacuity: a history satisfying the hypotheses that goes through accept, reads, a partial send, a
   deferred close, a reset while writing, and late write / close / poller events to the dead socket *)
Definition ex_h : list stim :=
  [SAccept 0; SAccept 1; SRead 0 (RData [104; 105]%N); SWrite 0 20000%N; SWritable 0 (WAcc 9088%N);
   SClose 0; SRead 1 (RData [1]%N); SRead 0 RErr; SWritable 0 WTrans; SWrite 0 5%N; SClose 0; SDisc 0;
   SRead 0 (RData [9]%N); SAcceptGone 2; SWrite 2 1%N; SAccept 3; SWrite 3 7%N; SCloseAll; SCloseAll].
Example C12_ex_hyps : NoDup (accepted ex_h) /\ ~ In 0 (gone ex_h).
Proof. split. repeat constructor; simpl; intuition discriminate. simpl. intuition discriminate. Qed.
Example C12_ex_view :
  proj 0 (snd (run true ex_h)) = [EConnect 0; ERead 0 [104; 105]%N; EError 0; EDisconnect 0]
  /\ phase_of 0 (snd (run true ex_h)) = PDead
  /\ phase_of 1 (snd (run true ex_h)) = PDead
  /\ fst (run true ex_h) = mk [3] [(3, [7%N])] [3] [3] [3] [3] [3] false
  /\ count (fun o => match o with OSrv VListenDown => true | _ => false end) (snd (run true ex_h)) = 1
  /\ count (fun o => match o with OSrv VClosed => true | _ => false end) (snd (run true ex_h)) = 2.
Proof. vm_compute. repeat split; auto. Qed.
Definition ex_c : list cstim :=
  [KConnect true false; KWrite 10%N; KClose; KWritable (WAcc 4%N) false; KRead RErr;
   KWrite 5%N; KClose; KWritable WTrans false; KRead RErr;          (* late requests: inert *)
   KConnect false false; KConnect true true; KRead REof; KWrite 3%N].
(* hypotheses of C12_disconnect_follows / C12_deferred_close / C12_isolation are satisfiable *)
Example C12_ex_terminal :
  let x := fst (run true [SAccept 0; SAccept 1; SWrite 1 9%N]) in
  terminal 0 x (SRead 0 REof) = true /\ terminal 1 x (SWritable 1 WFatal) = true
  /\ deferring 1 x (SClose 1) = true
  /\ terminal 1 (fst (step true x (SClose 1))) (SWritable 1 (WAcc 9%N)) = true
  /\ Forall (fun i => touches 0 i = false) [SRead 1 REof; SWrite 1 3%N; SAccept 2; SClose 2; SSnap].
Proof. vm_compute. repeat split; auto. repeat constructor. Qed.
Example C12_ex_pemit :
  pemit 0 true true true (RData [1%N]) WTrans = [SRead 0 (RData [1%N]); SWritable 0 WTrans]
  /\ pemit 0 false true true RWould WTrans = [SDrop 0; SDisc 0].
Proof. vm_compute. auto. Qed.
Example C12_ex_client :
  connect_when_down cinit ex_c = true
  /\ snd (crun ex_c) = [KConnected; KSend 10%N; KErr; KDisconnected; KErr; KConnected; KDisconnected]
  /\ fst (crun ex_c) = cmk false [] false false.
Proof. vm_compute. repeat split; auto. Qed.
