(* C14 — any bytes on an HTTP connection: wait, exactly one valid (error) response, or close;
   never a crash; nothing retained after disconnect.
   Only statements here; the proofs live in Proofs/HttpRobustP.v, the model in Model/HttpRobust.v.
   "Any bytes" enters the model as "any answer of every partial operation on the read path":
   each theorem is quantified over all [answers] records (every oracle may say [Raise]), all
   connection states [c] and, where histories matter, all operation lists. *)
From Coq Require Import List NArith ZArith Bool.
From Circ Require Import Model.HttpRobust Proofs.HttpRobustP.
Import ListNotations.
Open Scope N_scope.

(* One read event, processed until the component's own events have settled, produces exactly one of:
   nothing (waits) | close | reject+one response that says close+close (status 301/400/500/505)
   | dispatch+one response (+close iff it says close).  Status-line versions are 1.0 or 1.1. *)
Theorem C14_outcome : forall secure c a, shape (effs_of (read_conn secure c a)).
Proof. exact read_shape. Qed.
Print Assumptions C14_outcome.

(* no internal inconsistency (del of an absent table key) and the self-fired events always settle *)
Theorem C14_never_crash : forall secure c a,
  ~ In ECrash (effs_of (read_conn secure c a)) /\ ~ In EOutOfFuel (effs_of (read_conn secure c a)).
Proof. exact never_crash. Qed.
Print Assumptions C14_never_crash.

Theorem C14_one_response : forall secure c a, (n_writes (effs_of (read_conn secure c a)) <= 1)%nat.
Proof. exact one_response. Qed.
Print Assumptions C14_one_response.

(* a rejected message is never dispatched, is answered with 301/400/500/505, and the connection is closed *)
Theorem C14_rejected_not_dispatched : forall secure c a code,
  In (EReject code) (effs_of (read_conn secure c a)) ->
  ~ In EDispatch (effs_of (read_conn secure c a))
  /\ In code [301; 400; 500; 505]
  /\ exists v hd, okver v /\ effs_of (read_conn secure c a) = [EReject code; EWrite code v true hd; EClose].
Proof. exact rejected_not_dispatched. Qed.
Print Assumptions C14_rejected_not_dispatched.

(* a response that says close is directly followed by the close, and nothing else *)
Theorem C14_close_when_said : forall secure c a st v hd,
  In (EWrite st v true hd) (effs_of (read_conn secure c a)) ->
  exists pre, effs_of (read_conn secure c a) = pre ++ [EWrite st v true hd; EClose].
Proof. exact close_when_said. Qed.
Print Assumptions C14_close_when_said.

(* the status line never carries a version other than HTTP/1.0 or HTTP/1.1, whatever the request said *)
Theorem C14_version_spoken : forall secure c a st v cl hd,
  In (EWrite st v cl hd) (effs_of (read_conn secure c a)) -> v = (1, 0) \/ v = (1, 1).
Proof. exact version_spoken. Qed.
Print Assumptions C14_version_spoken.

(* a parser error before the end of the headers: 400, close, and both tables empty for the socket -- also
   when the rejected message is a HEAD request, whose throw-away Request was never put into _clients *)
Theorem C14_parser_error_reported : forall secure c a f e v hd,
  buf c = true \/ a_ssl a = Ret false ->
  a_exec a = Ret f -> hc f = false -> perrno f = Some e -> a_errreq a = Ret (v, hd) ->
  effs_of (read_conn secure c a)
  = [EReject 400; EWrite 400 (resp_version (match e with BadFirstLine => (1, 1) | _ => v end)) true
                         (match e with BadFirstLine => false | _ => hd end); EClose]
  /\ conn_of (read_conn secure c a) = empty_conn.
Proof. exact parser_error_reported. Qed.
Print Assumptions C14_parser_error_reported.

(* whichever oracle raises on the read path: 500 + close, or (the exception handler's own Request
   constructor raising as well) silence *)
Theorem C14_raise_answered : forall secure c a,
  hres_of (on_read secure c a) = HRaise ->
  effs_of (read_conn secure c a)
  = match a_excreq a with Raise => [] | Ret _ => [EReject 500; EWrite 500 (1, 1) true false; EClose] end.
Proof. exact raise_answered. Qed.
Print Assumptions C14_raise_answered.

(* a request event implies that the message passed every test: headers complete, Content-Length parsed and
   not negative, body complete when one is announced, Host present unless HTTP/1.0, canonical path, and
   (for a request built by this read) major version 1 *)
Theorem C14_dispatch_sound : forall secure c a,
  In EDispatch (effs_of (read_conn secure c a)) ->
  exists ri, accepted (if buf c then c else set_buf c true) a ri.
Proof. exact dispatch_sound. Qed.
Print Assumptions C14_dispatch_sound.

(* a response that does not close belongs to a dispatched request, and it leaves both tables without the socket: the next
   message on the open connection is parsed afresh (every answer the component makes itself closes) *)
Theorem C14_open_means_clean : forall secure c a st v hd,
  In (EWrite st v false hd) (effs_of (read_conn secure c a)) ->
  In EDispatch (effs_of (read_conn secure c a)) /\ conn_of (read_conn secure c a) = empty_conn.
Proof. exact open_means_clean. Qed.
Print Assumptions C14_open_means_clean.

(* histories over any number of connections *)
Theorem C14_released : forall secure h s t, fst (run secure t (h ++ [Disc s])) s = empty_conn.
Proof. exact released. Qed.
Print Assumptions C14_released.

Theorem C14_stays_released : forall secure h h' s t,
  (forall o, In o h' -> op_sock o <> s) ->
  fst (run secure t (h ++ [Disc s] ++ h')) s = empty_conn.
Proof. exact stays_released. Qed.
Print Assumptions C14_stays_released.

Theorem C14_isolation : forall secure h t s,
  (forall o, In o h -> op_sock o <> s) -> fst (run secure t h) s = t s.
Proof. exact isolation. Qed.
Print Assumptions C14_isolation.

(* in every reachable state request/response state exists only beside parser state and only for major version 1 *)
Theorem C14_reachable_inv : forall secure h s ri,
  cli (fst (run secure empty_tables h) s) = Some ri ->
  buf (fst (run secure empty_tables h) s) = true /\ fst (rver ri) = 1.
Proof. exact reachable_inv. Qed.
Print Assumptions C14_reachable_inv.

(* ---- second layer: the parser's decision about the head of a request as a function of the bytes ---- *)

(* every byte string without backslash, byte >= 128 and square bracket gets a definite verdict (classify is a total
   Gallina function: there is nothing that could crash; the point is that [Unmodelled] is confined to those bytes) *)
Theorem C14_classify_total : forall bs, (forall c, In c bs -> dirty c = false) ->
  classify bs = NeedMore \/ (exists e, classify bs = Bad e /\ e <> InvalidChunk) \/ classify bs = HeadersOk.
Proof. exact classify_total. Qed.
Print Assumptions C14_classify_total.

(* composition: a head classified Bad, on a connection whose parser reports what classify says (that agreement is what the
   correspondence check compares on every run), is answered with exactly one 400 that says close, the close, no dispatch,
   and nothing is kept *)
Theorem C14_bad_is_rejected : forall secure c a bs e v hd,
  classify bs = Bad e -> exec_agrees a (classify bs) ->
  buf c = true \/ a_ssl a = Ret false -> a_errreq a = Ret (v, hd) ->
  effs_of (read_conn secure c a)
  = [EReject 400; EWrite 400 (resp_version (match e with BadFirstLine => (1, 1) | _ => v end)) true
                         (match e with BadFirstLine => false | _ => hd end); EClose]
  /\ ~ In EDispatch (effs_of (read_conn secure c a))
  /\ conn_of (read_conn secure c a) = empty_conn.
Proof. exact bad_is_rejected. Qed.
Print Assumptions C14_bad_is_rejected.

Theorem C14_needmore_waits : forall secure c a bs,
  classify bs = NeedMore -> exec_agrees a (classify bs) ->
  buf c = true \/ a_ssl a = Ret false ->
  effs_of (read_conn secure c a) = [] /\ buf (conn_of (read_conn secure c a)) = true.
Proof. exact needmore_waits. Qed.
Print Assumptions C14_needmore_waits.

(* ---- bursts: reads and disconnects queued before the loop runs (two-phase reading of the FIFO interleaving) ---- *)
Theorem C14_burst_outcome : forall secure h, Forall (fun x => shape (snd x)) (snd (burst secure h)).
Proof. exact burst_outcome. Qed.
Print Assumptions C14_burst_outcome.

Theorem C14_burst_never_crash : forall secure h s effs,
  In (s, effs) (snd (burst secure h)) -> ~ In ECrash effs /\ ~ In EOutOfFuel effs /\ (n_writes effs <= 1)%nat.
Proof. exact burst_never_crash. Qed.
Print Assumptions C14_burst_never_crash.

Theorem C14_burst_released : forall secure h1 h2 s,
  (forall o, In o h2 -> op_sock o <> s) ->
  fst (burst secure (h1 ++ Disc s :: h2)) s = empty_conn.
Proof. exact burst_released. Qed.
Print Assumptions C14_burst_released.

(* ---- non-vacuity: concrete answers reaching each outcome ---- *)
Definition A0 : answers :=
  {| a_ssl := Ret false; a_exec := Raise; a_errreq := Raise; a_req := Raise; a_clen := Raise;
     a_path := Raise; a_excreq := Ret tt; a_app := Ret (200, false) |}.
Definition with_exec (a : answers) (x : res pflags) : answers :=
  {| a_ssl := a_ssl a; a_exec := x; a_errreq := a_errreq a; a_req := a_req a; a_clen := a_clen a;
     a_path := a_path a; a_excreq := a_excreq a; a_app := a_app a |}.
Definition R11 : reqinfo := {| rver := (1, 1); is_head := false; has_host := true; host_ctl := false; te_chunked := false; keepalive := true |}.
Definition R20 : reqinfo := {| rver := (2, 0); is_head := true; has_host := true; host_ctl := false; te_chunked := false; keepalive := true |}.
Definition Agood (ri : reqinfo) (n : Z) : answers :=
  {| a_ssl := Ret false; a_exec := Ret {| hc := true; perrno := None; mc := true |}; a_errreq := Raise;
     a_req := Ret ri; a_clen := Ret n; a_path := Ret PCanon; a_excreq := Ret tt; a_app := Ret (200, false) |}.

(* unicode_escape of the request line raises: 500, close; the parser stays until the disconnect *)
Example C14_ex_raise :
  read_conn false empty_conn A0
  = ({| buf := true; cli := None |}, [EReject 500; EWrite 500 (1, 1) true false; EClose], [TSsl; TExec; TExcReq]).
Proof. vm_compute. reflexivity. Qed.
(* invalid header on an HTTP/9.9 HEAD request (pair never registered): one 400 with an HTTP/1.1 status line,
   head only, close; nothing left *)
Example C14_ex_invalid_header :
  effs_of (read_conn false empty_conn
     {| a_ssl := Ret false; a_exec := Ret {| hc := false; perrno := Some InvalidHeader; mc := false |};
        a_errreq := Ret ((9, 9), true); a_req := Raise; a_clen := Raise; a_path := Raise; a_excreq := Raise; a_app := Raise |})
  = [EReject 400; EWrite 400 (1, 1) true true; EClose].
Proof. vm_compute. reflexivity. Qed.
Example C14_ex_505 :
  effs_of (read_conn false empty_conn (Agood R20 0)) = [EReject 505; EWrite 505 (1, 1) true true; EClose].
Proof. vm_compute. reflexivity. Qed.
Example C14_ex_negative_length :
  effs_of (read_conn false empty_conn (Agood R11 (-5))) = [EReject 400; EWrite 400 (1, 1) true false; EClose].
Proof. vm_compute. reflexivity. Qed.
Example C14_ex_request :
  read_conn false empty_conn (Agood R11 0)
  = (empty_conn, [EDispatch; EWrite 200 (1, 1) false false], [TSsl; TExec; TReq; TInt]).
Proof. vm_compute. reflexivity. Qed.
(* a handler of the request event raises (body processing of a lone surrogate): one 500, close *)
Example C14_ex_app_raises :
  effs_of (read_conn false empty_conn
     {| a_ssl := Ret false; a_exec := Ret {| hc := true; perrno := None; mc := true |}; a_errreq := Raise;
        a_req := Ret R11; a_clen := Ret 0%Z; a_path := Ret PCanon; a_excreq := Ret tt; a_app := Raise |})
  = [EDispatch; EWrite 500 (1, 1) true false; EClose].
Proof. vm_compute. reflexivity. Qed.
Example C14_ex_tls_hello :
  read_conn false empty_conn (with_exec {| a_ssl := Ret true; a_exec := Raise; a_errreq := Raise; a_req := Raise;
     a_clen := Raise; a_path := Raise; a_excreq := Raise; a_app := Raise |} Raise)
  = (empty_conn, [EClose], [TSsl]).
Proof. vm_compute. reflexivity. Qed.
(* hypotheses of C14_parser_error_reported / C14_raise_answered / C14_dispatch_sound are satisfiable *)
Example C14_ex_raise_hyp : hres_of (on_read false empty_conn A0) = HRaise.
Proof. vm_compute. reflexivity. Qed.
Example C14_ex_dispatch_hyp : In EDispatch (effs_of (read_conn false empty_conn (Agood R11 0))).
Proof. vm_compute. left. reflexivity. Qed.
(* two connections; 0 waits with headers incomplete and is disconnected: released, 1 untouched *)
Example C14_ex_history :
  let t := fst (run false empty_tables
     [Read 0 (with_exec A0 (Ret {| hc := false; perrno := None; mc := false |}));
      Read 1 (with_exec A0 (Ret {| hc := false; perrno := None; mc := false |})); Disc 0]) in
  (t 0%nat, t 1%nat) = (empty_conn, {| buf := true; cli := None |}).
Proof. vm_compute. reflexivity. Qed.

(* classify on concrete heads *)
Example C14_ex_classify_ok : classify [71; 69; 84; 32; 47; 32; 72; 84; 84; 80; 47; 49; 46; 49; 13; 10; 72; 111; 115; 116; 58; 32; 97; 13; 10; 13; 10] = HeadersOk.
Proof. vm_compute. reflexivity. Qed.
Example C14_ex_classify_nocolon : classify [72; 69; 65; 68; 32; 47; 32; 72; 84; 84; 80; 47; 49; 46; 49; 13; 10; 72; 111; 115; 116; 32; 97; 13; 10; 13; 10] = Bad InvalidHeader.
Proof. vm_compute. reflexivity. Qed.
Example C14_ex_classify_nul_name : classify [71; 69; 84; 32; 47; 32; 72; 84; 84; 80; 47; 49; 46; 49; 13; 10; 65; 0; 58; 32; 99; 13; 10; 13; 10] = Bad InvalidHeader.
Proof. vm_compute. reflexivity. Qed.
Example C14_ex_classify_garbage : classify [71; 65; 82; 66; 65; 71; 69; 13; 10] = Bad BadFirstLine.
Proof. vm_compute. reflexivity. Qed.
Example C14_ex_classify_fragment : classify [71; 69; 84; 32; 47; 35; 120; 32; 72; 84; 84; 80; 47; 49; 46; 49; 13; 10] = Bad BadFirstLine.
Proof. vm_compute. reflexivity. Qed.
Example C14_ex_classify_prefix : classify [71; 69; 84; 32; 47; 32; 72; 84; 84; 80; 47; 49; 46; 49; 13; 10; 72; 111; 115; 116; 58; 32; 97; 13; 10] = NeedMore.
Proof. vm_compute. reflexivity. Qed.
Example C14_ex_classify_regex : classify [71; 64; 84; 32; 47; 32; 72; 84; 84; 80; 47; 49; 50; 51; 13; 10; 13; 10] = HeadersOk.
Proof. vm_compute. reflexivity. Qed.
Example C14_ex_classify_escape : classify [71; 69; 84; 32; 47; 92; 120; 32; 72; 84; 84; 80; 47; 49; 46; 49; 13; 10; 13; 10] = Unmodelled.
Proof. vm_compute. reflexivity. Qed.

(* a burst is NOT the same as processing the reads one after the other: two requests on one connection, both reads handled
   before the first response is written -- the second is served with the pair of the first (here: not as a HEAD) *)
Definition Rhead : reqinfo := {| rver := (1, 1); is_head := true; has_host := true; host_ctl := false; te_chunked := false; keepalive := true |}.
Example C14_ex_burst_differs :
  map snd (snd (burst false [Read 0 (Agood R11 0); Read 0 (Agood Rhead 0)]))
    = [[EDispatch; EWrite 200 (1, 1) false false]; [EDispatch; EWrite 200 (1, 1) false false]]
  /\ snd (run false empty_tables [Read 0 (Agood R11 0); Read 0 (Agood Rhead 0)])
    = [[EDispatch; EWrite 200 (1, 1) false false]; [EDispatch; EWrite 200 (1, 1) false true]].
Proof. vm_compute. split; reflexivity. Qed.
