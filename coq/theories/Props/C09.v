(* C09 — timers never fire early, fire as often as specified, and bound the idle sleep.
   Only statements here; proofs live in Proofs/TimersP.v.

   The model (Model/Timers.v) runs the Manager loop tick by tick over arbitrary programs: scripts of ordinary events,
   of the handlers of timer events and of generator tasks that create / reset / unregister timers and consume time,
   external events arriving at arbitrary times, an arbitrary recorded firing order.  [history] is what happened:
     LCreate t iv p dl    a timer (id = number of timers created before) was created at t with interval iv
     LReset i t niv       timer i was reset at t (to a new interval)
     LUnreq i t           unregistration of timer i was requested at t
     LIter t fired w      a loop iteration dispatched generate_events at t; the timers in [fired] fired, then the loop
                          waited [w] (None: no wait)
   [spec_after p pre] is the specification's book-keeping after the history [pre]: per timer the time it was last
   armed (s_t0: creation, reset, or last firing of a persistent timer), its interval (s_iv), persistence (s_p) and
   whether it is alive (s_alive: registered, no unregistration requested, a one-shot has not fired yet).
     LRereg i t           timer i, out of the tree, was registered again at t
   All theorems quantify over every program, every start time, every arrival script, every schedule of simultaneous
   firings ([sch]), every order in which the task set is iterated ([tsch]) and every number of ticks; the only hypothesis is that the TIMEOUT constant has a positive denominator. *)
From Coq Require Import List ZArith Bool.
From Circ Require Import Model.Timers Proofs.TimersP.
Import ListNotations.
Open Scope Z_scope.

Definition hist (p : prog) (t0 : Z) (sts : list (Z * bool * nat)) (sch tsch : list nat) (n : nat) : list lrec :=
  history (fst (run p (init t0 sts sch tsch) n)).

(* every run is accepted by the specification monitor (which checks, at every iteration: nobody fires twice, only
   alive timers whose interval has elapsed fire, every alive timer that is due fires, a wait happens only when
   nothing fired and does not pass the expiry of any alive timer), and the monitor's book-keeping agrees with the
   timers' own fields at the end *)
Theorem C09_run_conforms : forall p, 0 < p_tmo_den p -> forall t0 sts sch tsch n,
  spec_after p (hist p t0 sts sch tsch n) = Some (map abs (timers (fst (run p (init t0 sts sch tsch) n)))).
Proof. exact run_conforms. Qed.
Print Assumptions C09_run_conforms.

(* never early: a timer that fires at t is alive and was armed at some t0 with t0 + interval <= t *)
Theorem C09_not_early : forall p, 0 < p_tmo_den p -> forall t0 sts sch tsch n pre t fired w post i,
  hist p t0 sts sch tsch n = pre ++ LIter t fired w :: post -> In i fired ->
  exists ms x, spec_after p pre = Some ms /\ nth_error ms i = Some x /\
               s_alive x = true /\ s_t0 x + s_iv x <= t.
Proof. exact not_early. Qed.
Print Assumptions C09_not_early.

(* the first firing after creation is not before creation time + interval; a datetime deadline counts at
   whole-second resolution: the timer is armed for floorsec(deadline) *)
Theorem C09_first_firing : forall p, 0 < p_tmo_den p -> forall t0 sts sch tsch n pre tc iv pp dl mid t fired w post ms,
  hist p t0 sts sch tsch n = pre ++ LCreate tc iv pp dl :: mid ++ LIter t fired w :: post ->
  spec_after p pre = Some ms ->
  In (length ms) fired -> (forall e, In e mid -> touches (length ms) e = false) ->
  tc + iv <= t /\ match dl with Some d => tc + iv = floorsec d | None => True end.
Proof. exact first_firing. Qed.
Print Assumptions C09_first_firing.

Theorem C09_datetime_whole_seconds : forall d, floorsec d <= d < floorsec d + UNIT.
Proof. exact floorsec_le. Qed.
Print Assumptions C09_datetime_whole_seconds.

(* a one-shot timer fires at most once, in any run (unless the program registers it again after its removal) *)
Theorem C09_oneshot_once : forall p, 0 < p_tmo_den p -> forall t0 sts sch tsch n pre t fired w mid t' fired' w' post ms i x,
  hist p t0 sts sch tsch n = pre ++ LIter t fired w :: mid ++ LIter t' fired' w' :: post ->
  In i fired -> spec_after p pre = Some ms -> nth_error ms i = Some x -> s_p x = false ->
  (forall r, In r mid -> is_rereg i r = false) -> ~ In i fired'.
Proof. exact oneshot_once. Qed.
Print Assumptions C09_oneshot_once.

Theorem C09_fires_once_per_iteration : forall p, 0 < p_tmo_den p -> forall t0 sts sch tsch n pre t fired w post,
  hist p t0 sts sch tsch n = pre ++ LIter t fired w :: post -> NoDup fired.
Proof. exact fired_nodup. Qed.
Print Assumptions C09_fires_once_per_iteration.

(* consecutive firings of a persistent timer are at least one interval apart *)
Theorem C09_persistent_gap : forall p, 0 < p_tmo_den p -> forall t0 sts sch tsch n pre t1 f1 w1 mid t2 f2 w2 post ms i x,
  hist p t0 sts sch tsch n = pre ++ LIter t1 f1 w1 :: mid ++ LIter t2 f2 w2 :: post ->
  In i f1 -> In i f2 -> (forall r, In r mid -> touches i r = false) ->
  spec_after p pre = Some ms -> nth_error ms i = Some x -> s_p x = true ->
  t1 + s_iv x <= t2.
Proof. exact persistent_gap. Qed.
Print Assumptions C09_persistent_gap.

(* once unregistration of a timer has been requested it never fires again (unless registered again) *)
Theorem C09_unregistered_silent : forall p, 0 < p_tmo_den p -> forall t0 sts sch tsch n pre i t mid t' fired w post,
  hist p t0 sts sch tsch n = pre ++ LUnreq i t :: mid ++ LIter t' fired w :: post ->
  (forall r, In r mid -> is_rereg i r = false) -> ~ In i fired.
Proof. exact unregistered_silent. Qed.
Print Assumptions C09_unregistered_silent.

(* reset() restarts the countdown: the next firing is at least one (new) interval after the reset *)
Theorem C09_reset : forall p, 0 < p_tmo_den p -> forall t0 sts sch tsch n pre i r niv mid t fired w post ms x,
  hist p t0 sts sch tsch n = pre ++ LReset i r niv :: mid ++ LIter t fired w :: post ->
  In i fired -> (forall e, In e mid -> touches i e = false) ->
  spec_after p pre = Some ms -> nth_error ms i = Some x ->
  r + (match niv with Some v => v | None => s_iv x end) <= t.
Proof. exact reset_restarts. Qed.
Print Assumptions C09_reset.

(* sleep bound: the loop waits only when nothing fired, and the wait it asks for ends no later than the expiry of any
   alive timer (in particular it is not unbounded while a timer is pending) *)
Theorem C09_sleep_bound : forall p, 0 < p_tmo_den p -> forall t0 sts sch tsch n pre t fired w post,
  hist p t0 sts sch tsch n = pre ++ LIter t fired (Some w) :: post ->
  fired = [] /\
  forall ms i x, spec_after p pre = Some ms -> nth_error ms i = Some x -> s_alive x = true ->
    exists d, dur (p_tmo_num p) (p_tmo_den p) w = Some d /\ t + d <= s_t0 x + s_iv x.
Proof. exact sleep_bound. Qed.
Print Assumptions C09_sleep_bound.

(* ... and the clock after the wait is within what was asked for (an external event may end it earlier) *)
Theorem C09_wait_ends : forall s d, 0 <= d -> now s <= now (idle_wait s (Some d)) <= now s + d.
Proof. exact idle_wait_clock. Qed.
Print Assumptions C09_wait_ends.

(* a due timer fires in the first loop iteration at or after its expiry: in every iteration, every alive timer whose
   interval has elapsed fires *)
Theorem C09_due_fires : forall p, 0 < p_tmo_den p -> forall t0 sts sch tsch n pre t fired w post ms i x,
  hist p t0 sts sch tsch n = pre ++ LIter t fired w :: post ->
  spec_after p pre = Some ms -> nth_error ms i = Some x -> s_alive x = true -> s_t0 x + s_iv x <= t ->
  In i fired.
Proof. exact due_fires. Qed.
Print Assumptions C09_due_fires.

(* "then removes itself", for every run: if a one-shot timer has fired anywhere in the history of the first n ticks
   and the program never registers it again ([prog_ok i p]: no script contains OReReg i), then two ticks later it is
   out of the component tree ([Gone]: not registered, no removal pending).  With n = the tick in which it fired: out
   by iteration n+2.  No hypothesis about the state: the invariant "every pending timer has its prepare_unregister
   or the completion event queued" is proved for all runs. *)
Theorem C09_oneshot_removed : forall p, 0 < p_tmo_den p -> forall t0 sts sch tsch n i pre t fired w post ms x,
  prog_ok i p ->
  hist p t0 sts sch tsch n = pre ++ LIter t fired w :: post -> In i fired ->
  spec_after p pre = Some ms -> nth_error ms i = Some x -> s_p x = false ->
  (forall r, In r post -> is_rereg i r = false) ->
  Gone (tick p (tick p (fst (run p (init t0 sts sch tsch) n)))) i.
Proof. exact oneshot_removed. Qed.
Print Assumptions C09_oneshot_removed.

(* likewise a timer whose unregistration was requested *)
Theorem C09_unregistered_removed : forall p, 0 < p_tmo_den p -> forall t0 sts sch tsch n i pre t post,
  prog_ok i p ->
  hist p t0 sts sch tsch n = pre ++ LUnreq i t :: post -> (forall r, In r post -> is_rereg i r = false) ->
  Gone (tick p (tick p (fst (run p (init t0 sts sch tsch) n)))) i.
Proof. exact unregistered_removed. Qed.
Print Assumptions C09_unregistered_removed.

(* and it stays out (in states whose tasks run only steps of such a program, e.g. all states of a run) *)
Theorem C09_gone_stays : forall i p s, prog_ok i p -> tasks_ok i s -> Gone s i -> Gone (tick p s) i.
Proof. exact gone_stays. Qed.
Print Assumptions C09_gone_stays.

(* what starts the removal, for every state: a one-shot that fires queues its event and its prepare_unregister and
   carries the pending flag *)
Theorem C09_oneshot_starts_removal : forall s i tm, nth_error (timers s) i = Some tm -> t_persist tm = false ->
  t_reg tm && negb (t_pend tm) = true ->
  In (ETimer i) (queue (fire_timer s i)) /\ In (EPrep i) (queue (fire_timer s i)) /\ PG (fire_timer s i) i.
Proof. exact oneshot_fire_starts. Qed.
Print Assumptions C09_oneshot_starts_removal.

(* ---------------------------------------------------------------- non-vacuity *)

(* TIMEOUT = 0.1 s in units of 2^-10 s, as an exact ratio *)
Definition tmo_num : Z := 3602879701896397.
Definition tmo_den : Z := 35184372088832.

(* a one-shot 2 s timer and a persistent 0.75 s timer (the probe of DESIGN §6); time starts at 4 s = 4096 *)
Definition ex_prog : prog :=
  mkProg [[OCreate 2048 false; OCreate 768 true]] [] [] tmo_num tmo_den.

Example C09_ex_den : 0 < p_tmo_den ex_prog.
Proof. reflexivity. Qed.

Example C09_ex_history :
  hist ex_prog 4096 [(4096, false, 0%nat)] [] [] 12 =
  [ LCreate 4096 2048 false None; LCreate 4096 768 true None;
    LIter 4096 [] None; LIter 4096 [] (Some (Fin 768));
    LIter 4864 [1%nat] None; LDisp 1 4864; LIter 4864 [] (Some (Fin 768));
    LIter 5632 [1%nat] None; LDisp 1 5632; LIter 5632 [] (Some (Fin 512));
    LIter 6144 [0%nat] None; LDisp 0 6144; LIter 6144 [] None; LIter 6144 [] None;
    LIter 6144 [] (Some (Fin 256)); LIter 6400 [1%nat] None; LDisp 1 6400; LIter 6400 [] (Some (Fin 768)) ].
Proof. vm_compute. reflexivity. Qed.

(* the specification rejects an early firing, an oversleep, a missed firing and a second firing of a one-shot *)
Example C09_ex_rejects :
  mon_run tmo_num tmo_den [] [LCreate 0 100 false None; LIter 99 [0%nat] None] = None /\
  mon_run tmo_num tmo_den [] [LCreate 0 100 false None; LIter 0 [] (Some (Fin 101))] = None /\
  mon_run tmo_num tmo_den [] [LCreate 0 100 false None; LIter 0 [] (Some Inf)] = None /\
  mon_run tmo_num tmo_den [] [LCreate 0 100 false None; LIter 100 [] None] = None /\
  mon_run tmo_num tmo_den [] [LCreate 0 100 false None; LIter 100 [0%nat] None; LIter 300 [0%nat] None] = None /\
  mon_run tmo_num tmo_den [] [LCreate 0 100 true None; LIter 100 [0%nat] None; LIter 199 [0%nat] None] = None /\
  mon_run tmo_num tmo_den [] [LCreate 0 100 true None; LUnreq 0 50; LIter 100 [0%nat] None] = None /\
  mon_run tmo_num tmo_den [] [LCreate 0 100 true None; LIter 100 [0%nat] None; LIter 200 [0%nat] None;
                              LIter 200 [] (Some (Fin 100))] <> None.
Proof. vm_compute. repeat split; discriminate. Qed.

(* the hypotheses of the gap / reset / first-firing theorems are satisfiable on the example run *)
Example C09_ex_gap :
  exists pre mid post ms x,
    hist ex_prog 4096 [(4096, false, 0%nat)] [] [] 12 =
      pre ++ LIter 4864 [1%nat] None :: mid ++ LIter 5632 [1%nat] None :: post /\
    (forall r, In r mid -> touches 1 r = false) /\
    spec_after ex_prog pre = Some ms /\ nth_error ms 1 = Some x /\ s_p x = true /\ s_iv x = 768.
Proof.
  exists [LCreate 4096 2048 false None; LCreate 4096 768 true None; LIter 4096 [] None; LIter 4096 [] (Some (Fin 768))],
         [LDisp 1 4864; LIter 4864 [] (Some (Fin 768))].
  eexists. eexists. eexists. split. vm_compute. reflexivity.
  split. intros r [H | [H | []]]; subst; reflexivity.
  vm_compute. repeat split; reflexivity.
Qed.

(* the example run ends with the one-shot (timer 0) out of the tree and the persistent one still registered *)
Example C09_ex_removed :
  map (fun tm => (t_reg tm, t_pend tm)) (timers (fst (run ex_prog (init 4096 [(4096, false, 0%nat)] [] []) 12)))
  = [(false, false); (true, false)].
Proof. vm_compute. reflexivity. Qed.

(* a persistent 1 s timer, reset by an external event at +504 units (the wait of 1024 is cut short), unregistered by
   another at 7000: the firing moves from 5120 to 5624 = 4600 + 1024, the next one is 1024 later, nothing fires after
   the request, and only then the loop waits without bound.  Instantiates C09_reset / C09_unregistered_silent. *)
Definition ex_prog2 : prog :=
  mkProg [[OCreate 1024 true]; [OReset 0]; [OUnreg 0]] [] [] tmo_num tmo_den.

Example C09_ex_reset_unregister :
  hist ex_prog2 4096 [(4096, false, 0%nat); (4600, false, 1%nat); (7000, false, 2%nat)] [] [] 16 =
  [ LCreate 4096 1024 true None; LIter 4096 [] None; LIter 4096 [] (Some (Fin 1024));
    LReset 0 4600 None; LIter 4600 [] (Some (Fin 1024));
    LIter 5624 [0%nat] None; LDisp 0 5624; LIter 5624 [] (Some (Fin 1024));
    LIter 6648 [0%nat] None; LDisp 0 6648; LIter 6648 [] (Some (Fin 1024));
    LUnreq 0 7000; LIter 7000 [] None; LIter 7000 [] None; LIter 7000 [] None; LIter 7000 [] (Some Inf) ].
Proof. vm_compute. reflexivity. Qed.

(* "gap >= interval" is tight, and a late tick delays all later firings (no catch-up is promised): a persistent 1 s
   timer, and a handler that keeps the loop busy from 5000 to 6500, over the expiry 5120.  The timer fires at 6500 and
   then at 7524, 8548, ... — consecutive firings exactly one interval apart, every one 1380 units later than the
   5120 + k * 1024 of an undisturbed run. *)
Definition ex_late : prog := mkProg [[OCreate 1024 true]; [OWork 1500]] [] [] tmo_num tmo_den.

Example C09_ex_gap_tight :
  hist ex_late 4096 [(4096, false, 0%nat); (5000, false, 1%nat)] [] [] 8 =
  [ LCreate 4096 1024 true None; LIter 4096 [] None; LIter 4096 [] (Some (Fin 1024));
    LIter 6500 [0%nat] None; LDisp 0 6500; LIter 6500 [] (Some (Fin 1024));
    LIter 7524 [0%nat] None; LDisp 0 7524; LIter 7524 [] (Some (Fin 1024));
    LIter 8548 [0%nat] None; LDisp 0 8548; LIter 8548 [] (Some (Fin 1024)) ].
Proof. vm_compute. reflexivity. Qed.

(* registering a removed one-shot again does not re-arm it: it keeps its old expiry and fires at once (6000), a second
   time in its second life; reset() on a timer outside the tree has no effect on the loop (it waits without bound) *)
Definition ex_rereg : prog := mkProg [[OCreate 512 false]; [OReReg 0]; [OReset 0]] [] [] tmo_num tmo_den.

Example C09_ex_reregister :
  hist ex_rereg 4096 [(4096, false, 0%nat); (6000, false, 1%nat); (7000, false, 2%nat)] [] [] 20 =
  [ LCreate 4096 512 false None; LIter 4096 [] None; LIter 4096 [] (Some (Fin 512));
    LIter 4608 [0%nat] None; LDisp 0 4608; LIter 4608 [] None; LIter 4608 [] None; LIter 4608 [] (Some Inf);
    LRereg 0 6000; LIter 6000 [0%nat] None; LDisp 0 6000; LIter 6000 [] None; LIter 6000 [] None;
    LIter 6000 [] (Some Inf); LReset 0 7000 None; LIter 7000 [] (Some Inf) ].
Proof. vm_compute. reflexivity. Qed.

(* two generator tasks alive at once: the order in which the task set is iterated (the [tsch] argument) changes when
   the timer is reset and hence when it fires (4699 vs 4696); the theorems hold for every order *)
Definition ex_tasks : prog :=
  mkProg [[OCreate 300 false]] [] [[GOps [OWork 200]; GYield; GOps [OReset 0]]; [GOps [OReset 0]; GYield]] tmo_num tmo_den.

Example C09_ex_task_order :
  let sts := [(4096, false, 0%nat); (4096, true, 0%nat); (4096, true, 1%nat)] in
  In (LIter 4699 [0%nat] None) (hist ex_tasks 4096 sts [] [] 8) /\
  In (LIter 4696 [0%nat] None) (hist ex_tasks 4096 sts [] [1; 0; 0; 1]%nat 8).
Proof. vm_compute. split; intuition. Qed.

(* the hypotheses of C09_oneshot_removed hold on the first example: its program never registers anything again, the
   one-shot (timer 0) fires in the 7th tick (it is then pending removal), and two ticks later it is out of the tree *)
Example C09_ex_prog_ok : forall i, prog_ok i ex_prog.
Proof.
  intros i. repeat split; simpl; intros l H;
    repeat (destruct H as [H | H]; [subst; intros o Ho; simpl in Ho;
                                    repeat (destruct Ho as [Ho | Ho]; [subst; reflexivity|]); contradiction |]);
    contradiction.
Qed.

Example C09_ex_oneshot_removed :
  In (LIter 6144 [0%nat] None) (hist ex_prog 4096 [(4096, false, 0%nat)] [] [] 7) /\
  map (fun tm => (t_reg tm, t_pend tm)) (timers (fst (run ex_prog (init 4096 [(4096, false, 0%nat)] [] []) 7)))
    = [(true, true); (true, false)] /\
  map (fun tm => (t_reg tm, t_pend tm)) (timers (fst (run ex_prog (init 4096 [(4096, false, 0%nat)] [] []) 9)))
    = [(false, false); (true, false)].
Proof. vm_compute. repeat split; intuition. Qed.
