(* C13 — HTTP messages are parsed identically however the stream is segmented.
   Only statements here; proofs live in Proofs/HttpFramingP.v.  The model (Model/HttpFraming.v) is the
   model of circuits/web/parsers/http.py + the gating in web/http.py and protocols/http.py (used by
   web/client.py) with fixes/C13_*.patch applied.
   kind_resp = false: server side (requests); true: client side (responses).
   parse_fl / parse_hd are arbitrary functions (oracles for first-line and header-block content parsing),
   so every theorem holds whatever those parsers accept.  Reads are non-empty ([nonempty]). *)
From Coq Require Import List NArith ZArith Bool.
From Circ Require Import Model.HttpFraming Proofs.HttpFramingP.
Import ListNotations.
Open Scope N_scope.

(* the split law of HttpParser.execute, for EVERY parser state s and all byte strings: while the message is
   still incomplete after the read [a] (and the parser has not failed), reading [a] then [b] equals reading
   [a ++ b] *)
Theorem C13_split_law : forall kind_resp parse_fl parse_hd s a b,
  a <> [] -> b <> [] ->
  splittable (feed kind_resp parse_fl parse_hd s a) ->
  feed kind_resp parse_fl parse_hd (feed kind_resp parse_fl parse_hd s a) b
  = feed kind_resp parse_fl parse_hd s (a ++ b).
Proof. exact feed_split. Qed.
Print Assumptions C13_split_law.

(* every segmentation into non-empty reads in which no proper prefix of the reads already completes the
   message gives the state that one-piece delivery gives (any number of cuts, byte-at-a-time included) *)
Theorem C13_segmentation : forall kind_resp parse_fl parse_hd cs s,
  cs <> [] -> Forall nonempty cs ->
  (forall p q, cs = p ++ q -> p <> [] -> q <> [] ->
     splittable (feed kind_resp parse_fl parse_hd s (concat p))) ->
  run kind_resp parse_fl parse_hd s cs = feed kind_resp parse_fl parse_hd s (concat cs).
Proof. exact run_segmentation. Qed.
Print Assumptions C13_segmentation.

(* well-formed messages: first line L; header section HS = either a block blk of header lines followed by
   CRLF CRLF, or just CRLF (no header field at all, hl = true); body B sent with Content-Length, chunked
   (any chunk-size lines with extensions, optional trailers), absent for a request, absent for a 204 response
   without fields.  EVERY segmentation of the bytes of the message ends in the same completed state, carrying
   L, blk and the decoded body. *)
Theorem C13_message : forall kind_resp parse_fl parse_hd L HS blk i204 clen chunked hl,
  wf_head parse_fl parse_hd L HS blk i204 clen chunked hl ->
  forall B body, wf_body kind_resp i204 hl clen chunked B body ->
  forall cs, Forall nonempty cs -> concat cs = msg_bytes L HS B ->
  run kind_resp parse_fl parse_hd (PFirst []) cs = PDone L blk body.
Proof. exact message_segmentation. Qed.
Print Assumptions C13_message.

(* obsolete line folding: the framing condition on a header block (wf_hsec's "only the final CRLFCRLF, not
   starting with CRLF") holds for ANY non-empty list of non-empty lines without CR / LF inside joined by CRLF;
   a continuation line is such a line (it starts with SP / HT).  So C13_message covers every cut inside a
   folded header, including between the CRLF and the SP. *)
Theorem C13_folded_headers : forall ls, ls <> [] -> Forall clean_line ls ->
  split_on CRLF2 (join_lines ls ++ CRLF2) = Some (join_lines ls, []) /\
  is_prefix CRLF (join_lines ls ++ CRLF2) = false.
Proof. exact header_block_wf. Qed.
Print Assumptions C13_folded_headers.

(* server (HTTP._on_read): keep-alive sequence of well-formed requests, each cut in any way (no read spans
   two requests): exactly one request event per request, with that request's first line, headers and body;
   the per-connection parser is released after each *)
Theorem C13_server_keepalive : forall parse_fl parse_hd ms css,
  Forall (wf_message false parse_fl parse_hd) ms ->
  Forall2 (fun m cs => Forall nonempty cs /\ concat cs = message_bytes m) ms css ->
  conn_run false parse_fl parse_hd srv_emit (PFirst []) (concat css) = (PFirst [], map message_event ms).
Proof. exact server_keepalive. Qed.
Print Assumptions C13_server_keepalive.

(* client (protocols.http.HTTP._on_client_read, used by web.client.Client): same for responses that are
   complete by themselves (Content-Length, chunked, 204 without fields) *)
Theorem C13_client_keepalive : forall parse_fl parse_hd ms css,
  Forall (wf_message true parse_fl parse_hd) ms ->
  Forall2 (fun m cs => Forall nonempty cs /\ concat cs = message_bytes m) ms css ->
  conn_run true parse_fl parse_hd cli_emit (PFirst []) (concat css) = (PFirst [], map message_event ms).
Proof. exact client_keepalive. Qed.
Print Assumptions C13_client_keepalive.

(* client, response delimited by the end of the connection (no Content-Length, not chunked; any status; header
   fields or none; excluded only: 204 without fields, which is complete by itself), after any keep-alive sequence
   of complete responses: in EVERY segmentation one event per complete response, no event for the last one, and
   the same parser state holding the body bytes received so far.  (The client components never tell the parser
   that the connection ended, so such a response is never delivered — in any segmentation.) *)
Theorem C13_client_until_close : forall parse_fl parse_hd ms css L HS blk i204 hl B cs,
  Forall (wf_message true parse_fl parse_hd) ms ->
  Forall2 (fun m cs => Forall nonempty cs /\ concat cs = message_bytes m) ms css ->
  wf_head parse_fl parse_hd L HS blk i204 None false hl -> hl && i204 = false ->
  (Z.of_nat (length B) < maxsize)%Z ->
  Forall nonempty cs -> concat cs = msg_bytes L HS B ->
  conn_run true parse_fl parse_hd cli_emit (PFirst []) (concat css ++ cs)
  = (PBody L blk None (Some (maxsize - Z.of_nat (length B))%Z) B, map message_event ms).
Proof. exact client_until_close. Qed.
Print Assumptions C13_client_until_close.

(* 204 / 304 (any status) without Content-Length and without body: the case B = [] *)
Theorem C13_client_nobody : forall parse_fl parse_hd ms css L HS blk i204 hl cs,
  Forall (wf_message true parse_fl parse_hd) ms ->
  Forall2 (fun m cs => Forall nonempty cs /\ concat cs = message_bytes m) ms css ->
  wf_head parse_fl parse_hd L HS blk i204 None false hl -> hl && i204 = false ->
  Forall nonempty cs -> concat cs = msg_bytes L HS [] ->
  conn_run true parse_fl parse_hd cli_emit (PFirst []) (concat css ++ cs)
  = (PBody L blk None (Some maxsize) [], map message_event ms).
Proof. exact client_nobody. Qed.
Print Assumptions C13_client_nobody.

(* ---- non-vacuity (data in Proofs/HttpFramingP.v): a chunked request
   "POST / HTTP/1.1 | Host: x | X-F: a | SP b (continuation) | TE: c || 3;x CRLF a CR LF CRLF 01 CRLF b CRLF 0 CRLF T:v CRLF CRLF" *)
Example C13_ex_wf_head : wf_head ex_fl ex_hd ex_L (ex_H ++ CRLF2) ex_H false None true false.
Proof. exact ex_wf_head. Qed.
Example C13_ex_wf_body : wf_body false false false None true ex_B [97;13;10;98].
Proof. exact ex_wf_body. Qed.
(* byte-at-a-time delivery of that request, computed *)
Example C13_ex_bytewise :
  run false ex_fl ex_hd (PFirst []) (map (fun b => [b]) (msg_bytes ex_L (ex_H ++ CRLF2) ex_B)) = PDone ex_L ex_H [97;13;10;98].
Proof. vm_compute. reflexivity. Qed.
(* a message without header fields satisfies wf_head (request: kind = false; 204 response: kind = true) *)
Example C13_ex_wf_head_empty : forall kind, wf_head (fun _ => Some kind) (fun _ => None) [71] CRLF [] kind None false true.
Proof. exact ex_wf_head_empty. Qed.
(* a response without header fields and with a body, cut after the empty line vs delivered whole (the former
   finding C13-headerless-response): same state *)
Example C13_ex_headerless_response :
  run true (fun _ => Some false) (fun _ => None) (PFirst []) [[72;13;10;13;10]; [104;105]]
  = run true (fun _ => Some false) (fun _ => None) (PFirst []) [[72;13;10;13;10;104;105]].
Proof. vm_compute. reflexivity. Qed.
(* a Content-Length response cut between CR and LF of the status line and inside the body *)
Example C13_ex_cl :
  run true (fun _ => Some false) (fun _ => Some (Some 3%Z, false)) (PFirst [])
      [[72;13]; [10;65;58;49;13;10;13;10;120]; [121;122]] = PDone [72] [65;58;49] [120;121;122].
Proof. vm_compute. reflexivity. Qed.
