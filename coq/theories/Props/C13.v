(* C13 — HTTP messages are parsed identically however the stream is segmented.
   Only statements here; proofs live in Proofs/HttpFramingP.v.  The model (Model/HttpFraming.v) is the
   model of circuits/web/parsers/http.py + the gating in web/http.py and protocols/http.py with
   fixes/C13_*.patch applied.  kind_resp = false: server side (requests); true: client side (responses).
   parse_fl / parse_hd are arbitrary (oracles for first-line and header-block content parsing). *)
From Coq Require Import List NArith ZArith Bool.
From Circ Require Import Model.HttpFraming Proofs.HttpFramingP.
Import ListNotations.
Open Scope N_scope.

(* the split law of HttpParser.execute: while the message is still incomplete after the read [a]
   (and the parser has not failed), reading [a] then [b] equals reading [a ++ b] *)
Theorem C13_split_law : forall kind_resp parse_fl parse_hd s a b,
  a <> [] -> b <> [] ->
  splittable (feed kind_resp parse_fl parse_hd s a) ->
  feed kind_resp parse_fl parse_hd (feed kind_resp parse_fl parse_hd s a) b
  = feed kind_resp parse_fl parse_hd s (a ++ b).
Proof. exact feed_split. Qed.
Print Assumptions C13_split_law.

(* every segmentation into non-empty reads in which no proper prefix of the reads already completes the
   message gives the state that one-piece delivery gives (any number of cuts, byte-at-a-time included) *)
Theorem C13_segmentation : forall kind_resp parse_fl parse_hd cs s,
  cs <> [] -> Forall nonempty cs ->
  (forall p q, cs = p ++ q -> p <> [] -> q <> [] ->
     splittable (feed kind_resp parse_fl parse_hd s (concat p))) ->
  run kind_resp parse_fl parse_hd s cs = feed kind_resp parse_fl parse_hd s (concat cs).
Proof. exact run_segmentation. Qed.
Print Assumptions C13_segmentation.
