(* C13 — HTTP messages are parsed identically however the stream is segmented.
   Only statements here; proofs live in Proofs/HttpFramingP.v.  The model (Model/HttpFraming.v) is the
   model of circuits/web/parsers/http.py + the gating in web/http.py and protocols/http.py (used by
   web/client.py) with fixes/C13_*.patch applied.
   kind_resp = false: server side (requests); true: client side (responses).
   parse_fl / parse_hd are arbitrary functions (oracles for first-line and header-block content parsing),
   so every theorem holds whatever those parsers accept.  Reads are non-empty ([nonempty]). *)
From Coq Require Import List NArith ZArith Bool.
From Circ Require Import Model.HttpFraming Proofs.HttpFramingP.
Import ListNotations.
Open Scope N_scope.

(* the split law of HttpParser.execute, for EVERY parser state s and all byte strings: while the message is
   still incomplete after the read [a] (and the parser has not failed), reading [a] then [b] equals reading
   [a ++ b] *)
Theorem C13_split_law : forall kind_resp parse_fl parse_hd s a b,
  a <> [] -> b <> [] ->
  splittable (feed kind_resp parse_fl parse_hd s a) ->
  feed kind_resp parse_fl parse_hd (feed kind_resp parse_fl parse_hd s a) b
  = feed kind_resp parse_fl parse_hd s (a ++ b).
Proof. exact feed_split. Qed.
Print Assumptions C13_split_law.

(* every segmentation into non-empty reads in which no proper prefix of the reads already completes the
   message gives the state that one-piece delivery gives (any number of cuts, byte-at-a-time included);
   covers also bodies that never complete (responses read until close) *)
Theorem C13_segmentation : forall kind_resp parse_fl parse_hd cs s,
  cs <> [] -> Forall nonempty cs ->
  (forall p q, cs = p ++ q -> p <> [] -> q <> [] ->
     splittable (feed kind_resp parse_fl parse_hd s (concat p))) ->
  run kind_resp parse_fl parse_hd s cs = feed kind_resp parse_fl parse_hd s (concat cs).
Proof. exact run_segmentation. Qed.
Print Assumptions C13_segmentation.

(* well-formed messages (first line L, header block H with >= 1 field, body B sent with Content-Length,
   chunked — any chunk-size lines with extensions, optional trailers — or, for requests, absent):
   EVERY segmentation of the bytes of the message ends in the same completed state, carrying L, H and the
   decoded body *)
Theorem C13_message : forall kind_resp parse_fl parse_hd L H i204 clen chunked,
  wf_head parse_fl parse_hd L H i204 clen chunked ->
  forall B body, wf_body kind_resp clen chunked B body ->
  forall cs, Forall nonempty cs -> concat cs = msg_bytes L H B ->
  run kind_resp parse_fl parse_hd (PFirst []) cs = PDone L H body.
Proof. exact message_segmentation. Qed.
Print Assumptions C13_message.

(* server (HTTP._on_read): keep-alive sequence of well-formed requests, each cut in any way (no read spans
   two requests): exactly one request event per request, with that request's first line, headers and body;
   the per-connection parser is released after each *)
Theorem C13_server_keepalive : forall parse_fl parse_hd ms css,
  Forall (wf_message false parse_fl parse_hd) ms ->
  Forall2 (fun m cs => Forall nonempty cs /\ concat cs = message_bytes m) ms css ->
  conn_run false parse_fl parse_hd srv_emit (PFirst []) (concat css) = (PFirst [], map message_event ms).
Proof. exact server_keepalive. Qed.
Print Assumptions C13_server_keepalive.

(* client (protocols.http.HTTP._on_client_read, used by web.client.Client): same for responses with
   Content-Length or chunked bodies *)
Theorem C13_client_keepalive : forall parse_fl parse_hd ms css,
  Forall (wf_message true parse_fl parse_hd) ms ->
  Forall2 (fun m cs => Forall nonempty cs /\ concat cs = message_bytes m) ms css ->
  conn_run true parse_fl parse_hd cli_emit (PFirst []) (concat css) = (PFirst [], map message_event ms).
Proof. exact client_keepalive. Qed.
Print Assumptions C13_client_keepalive.

(* The full statement "for every byte string, every two segmentations agree" is FALSE for the client side:
   a response without header fields (known finding C13-headerless-response).  The theorems above exclude it
   through [wf_head] (H is followed by CRLFCRLF and does not start with CRLF) resp. through [splittable]. *)
Theorem C13_headerless_response_refuted :
  exists parse_fl parse_hd cs1 cs2,
    Forall nonempty cs1 /\ Forall nonempty cs2 /\ concat cs1 = concat cs2 /\
    run true parse_fl parse_hd (PFirst []) cs1 <> run true parse_fl parse_hd (PFirst []) cs2.
Proof. exact headerless_response_refuted. Qed.
Print Assumptions C13_headerless_response_refuted.

(* ---- non-vacuity (data and computations in Proofs/HttpFramingP.v): a concrete well-formed chunked request
   "POST / HTTP/1.1 | Host: x | TE: c | 3;x CRLF a CR LF CRLF 01 CRLF b CRLF 0 CRLF T:v CRLF CRLF" ---- *)
Example C13_ex_wf_head : wf_head ex_fl ex_hd ex_L ex_H false None true.
Proof. exact ex_wf_head. Qed.
Example C13_ex_wf_body : wf_body false None true ex_B [97;13;10;98].
Proof. exact ex_wf_body. Qed.
(* byte-at-a-time delivery of that request, computed *)
Example C13_ex_bytewise :
  run false ex_fl ex_hd (PFirst []) (map (fun b => [b]) (msg_bytes ex_L ex_H ex_B)) = PDone ex_L ex_H [97;13;10;98].
Proof. vm_compute. reflexivity. Qed.
(* a Content-Length response cut between CR and LF of the status line and inside the body *)
Example C13_ex_cl :
  run true (fun _ => Some false) (fun _ => Some (Some 3%Z, false)) (PFirst [])
      [[72;13]; [10;65;58;49;13;10;13;10;120]; [121;122]] = PDone [72] [65;58;49] [120;121;122].
Proof. vm_compute. reflexivity. Qed.
