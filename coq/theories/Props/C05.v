(* C05 -- `<name>_complete` fires exactly once, after the whole causal closure has drained.
   Only statements here; proofs are in Proofs/EffectsP.v, the model in Model/Effects.v.

   Reading guide.  A state [s] is [reachable] when it is obtained from [start roots] (any forest
   of scripted events fired from outside a handler) by ANY sequence of steps
   [LDisp p] (dispatch the p-th queued event -- ANY queued event, so every priority order and
   every batching of flushes is covered) / [LTask p] (one next() of the p-th registered task:
   every task-set iteration order and every interleaving of task steps and flushes), under the
   current code ([fixed]).  Scripts: events with complete / success / failure requests, a
   priority and a channel; plain handlers that fire, stop() and raise; generator handlers whose
   steps fire, raise or `yield self.call(event)`.  Events are numbered in firing order.
   [gpar s d = Some h] (ghost) says that d was fired while handling h: by a plain handler or any
   step of a generator handler of h (incl. the event of a call), or d is the `exception` /
   `<h>_failure` event of a raising handler of h (C05_feedback_in_closure);
   [gdesc (gpar s) e d] is "d belongs to the causal closure of e".  [phase s d = PFin] (ghost)
   says that d has been dispatched to all its handlers and all its generator handlers have
   returned or raised, or that d was cancelled and has been skipped by the dispatcher.
   [log s] is newest-first.  `<name>_success` and `<name>_done` are fired by _eventDone when the
   handling is over; the code does not count them as effects, and neither does this file
   (C05_ex_success_outside). *)
From Coq Require Import List ZArith Bool Arith.
From Circ Require Import Model.Effects Proofs.EffectsP.
Import ListNotations.

(* the invariant named by the property's anchors: for every event that still carries a cause
   attribute, effects = (1 if the event itself is not finished) + number of events whose cause
   attribute points to it.  Independent of the order in which queued events are dispatched. *)
Theorem C05_counter : forall s, reachable s -> forall e, cause s e <> None ->
  effects s e = Z.of_nat (selfc (phase s) e + cnt (childb (cause s) e) (next s)).
Proof. exact counter_inv. Qed.
Print Assumptions C05_counter.

(* the `while True` cause-chain walk of _effectDone always terminates (the fuel of the model's
   walk is never exhausted) *)
Theorem C05_walk_terminates : forall s, reachable s -> oof s = false.
Proof. exact no_out_of_fuel. Qed.
Print Assumptions C05_walk_terminates.

(* at most once, in every reachable state *)
Theorem C05_once : forall s, reachable s -> forall e, fc_count e (log s) <= 1.
Proof. exact complete_at_most_once. Qed.
Print Assumptions C05_once.

(* only after the closure has drained: when <e>_complete has been fired, every event of the
   closure of e (e itself, everything fired directly or transitively by plain handlers, by
   generator steps or through call(), the exception / failure events of raising handlers;
   cancelled and stopped events included) is finished ... *)
Theorem C05_after_closure : forall s, reachable s -> forall e d,
  In (LFC e) (log s) -> gdesc (gpar s) e d -> phase s d = PFin.
Proof. exact complete_after_closure. Qed.
Print Assumptions C05_after_closure.

(* ... where finished is final: such an event is not queued, has no registered task and no
   handler suspended in a call ... *)
Theorem C05_finished_is_final : forall s, reachable s -> forall d, phase s d = PFin ->
  ~ In d (queue s) /\ (forall t, In t (tasks s) -> tev t <> d) /\
  (forall w, In w (waiters s) -> tev (wtask w) <> d).
Proof. exact fin_is_final. Qed.
Print Assumptions C05_finished_is_final.

(* ... and, purely in terms of the log: no handler invocation, generator step, firing or (for
   manager-generated events) dispatch of an event of the closure of e is logged after the firing
   of <e>_complete (l2 = what came later) *)
Theorem C05_after_closure_log : forall s, reachable s -> forall l1 l2 e y d,
  log s = l2 ++ LFC e :: l1 -> In y l2 -> hentry y d -> ~ gdesc (gpar s) e d.
Proof. exact complete_log_order. Qed.
Print Assumptions C05_after_closure_log.

(* the exception event and the <x>_failure event of a raising handler (plain or generator step)
   of x are effects of x ... *)
Theorem C05_feedback_in_closure : forall s, reachable s -> forall d x,
  kind s d = KExc x \/ kind s d = KFail x -> gpar s d = Some x.
Proof. exact (kg_reachable fixed). Qed.
Print Assumptions C05_feedback_in_closure.

(* ... so <e>_complete is fired after their dispatch, too *)
Theorem C05_feedback_before_complete : forall s, reachable s -> forall l1 l2 e d x,
  log s = l2 ++ LFC e :: l1 -> In (LD d) l2 -> kind s d = KExc x \/ kind s d = KFail x ->
  ~ gdesc (gpar s) e x.
Proof. exact feedback_after. Qed.
Print Assumptions C05_feedback_before_complete.

(* always eventually: as soon as the closure of a fired, not cancelled, complete-requesting
   event has drained, <e>_complete has been fired -- exactly once.  No hypothesis on how the
   members of the closure ended (cancelled before dispatch, stopped, raising plain handlers,
   raising generator steps, calls) *)
Theorem C05_fires_when_drained : forall s, reachable s ->
  forall e, e < next s -> ev_compl (spec s e) = true -> ev_canc (spec s e) = false ->
  (forall d, gdesc (gpar s) e d -> phase s d = PFin) ->
  fc_count e (log s) = 1.
Proof. exact complete_when_drained. Qed.
Print Assumptions C05_fires_when_drained.

(* in particular when the queue and the task set are empty and no handler is suspended in a call *)
Theorem C05_eventually : forall s, reachable s -> queue s = [] -> tasks s = [] -> waiters s = [] ->
  forall e, e < next s -> ev_compl (spec s e) = true -> ev_canc (spec s e) = false ->
  fc_count e (log s) = 1.
Proof. exact complete_eventually. Qed.
Print Assumptions C05_eventually.

(* and then nothing is left behind: every event is finished and has lost its cause attribute *)
Theorem C05_quiescent_clean : forall s, reachable s -> queue s = [] -> tasks s = [] -> waiters s = [] ->
  forall e, e < next s -> phase s e = PFin /\ cause s e = None.
Proof. exact quiescent_all_finished. Qed.
Print Assumptions C05_quiescent_clean.

(* the executable [run] used by the correspondence check (Manager.tick's schedule: tasks in the
   given order, then one flush of the queue snapshot in (priority, firing order) order) only
   produces reachable states, so all of the above applies to it *)
Theorem C05_run_reachable : forall fuel sched roots,
  oof (run fixed fuel sched (start roots)) = false -> reachable (run fixed fuel sched (start roots)).
Proof. intros fuel sched roots. apply run_reachable. apply start_reachable. Qed.
Print Assumptions C05_run_reachable.

(* ---- the two defects repaired by 3d18683 and 0cf44dc, documented on the [legacy] model
   (the same transition system without the two repairs) *)

(* C05_eventually fails: a cancelled descendant is never released, <e>_complete never fires *)
Theorem C05_legacy_cancel_refuted :
  exists roots ls, let s := exec legacy ls (start roots) in
    queue s = [] /\ tasks s = [] /\ waiters s = [] /\
    exists e, e < next s /\ ev_compl (spec s e) = true /\ ev_canc (spec s e) = false /\
              fc_count e (log s) = 0.
Proof. exact legacy_cancel_refuted. Qed.
Print Assumptions C05_legacy_cancel_refuted.

(* C05_after_closure_log fails: an event fired from a generator step is handled after
   <e>_complete has been fired *)
Theorem C05_legacy_genstep_refuted :
  exists roots ls l1 l2 e y d, let s := exec legacy ls (start roots) in
    log s = l2 ++ LFC e :: l1 /\ In y l2 /\ hentry y d /\ gdesc (gpar s) e d.
Proof. exact legacy_genstep_refuted. Qed.
Print Assumptions C05_legacy_genstep_refuted.

(* the same two programs and schedules under the current code *)
Example C05_fixed_cancel :
  fc_count 0 (log (exec fixed [LDisp 0; LDisp 0] (start legacy_cancel_prog))) = 1.
Proof. exact fixed_cancel_ok. Qed.
Example C05_fixed_genstep :
  rev (log (exec fixed [LDisp 0; LTask 0; LTask 0; LDisp 0] (start legacy_genstep_prog)))
  = [LF 0; LG 0 0 0; LG 0 0 1; LF 1; LH 1 0; LFC 0].
Proof. exact fixed_genstep_ok. Qed.

(* ---- non-vacuity: a concrete program *)

(* root 1 (complete, success requested) has a generator handler: step 0; then it CALLS event 2
   (channel 1, failure requested); then step 2 fires 5.  Event 2 has a plain handler that fires 3
   (cancelled) and 4 (priority -1, complete-requesting, whose first handler stops and raises) and a
   generator handler that raises.  <1>_complete is fired once, after all of that, and before
   <1>_success is dispatched. *)
Definition ex_prog : list ev :=
  [Ev 1 true false true false 1 0
      [HG 0 [GS []; GC (Ev 2 false false false true 1 1
                   [HP 1 [Ev 3 false true false false 1 0 [HP 0 [] false false];
                          Ev 4 true false false false 0 0 [HP 0 [] true true; HP 0 [] false false]] false false;
                    HG 1 [GR []]]);
             GS [Ev 5 false false false false 1 0 []]]]].
Definition ex_final : st :=
  run fixed 30 [[]; [(1, 0)]; [(1, 0)]; [(2, 1)]; []; [(1, 0)]; [(1, 0)]; [(1, 0)]] (start ex_prog).

Example C05_ex_reachable_quiet :
  reachable ex_final /\ queue ex_final = [] /\ tasks ex_final = [] /\ waiters ex_final = [] /\
  next ex_final = 12.
Proof.
  split; [apply C05_run_reachable; vm_compute; reflexivity|]. vm_compute. auto.
Qed.
(* ids: 0 = event 1, 1 = event 2 (called), 2 = event 3 (cancelled), 3 = event 4, 4 = <2>_failure,
   5 = exception of 2, 6 = <2>_done (fired from the raising generator step: an effect of 2),
   7 = exception of 4, 8 = <4>_complete, 9 = event 5, 10 = <1>_success, 11 = <1>_complete *)
Example C05_ex_log : rev (log ex_final) =
  [LF 0; LG 0 0 0; LG 0 0 1; LF 1; LH 1 0; LF 2; LF 3; LG 1 1 0; LH 3 0; LD 4; LD 5; LD 6; LD 7;
   LFC 3; LG 0 0 2; LF 9; LDC 3; LFC 0; LD 10; LDC 0].
Proof. vm_compute. reflexivity. Qed.
Example C05_ex_kinds :
  map (kind ex_final) [4; 5; 6; 7; 10] = [KFail 1; KExc 1; KDone 1; KExc 3; KSucc 0] /\
  map (gpar ex_final) [1; 2; 3; 4; 5; 6; 7; 9] =
    [Some 0; Some 1; Some 1; Some 1; Some 1; Some 1; Some 3; Some 0].
Proof. vm_compute. auto. Qed.
Example C05_ex_closure : gdesc (gpar ex_final) 0 7 /\ ev_canc (spec ex_final 2) = true.
Proof.
  split; [|vm_compute; auto].
  apply gd_step with (h := 3); [vm_compute; reflexivity|].
  apply gd_step with (h := 1); [vm_compute; reflexivity|].
  apply gd_step with (h := 0); [vm_compute; reflexivity|]. apply gd_refl.
Qed.
(* <1>_success (id 10) is not an effect of event 1: it is dispatched after <1>_complete was fired *)
Example C05_ex_success_outside :
  gpar ex_final 10 = None /\ kind ex_final 10 = KSucc 0 /\
  exists l1 l2, log ex_final = l2 ++ LFC 0 :: l1 /\ In (LD 10) l2.
Proof.
  split; [vm_compute; reflexivity|]. split; [vm_compute; reflexivity|].
  exists (skipn 3 (log ex_final)), (firstn 2 (log ex_final)). vm_compute. auto.
Qed.
(* a reachable state in which the counter invariant is non-trivial: the called event 2 (id 1)
   has been dispatched (its generator handler is pending), its effects 3 and 4 (ids 2, 3) are
   queued: effects = 1 + 2; event 1 (id 0) is suspended in the call: effects = 1 + 1 *)
Example C05_ex_counter :
  let s := exec fixed [LDisp 0; LTask 0; LTask 0; LDisp 0] (start ex_prog) in
  cause s 1 = Some 0 /\ effects s 1 = 3%Z /\ phase s 1 = PActive /\
  cnt (childb (cause s) 1) (next s) = 2 /\ effects s 0 = 2%Z /\ phase s 0 = PActive /\
  queue s = [2; 3] /\ length (waiters s) = 1.
Proof. vm_compute. repeat split; reflexivity. Qed.
