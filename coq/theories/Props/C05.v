(* C05 -- `<name>_complete` fires exactly once, after the whole causal closure has drained.
   Only statements here; proofs are in Proofs/EffectsP.v, the model in Model/Effects.v
   (the model of the code WITH fixes/C05_cancelled_effect.patch and
   fixes/C05_generator_step_effects.patch applied).

   Reading guide.  A state [s] is [reachable] when it is obtained from [start roots] (any forest
   of scripted events fired from outside a handler) by ANY sequence of steps
   [LDisp] (dispatch the head of the queue) / [LTask p] (one next() of the p-th pending generator
   handler): every task-set iteration order and every interleaving of task steps and flushes,
   not only the one of Manager.tick.  Events are numbered in firing order.  [gpar s d = Some h]
   (ghost) says that d was fired by a handler (plain, or any step of a generator handler) of h,
   or is the `exception` event of a raising handler of h; [gdesc (gpar s) e d] is "d belongs to
   the causal closure of e".  [phase s d = PFin] (ghost) says that d has been dispatched to all
   its handlers and all its generator handlers have returned, or that d was cancelled and has
   been skipped by the dispatcher.  [log s] is newest-first. *)
From Coq Require Import List ZArith Bool Arith.
From Circ Require Import Model.Effects Proofs.EffectsP.
Import ListNotations.

(* the invariant named by the property's anchors: for every event that still carries a cause
   attribute, effects = (1 if the event itself is not finished) + number of events whose cause
   attribute points to it *)
Theorem C05_counter : forall s, reachable s -> forall e, cause s e <> None ->
  effects s e = Z.of_nat (selfc (phase s) e + cnt (childb (cause s) e) (next s)).
Proof. exact counter_inv. Qed.
Print Assumptions C05_counter.

(* the `while True` cause-chain walk of _eventDone always terminates (the fuel of the model's
   walk is never exhausted) *)
Theorem C05_walk_terminates : forall s, reachable s -> oof s = false.
Proof. exact no_out_of_fuel. Qed.
Print Assumptions C05_walk_terminates.

(* at most once, in every reachable state *)
Theorem C05_once : forall s, reachable s -> forall e, fc_count e (log s) <= 1.
Proof. exact complete_at_most_once. Qed.
Print Assumptions C05_once.

(* only after the closure has drained: when <e>_complete has been fired, every event of the
   closure of e (e itself, everything fired directly or transitively by plain handlers or by
   generator steps, the exception events of raising handlers; cancelled and stopped events
   included) is finished ... *)
Theorem C05_after_closure : forall s, reachable s -> forall e d,
  In (LFC e) (log s) -> gdesc (gpar s) e d -> phase s d = PFin.
Proof. exact complete_after_closure. Qed.
Print Assumptions C05_after_closure.

(* ... where finished is final: such an event is neither queued nor has a pending generator ... *)
Theorem C05_finished_is_final : forall s, reachable s -> forall d, phase s d = PFin ->
  ~ In d (queue s) /\ (forall t, In t (tasks s) -> tev t <> d).
Proof. exact fin_is_final. Qed.
Print Assumptions C05_finished_is_final.

(* ... and, purely in terms of the log: no handler invocation, generator step or firing of an
   event of the closure of e is logged after the firing of <e>_complete (l2 = what came later) *)
Theorem C05_after_closure_log : forall s, reachable s -> forall l1 l2 e y d,
  log s = l2 ++ LFC e :: l1 -> In y l2 -> hentry y d -> ~ gdesc (gpar s) e d.
Proof. exact complete_log_order. Qed.
Print Assumptions C05_after_closure_log.

(* always eventually: as soon as the closure of a fired, not cancelled, complete-requesting
   event has drained, <e>_complete has been fired -- exactly once.  No hypothesis on how the
   members of the closure ended (cancelled before dispatch, stopped, raising handlers) *)
Theorem C05_fires_when_drained : forall s, reachable s ->
  forall e, e < next s -> ev_compl (spec s e) = true -> ev_canc (spec s e) = false ->
  (forall d, gdesc (gpar s) e d -> phase s d = PFin) ->
  fc_count e (log s) = 1.
Proof. exact complete_when_drained. Qed.
Print Assumptions C05_fires_when_drained.

(* in particular when the queue and the task set are empty *)
Theorem C05_eventually : forall s, reachable s -> queue s = [] -> tasks s = [] ->
  forall e, e < next s -> ev_compl (spec s e) = true -> ev_canc (spec s e) = false ->
  fc_count e (log s) = 1.
Proof. exact complete_eventually. Qed.
Print Assumptions C05_eventually.

(* and then nothing is left behind: every event is finished and has lost its cause attribute *)
Theorem C05_quiescent_clean : forall s, reachable s -> queue s = [] -> tasks s = [] ->
  forall e, e < next s -> phase s e = PFin /\ cause s e = None.
Proof. exact quiescent_all_finished. Qed.
Print Assumptions C05_quiescent_clean.

(* the executable [run] used by the correspondence check (Manager.tick's schedule, task order
   per tick given) only produces reachable states, so all of the above applies to it *)
Theorem C05_run_reachable : forall fuel sched roots,
  oof (run fuel sched (start roots)) = false -> reachable (run fuel sched (start roots)).
Proof. intros fuel sched roots. apply run_reachable. apply start_reachable. Qed.
Print Assumptions C05_run_reachable.

(* ---- non-vacuity: concrete programs *)

(* root 1 (complete) has a generator handler whose second step fires 2; 2's handler fires 3
   (cancelled) and 4 (whose handler stops and raises).  <1>_complete is fired once, last. *)
Definition ex_prog : list ev :=
  [Ev 1 true false
      [HG [[]; [Ev 2 false false
                   [HP [Ev 3 false true [HP [] false false];
                        Ev 4 true false [HP [] true true; HP [] false false]] false false]]]]].
Definition ex_final : st := run 20 [[]; [(1, 0)]; [(1, 0)]] (start ex_prog).

Example C05_ex_reachable_quiet :
  reachable ex_final /\ queue ex_final = [] /\ tasks ex_final = [] /\ next ex_final = 7.
Proof.
  split; [apply C05_run_reachable; vm_compute; reflexivity|]. vm_compute. auto.
Qed.
(* ids: 0 = event 1, 1 = event 2, 2 = event 3 (cancelled), 3 = event 4, 4 = exception event of 4,
   5 = <4>_complete, 6 = <1>_complete *)
Example C05_ex_log : rev (log ex_final) =
  [LF 0; LG 0 0 0; LG 0 0 1; LF 1; LH 1 0; LF 2; LF 3; LH 3 0; LFC 3; LFC 0; LDC 3; LDC 0].
Proof. vm_compute. reflexivity. Qed.
Example C05_ex_closure : gdesc (gpar ex_final) 0 4 /\ gpar ex_final 2 = Some 1 /\ ev_canc (spec ex_final 2) = true.
Proof.
  split; [|vm_compute; auto].
  apply gd_step with (h := 3); [vm_compute; reflexivity|].
  apply gd_step with (h := 1); [vm_compute; reflexivity|].
  apply gd_step with (h := 0); [vm_compute; reflexivity|]. apply gd_refl.
Qed.
(* a reachable state in which the counter invariant is non-trivial: event 2 (id 1) has been
   dispatched and is finished, its two effects (ids 2, 3) are still queued: effects = 0 + 2;
   event 1 (id 0) has finished too and waits for event 2 only: effects = 0 + 1 *)
Example C05_ex_counter :
  let s := exec [LDisp; LTask 0; LTask 0; LDisp] (start ex_prog) in
  cause s 1 = Some 0 /\ effects s 1 = 2%Z /\ phase s 1 = PFin /\
  cnt (childb (cause s) 1) (next s) = 2 /\ effects s 0 = 1%Z /\ phase s 0 = PFin /\ queue s = [2; 3].
Proof. vm_compute. repeat split; reflexivity. Qed.
