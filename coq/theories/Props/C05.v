(* C05 -- statements only; proofs in Proofs/EffectsP.v *)
From Coq Require Import List ZArith.
From Circ Require Import Model.Effects Proofs.EffectsP.
Import ListNotations.

Theorem C05_placeholder : start [] = init.
Proof. exact start_nil. Qed.
Print Assumptions C05_placeholder.
