(* C20 — authentication, session binding and gateway trust are sound.
   Only statements here; proofs live in Proofs/AuthP.v, Proofs/SessionP.v, Proofs/VHostP.v.
   The models describe /repo with fixes/C20_*.patch applied (see notes/C20.md). *)
From Coq Require Import List NArith Bool.
From Circ Require Import Model.Auth Model.Session Model.VHost Proofs.AuthP Proofs.SessionP Proofs.VHostP.
Import ListNotations.
Open Scope N_scope.

(* ---------------------------------------------------------------- authentication *)

(* For every base64 / utf-8 / md5 / parameter-list oracle, every encrypt callable, every
   Authorization value (or none), method, realm and user table:
   check_auth says "authenticated as u"  iff  the value carries Basic credentials that
   verify against u's entry, or Digest credentials that verify against u's entry for the
   configured realm and the request method.  Every other value gives Refused or Crash. *)
Theorem C20_auth_sound : forall b64 utf8 md5 keqv enc hdr method realm users u,
  check_auth b64 utf8 md5 keqv enc hdr method realm users = Authd u <->
  verifies b64 utf8 md5 keqv enc hdr method realm users u.
Proof. exact auth_sound. Qed.
Print Assumptions C20_auth_sound.

(* tools.basic_auth / tools.digest_auth let the protected handler continue exactly then *)
Theorem C20_protected_served : forall b64 utf8 md5 keqv enc hdr method realm users,
  (protected_served (basic_auth b64 utf8 md5 keqv enc hdr method realm users) = true <->
     exists u, verifies b64 utf8 md5 keqv enc hdr method realm users u)
  /\ (protected_served (digest_auth b64 utf8 md5 keqv hdr method realm users) = true <->
     exists u, verifies b64 utf8 md5 keqv default_enc hdr method realm users u).
Proof. exact tools_served. Qed.
Print Assumptions C20_protected_served.

(* a user absent from the table is never authenticated, whatever password is derived *)
Theorem C20_unknown_user_refused : forall b64 utf8 md5 keqv enc hdr method realm users u,
  users u = None -> check_auth b64 utf8 md5 keqv enc hdr method realm users <> Authd u.
Proof. exact unknown_user_refused. Qed.
Print Assumptions C20_unknown_user_refused.

(* a Digest value whose parameters do not validate (missing field, qop without nc/cnonce, ...)
   is refused with request.login = False *)
Theorem C20_malformed_digest_refused :
  forall b64 utf8 md5 keqv enc cred scheme rest ps method realm users,
  split_at SP cred = Some (scheme, rest) -> lower scheme = s_digest ->
  keqv rest = Some ps -> digest_valid ps = false ->
  check_auth b64 utf8 md5 keqv enc (Some cred) method realm users = Refused true.
Proof. exact malformed_digest_refused. Qed.
Print Assumptions C20_malformed_digest_refused.

Theorem C20_digest_wrong_realm :
  forall b64 utf8 md5 keqv enc cred scheme rest ps method realm users u,
  split_at SP cred = Some (scheme, rest) -> lower scheme = s_digest -> keqv rest = Some ps ->
  lookup s_realm ps <> Some realm ->
  check_auth b64 utf8 md5 keqv enc (Some cred) method realm users <> Authd u.
Proof. exact digest_wrong_realm. Qed.
Print Assumptions C20_digest_wrong_realm.

(* no space or a scheme other than basic/digest: an exception (the handler fails) *)
Theorem C20_unknown_scheme : forall b64 utf8 md5 keqv enc cred method realm users,
  (forall scheme rest, split_at SP cred = Some (scheme, rest) ->
      lower scheme <> s_basic /\ lower scheme <> s_digest) ->
  check_auth b64 utf8 md5 keqv enc (Some cred) method realm users = Crash.
Proof. exact unknown_scheme. Qed.
Print Assumptions C20_unknown_scheme.

(* the supported Digest variants, each with its request-digest formula spelled out
   (parse = PDigest ps: the header is `digest <params>` and the parameter set validates) *)

(* no qop (RFC 2069): response = H( H(u:realm:pw) : nonce : H(method:uri) ) *)
Theorem C20_digest_legacy :
  forall b64 utf8 md5 keqv enc cred ps method realm users u pw prealm nonce uri resp,
  parse_authorization b64 utf8 keqv cred = PDigest ps -> alg_md5 ps -> lookup s_qop ps = None ->
  lookup s_username ps = Some u -> lookup s_realm ps = Some prealm ->
  lookup s_nonce ps = Some nonce -> lookup s_uri ps = Some uri ->
  lookup s_response ps = Some resp -> users u = Some pw ->
  (check_auth b64 utf8 md5 keqv enc (Some cred) method realm users = Authd u <->
     prealm = realm /\ exists h1 h2,
       md5 (colon_join [u; prealm; pw]) = Some h1 /\ md5 (colon_join [method; uri]) = Some h2 /\
       md5 (colon_join [h1; colon_join [nonce; h2]]) = Some resp).
Proof. exact digest_legacy_iff. Qed.
Print Assumptions C20_digest_legacy.

(* qop=auth, algorithm MD5 or absent:
   response = H( H(u:realm:pw) : nonce:nc:cnonce:auth : H(method:uri) ) *)
Theorem C20_digest_qop_auth :
  forall b64 utf8 md5 keqv enc cred ps method realm users u pw prealm nonce uri nc cn resp,
  parse_authorization b64 utf8 keqv cred = PDigest ps -> alg_md5 ps -> lookup s_qop ps = Some s_auth ->
  lookup s_username ps = Some u -> lookup s_realm ps = Some prealm ->
  lookup s_nonce ps = Some nonce -> lookup s_uri ps = Some uri ->
  lookup s_nc ps = Some nc -> lookup s_cnonce ps = Some cn ->
  lookup s_response ps = Some resp -> users u = Some pw ->
  (check_auth b64 utf8 md5 keqv enc (Some cred) method realm users = Authd u <->
     prealm = realm /\ exists h1 h2,
       md5 (colon_join [u; prealm; pw]) = Some h1 /\ md5 (colon_join [method; uri]) = Some h2 /\
       md5 (colon_join [h1; colon_join [nonce; nc; cn; s_auth; h2]]) = Some resp).
Proof. exact digest_qop_auth_iff. Qed.
Print Assumptions C20_digest_qop_auth.

(* algorithm=MD5-sess, qop=auth:  A1 = H(u:realm:pw):nonce:cnonce,
   response = H( H(A1) : nonce:nc:cnonce:auth : H(method:uri) ) *)
Theorem C20_digest_md5_sess :
  forall b64 utf8 md5 keqv enc cred ps method realm users u pw prealm nonce uri nc cn resp,
  parse_authorization b64 utf8 keqv cred = PDigest ps ->
  lookup s_algorithm ps = Some s_MD5_sess -> lookup s_qop ps = Some s_auth ->
  lookup s_username ps = Some u -> lookup s_realm ps = Some prealm ->
  lookup s_nonce ps = Some nonce -> lookup s_uri ps = Some uri ->
  lookup s_nc ps = Some nc -> lookup s_cnonce ps = Some cn ->
  lookup s_response ps = Some resp -> users u = Some pw ->
  (check_auth b64 utf8 md5 keqv enc (Some cred) method realm users = Authd u <->
     prealm = realm /\ exists h h1 h2,
       md5 (colon_join [u; prealm; pw]) = Some h /\ md5 (colon_join [h; nonce; cn]) = Some h1 /\
       md5 (colon_join [method; uri]) = Some h2 /\
       md5 (colon_join [h1; colon_join [nonce; nc; cn; s_auth; h2]]) = Some resp).
Proof. exact digest_md5_sess_iff. Qed.
Print Assumptions C20_digest_md5_sess.

(* what _httpauth cannot compute (qop other than auth, e.g. auth-int; algorithm other than
   MD5 / MD5-sess, e.g. SHA1) has no response: an exception, never "authenticated" *)
Theorem C20_digest_unsupported : forall md5 ps pw method,
  (exists q, lookup s_qop ps = Some q /\ q <> s_auth) \/
  (exists a, lookup s_algorithm ps = Some a /\ a <> s_MD5 /\ a <> s_MD5_sess) ->
  digest_response md5 ps pw method = None.
Proof. exact digest_unsupported. Qed.
Print Assumptions C20_digest_unsupported.

(* Basic against a dict or a callable (any function user -> entry) of possibly pre-encrypted
   passwords: the presented password goes through the configured encrypt *)
Theorem C20_basic_encrypted : forall b64 utf8 md5 keqv enc cred method realm users u p,
  parse_authorization b64 utf8 keqv cred = PBasic u p ->
  (check_auth b64 utf8 md5 keqv enc (Some cred) method realm users = Authd u <->
     exists e, users u = Some e /\ enc p u = Some e).
Proof. exact basic_encrypted_iff. Qed.
Print Assumptions C20_basic_encrypted.

(* ---------------------------------------------------------------- sessions *)

(* every pair of requests (any cookies, addresses, agents, uuids without '/'):
   if both are served the same session id they have the same client fingerprint *)
Theorem C20_session_pair : forall sha u1 r1 u2 r2,
  no_slash u1 -> no_slash u2 -> serve sha u1 r1 = serve sha u2 r2 -> who sha r1 = who sha r2.
Proof. exact same_sid_same_fingerprint. Qed.
Print Assumptions C20_session_pair.

(* every history from the empty store, every position: data seen by a request was written by
   an earlier request served the same id, from the same fingerprint *)
Theorem C20_session_binding : forall sha h1 r a u h2,
  Forall (fun x : req * action * str => no_slash (snd x)) (h1 ++ (r, a, u) :: h2) ->
  exists d,
    nth_error (run sha [] (h1 ++ (r, a, u) :: h2)) (length h1) = Some (serve sha u r, d) /\
    forall v, d = Some v ->
      exists r' u', In (r', Write v, u') h1 /\ serve sha u' r' = serve sha u r /\ who sha r' = who sha r.
Proof. exact session_binding. Qed.
Print Assumptions C20_session_binding.

(* a request not presenting an id that ends in its own fingerprint gets a newly created id;
   under uuid freshness that id is not in the store and carries no data *)
Theorem C20_session_others_fresh : forall sha u r s,
  (forall c h, cookie r = Some c -> split_at SLASH c <> Some (h, who sha r)) ->
  serve sha u r = create sha u r /\
  (fresh u s -> lookup (create sha u r) s = None /\ fst (load (create sha u r) s) = None).
Proof. exact others_fresh. Qed.
Print Assumptions C20_session_others_fresh.

Theorem C20_session_data_needs_cookie : forall sha h1 r a u h2 d,
  nth_error (run sha [] (h1 ++ (r, a, u) :: h2)) (length h1) = Some (serve sha u r, Some d) ->
  fresh u (final sha [] h1) ->
  cookie r = Some (serve sha u r).
Proof. exact data_needs_cookie. Qed.
Print Assumptions C20_session_data_needs_cookie.

(* The client as the (address, user agent) pair.  The hypothesis that makes "fingerprint" mean
   "pair" is explicit: the hash is injective (and an address contains no '|'). *)

(* no fingerprint collision (holds for who() = sha1(ip|agent); refuted below for sha1(ip agent)) *)
Theorem C20_session_fingerprint_collision : forall sha, injective sha -> forall r1 r2,
  no_sep (ip r1) -> no_sep (ip r2) -> who sha r1 = who sha r2 ->
  ip r1 = ip r2 /\ agent r1 = agent r2.
Proof. exact fingerprint_pair. Qed.
Print Assumptions C20_session_fingerprint_collision.

(* the formula of the unrepaired code: different pairs, one fingerprint, whatever the hash *)
Theorem C20_session_fingerprint_concat_refuted :
  exists ip1 a1 ip2 a2 : str, (ip1, a1) <> (ip2, a2) /\
    forall sha : str -> str, sha (ip1 ++ a1) = sha (ip2 ++ a2).
Proof. exact concat_fingerprint_collides. Qed.
Print Assumptions C20_session_fingerprint_concat_refuted.

Theorem C20_session_pair_client : forall sha, injective sha -> forall u1 r1 u2 r2,
  no_slash u1 -> no_slash u2 -> no_sep (ip r1) -> no_sep (ip r2) ->
  serve sha u1 r1 = serve sha u2 r2 -> ip r1 = ip r2 /\ agent r1 = agent r2.
Proof. exact same_sid_same_client. Qed.
Print Assumptions C20_session_pair_client.

(* data seen by a request was written by an earlier request from the same address with the
   same user agent, presenting / served the same id *)
Theorem C20_session_binding_client : forall sha, injective sha -> forall h1 r a u h2,
  Forall (fun x : req * action * str => no_slash (snd x) /\ no_sep (ip (fst (fst x))))
         (h1 ++ (r, a, u) :: h2) ->
  exists d,
    nth_error (run sha [] (h1 ++ (r, a, u) :: h2)) (length h1) = Some (serve sha u r, d) /\
    forall v, d = Some v ->
      exists r' u', In (r', Write v, u') h1 /\ serve sha u' r' = serve sha u r /\
                    ip r' = ip r /\ agent r' = agent r.
Proof. exact session_binding_client. Qed.
Print Assumptions C20_session_binding_client.

(* ---------------------------------------------------------------- trusted gateways *)

(* With a gateway list configured, a request from an address outside it is routed by its
   Host header alone: replacing its X-Forwarded-Host by anything changes nothing. *)
Theorem C20_gateway_untrusted : forall urljoin domains l r x,
  ~ In (remote_ip r) l ->
  on_request urljoin domains (Some l) (set_xfh r x) = on_request urljoin domains (Some l) r
  /\ domain (Some l) r = host r.
Proof. exact untrusted_ignored. Qed.
Print Assumptions C20_gateway_untrusted.

(* the looked-up domain is the forwarded host iff the sender is trusted (or no list is
   configured) and the first entry of the header is not blank; otherwise it is Host *)
(* the same for a peer without an address (request.remote.ip = None, a UNIX-socket peer):
   untrusted unless the configured list names None itself *)
Theorem C20_gateway_addressless : forall urljoin domains l r x,
  remote_ip r = None -> ~ In None l ->
  on_request urljoin domains (Some l) (set_xfh r x) = on_request urljoin domains (Some l) r
  /\ domain (Some l) r = host r.
Proof. exact addressless_untrusted. Qed.
Print Assumptions C20_gateway_addressless.

Theorem C20_gateway_rule : forall tg r,
  (is_trusted tg (remote_ip r) /\ forwarded r <> [] -> domain tg r = forwarded r)
  /\ (~ (is_trusted tg (remote_ip r) /\ forwarded r <> []) -> domain tg r = host r).
Proof. exact domain_rule. Qed.
Print Assumptions C20_gateway_rule.

Theorem C20_gateway_influence : forall urljoin domains tg r x,
  on_request urljoin domains tg (set_xfh r x) <> on_request urljoin domains tg r ->
  is_trusted tg (remote_ip r).
Proof. exact influence_only_trusted. Qed.
Print Assumptions C20_gateway_influence.

(* ---------------------------------------------------------------- non-vacuity *)

(* "Basic x" decoding to a:p against {a: p} with encrypt=str *)
Example C20_ex_basic :
  check_auth (fun _ => Some [97; 58; 112]) (fun b => Some b) (fun s => Some s) (fun _ => None)
    (fun p _ => Some p) (Some [66; 97; 115; 105; 99; 32; 120]) [71; 69; 84] [82] (table_of [([97], [112])])
  = Authd [97].
Proof. vm_compute. reflexivity. Qed.

(* Digest with the identity as "hash": response = H(H(a:R:p):n:H(GET:/)) *)
Example C20_ex_digest :
  check_auth (fun _ => None) (fun b => Some b) (fun s => Some s)
    (fun _ => Some [(s_username, [97]); (s_realm, [82]); (s_nonce, [110]); (s_uri, [47]);
                    (s_response, [97; 58; 82; 58; 112; 58; 110; 58; 71; 69; 84; 58; 47])])
    default_enc (Some (s_digest ++ [32; 120])) [71; 69; 84] [82] (table_of [([97], [112])])
  = Authd [97].
Proof. vm_compute. reflexivity. Qed.

(* same header, user b absent from the table, client derives the password "None" *)
Example C20_ex_unknown_user :
  check_auth (fun _ => None) (fun b => Some b) (fun s => Some s)
    (fun _ => Some [(s_username, [98]); (s_realm, [82]); (s_nonce, [110]); (s_uri, [47]);
                    (s_response, [98; 58; 82; 58; 78; 111; 110; 101; 58; 110; 58; 71; 69; 84; 58; 47])])
    default_enc (Some (s_digest ++ [32; 120])) [71; 69; 84] [82] (table_of [([97], [112])])
  = Refused true.
Proof. vm_compute. reflexivity. Qed.

(* Digest username="a" only: refused *)
Example C20_ex_malformed :
  check_auth (fun _ => None) (fun b => Some b) (fun s => Some s) (fun _ => Some [(s_username, [97])])
    default_enc (Some (s_digest ++ [32; 120])) [71; 69; 84] [82] (table_of [([97], [112])])
  = Refused true.
Proof. vm_compute. reflexivity. Qed.

(* client A (ip 1, agent 2) stores 7; client B replays A's cookie and gets a new empty session;
   A gets its data back.  sha = identity. *)
Example C20_ex_session :
  run (fun s => s) []
    [ ({| cookie := None; ip := [1]; agent := [2] |}, Write 7, [100]);
      ({| cookie := Some [100; 47; 1; 124; 2]; ip := [3]; agent := [2] |}, Read, [101]);
      ({| cookie := Some [100; 47; 1; 124; 2]; ip := [1]; agent := [2] |}, Read, [102]) ]
  = [ ([100; 47; 1; 124; 2], None); ([101; 47; 3; 124; 2], None); ([100; 47; 1; 124; 2], Some 7) ].
Proof. vm_compute. reflexivity. Qed.

(* gateway 9 configured; X-Forwarded-Host "B" from address 8 is ignored, from 9 honoured *)
Example C20_ex_gateway :
  (on_request (fun a b => a ++ b) [([97], [120]); ([98], [121])] (Some [Some [57]])
     {| remote_ip := Some [56]; host := [97]; xfh := [66]; path := [47; 112] |},
   on_request (fun a b => a ++ b) [([97], [120]); ([98], [121])] (Some [Some [57]])
     {| remote_ip := Some [57]; host := [97]; xfh := [66]; path := [47; 112] |})
  = ([47; 120; 47; 112], [47; 121; 47; 112]).
Proof. vm_compute. reflexivity. Qed.

(* the identity is injective: the hypothesis of the client-level theorems is satisfiable *)
Example C20_ex_injective : injective (fun s => s).
Proof. intros a b H. exact H. Qed.

(* qop=auth with the identity as hash: H(a:R:p) : n:1:c:auth : H(GET:/) *)
Example C20_ex_digest_qop_auth :
  check_auth (fun _ => None) (fun b => Some b) (fun s => Some s)
    (fun _ => Some [(s_username, [97]); (s_realm, [82]); (s_nonce, [110]); (s_uri, [47]);
                    (s_qop, s_auth); (s_nc, [49]); (s_cnonce, [99]);
                    (s_response, [97; 58; 82; 58; 112; 58; 110; 58; 49; 58; 99; 58] ++ s_auth ++ [58; 71; 69; 84; 58; 47])])
    default_enc (Some (s_digest ++ [32; 120])) [71; 69; 84] [82] (table_of [([97], [112])])
  = Authd [97].
Proof. vm_compute. reflexivity. Qed.

(* MD5-sess: A1 = H(a:R:p):n:c *)
Example C20_ex_digest_md5_sess :
  check_auth (fun _ => None) (fun b => Some b) (fun s => Some s)
    (fun _ => Some [(s_username, [97]); (s_realm, [82]); (s_nonce, [110]); (s_uri, [47]);
                    (s_qop, s_auth); (s_nc, [49]); (s_cnonce, [99]); (s_algorithm, s_MD5_sess);
                    (s_response, [97; 58; 82; 58; 112; 58; 110; 58; 99; 58; 110; 58; 49; 58; 99; 58] ++ s_auth ++ [58; 71; 69; 84; 58; 47])])
    default_enc (Some (s_digest ++ [32; 120])) [71; 69; 84] [82] (table_of [([97], [112])])
  = Authd [97].
Proof. vm_compute. reflexivity. Qed.

(* an address-less peer (remote.ip = None, a UNIX socket) with gateways [9] / [] configured is ignored;
   only a list that names None trusts it *)
Example C20_ex_gateway_addressless :
  (on_request (fun a b => a ++ b) [([97], [120]); ([98], [121])] (Some [Some [57]])
     {| remote_ip := None; host := [97]; xfh := [66]; path := [47; 112] |},
   on_request (fun a b => a ++ b) [([97], [120]); ([98], [121])] (Some [])
     {| remote_ip := None; host := [97]; xfh := [66]; path := [47; 112] |},
   on_request (fun a b => a ++ b) [([97], [120]); ([98], [121])] (Some [None])
     {| remote_ip := None; host := [97]; xfh := [66]; path := [47; 112] |})
  = ([47; 120; 47; 112], [47; 120; 47; 112], [47; 121; 47; 112]).
Proof. vm_compute. reflexivity. Qed.

(* the EMPTY configured realm (challenge `Digest realm=""`) is a realm like any other:
   C20_digest_wrong_realm and C20_auth_sound quantify over every [realm : str], [] included.
   Right credentials made for realm "R" are refused by a resource whose realm is "" ... *)
Example C20_ex_empty_realm_foreign :
  check_auth (fun _ => None) (fun b => Some b) (fun s => Some s)
    (fun _ => Some [(s_username, [97]); (s_realm, [82]); (s_nonce, [110]); (s_uri, [47]);
                    (s_response, [97; 58; 82; 58; 112; 58; 110; 58; 71; 69; 84; 58; 47])])
    default_enc (Some (s_digest ++ [32; 120])) [71; 69; 84] [] (table_of [([97], [112])])
  = Refused true.
Proof. vm_compute. reflexivity. Qed.

(* ... and credentials made for realm "" (A1 = a::p) are accepted by it *)
Example C20_ex_empty_realm_own :
  check_auth (fun _ => None) (fun b => Some b) (fun s => Some s)
    (fun _ => Some [(s_username, [97]); (s_realm, []); (s_nonce, [110]); (s_uri, [47]);
                    (s_response, [97; 58; 58; 112; 58; 110; 58; 71; 69; 84; 58; 47])])
    default_enc (Some (s_digest ++ [32; 120])) [71; 69; 84] [] (table_of [([97], [112])])
  = Authd [97].
Proof. vm_compute. reflexivity. Qed.

(* the hypothesis of C20_digest_wrong_realm with the empty configured realm is satisfiable *)
Example C20_ex_wrong_realm_hyp : lookup s_realm [(s_realm, [82])] <> Some ([] : str).
Proof. vm_compute. discriminate. Qed.
