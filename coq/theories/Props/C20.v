(* C20 — authentication, session binding and gateway trust are sound.
   Only statements here; proofs live in Proofs/AuthP.v, Proofs/SessionP.v, Proofs/VHostP.v.
   The models describe /repo with fixes/C20_*.patch applied (see notes/C20.md). *)
From Coq Require Import List NArith Bool.
From Circ Require Import Model.Auth Model.Session Model.VHost Proofs.AuthP Proofs.SessionP Proofs.VHostP.
Import ListNotations.
Open Scope N_scope.

(* ---------------------------------------------------------------- authentication *)

(* For every base64 / utf-8 / md5 / parameter-list oracle, every encrypt callable, every
   Authorization value (or none), method, realm and user table:
   check_auth says "authenticated as u"  iff  the value carries Basic credentials that
   verify against u's entry, or Digest credentials that verify against u's entry for the
   configured realm and the request method.  Every other value gives Refused or Crash. *)
Theorem C20_auth_sound : forall b64 utf8 md5 keqv enc hdr method realm users u,
  check_auth b64 utf8 md5 keqv enc hdr method realm users = Authd u <->
  verifies b64 utf8 md5 keqv enc hdr method realm users u.
Proof. exact auth_sound. Qed.
Print Assumptions C20_auth_sound.

(* tools.basic_auth / tools.digest_auth let the protected handler continue exactly then *)
Theorem C20_protected_served : forall b64 utf8 md5 keqv enc hdr method realm users,
  (protected_served (basic_auth b64 utf8 md5 keqv enc hdr method realm users) = true <->
     exists u, verifies b64 utf8 md5 keqv enc hdr method realm users u)
  /\ (protected_served (digest_auth b64 utf8 md5 keqv hdr method realm users) = true <->
     exists u, verifies b64 utf8 md5 keqv default_enc hdr method realm users u).
Proof. exact tools_served. Qed.
Print Assumptions C20_protected_served.

(* a user absent from the table is never authenticated, whatever password is derived *)
Theorem C20_unknown_user_refused : forall b64 utf8 md5 keqv enc hdr method realm users u,
  lookup u users = None -> check_auth b64 utf8 md5 keqv enc hdr method realm users <> Authd u.
Proof. exact unknown_user_refused. Qed.
Print Assumptions C20_unknown_user_refused.

(* a Digest value whose parameters do not validate (missing field, qop without nc/cnonce, ...)
   is refused with request.login = False *)
Theorem C20_malformed_digest_refused :
  forall b64 utf8 md5 keqv enc cred scheme rest ps method realm users,
  split_at SP cred = Some (scheme, rest) -> lower scheme = s_digest ->
  keqv rest = Some ps -> digest_valid ps = false ->
  check_auth b64 utf8 md5 keqv enc (Some cred) method realm users = Refused true.
Proof. exact malformed_digest_refused. Qed.
Print Assumptions C20_malformed_digest_refused.

Theorem C20_digest_wrong_realm :
  forall b64 utf8 md5 keqv enc cred scheme rest ps method realm users u,
  split_at SP cred = Some (scheme, rest) -> lower scheme = s_digest -> keqv rest = Some ps ->
  lookup s_realm ps <> Some realm ->
  check_auth b64 utf8 md5 keqv enc (Some cred) method realm users <> Authd u.
Proof. exact digest_wrong_realm. Qed.
Print Assumptions C20_digest_wrong_realm.

(* no space or a scheme other than basic/digest: an exception (the handler fails) *)
Theorem C20_unknown_scheme : forall b64 utf8 md5 keqv enc cred method realm users,
  (forall scheme rest, split_at SP cred = Some (scheme, rest) ->
      lower scheme <> s_basic /\ lower scheme <> s_digest) ->
  check_auth b64 utf8 md5 keqv enc (Some cred) method realm users = Crash.
Proof. exact unknown_scheme. Qed.
Print Assumptions C20_unknown_scheme.

(* ---------------------------------------------------------------- sessions *)

(* every pair of requests (any cookies, addresses, agents, uuids without '/'):
   if both are served the same session id they have the same client fingerprint *)
Theorem C20_session_pair : forall sha u1 r1 u2 r2,
  no_slash u1 -> no_slash u2 -> serve sha u1 r1 = serve sha u2 r2 -> who sha r1 = who sha r2.
Proof. exact same_sid_same_fingerprint. Qed.
Print Assumptions C20_session_pair.

(* every history from the empty store, every position: data seen by a request was written by
   an earlier request served the same id, from the same fingerprint *)
Theorem C20_session_binding : forall sha h1 r a u h2,
  Forall (fun x : req * action * str => no_slash (snd x)) (h1 ++ (r, a, u) :: h2) ->
  exists d,
    nth_error (run sha [] (h1 ++ (r, a, u) :: h2)) (length h1) = Some (serve sha u r, d) /\
    forall v, d = Some v ->
      exists r' u', In (r', Write v, u') h1 /\ serve sha u' r' = serve sha u r /\ who sha r' = who sha r.
Proof. exact session_binding. Qed.
Print Assumptions C20_session_binding.

(* a request not presenting an id that ends in its own fingerprint gets a newly created id;
   under uuid freshness that id is not in the store and carries no data *)
Theorem C20_session_others_fresh : forall sha u r s,
  (forall c h, cookie r = Some c -> split_at SLASH c <> Some (h, who sha r)) ->
  serve sha u r = create sha u r /\
  (fresh u s -> lookup (create sha u r) s = None /\ fst (load (create sha u r) s) = None).
Proof. exact others_fresh. Qed.
Print Assumptions C20_session_others_fresh.

Theorem C20_session_data_needs_cookie : forall sha h1 r a u h2 d,
  nth_error (run sha [] (h1 ++ (r, a, u) :: h2)) (length h1) = Some (serve sha u r, Some d) ->
  fresh u (final sha [] h1) ->
  cookie r = Some (serve sha u r).
Proof. exact data_needs_cookie. Qed.
Print Assumptions C20_session_data_needs_cookie.

(* ---------------------------------------------------------------- trusted gateways *)

(* With a gateway list configured, a request from an address outside it is routed by its
   Host header alone: replacing its X-Forwarded-Host by anything changes nothing. *)
Theorem C20_gateway_untrusted : forall urljoin domains l r x,
  ~ In (remote_ip r) l ->
  on_request urljoin domains (Some l) (set_xfh r x) = on_request urljoin domains (Some l) r
  /\ domain (Some l) r = host r.
Proof. exact untrusted_ignored. Qed.
Print Assumptions C20_gateway_untrusted.

(* the looked-up domain is the forwarded host iff the sender is trusted (or no list is
   configured) and the first entry of the header is not blank; otherwise it is Host *)
Theorem C20_gateway_rule : forall tg r,
  (is_trusted tg (remote_ip r) /\ forwarded r <> [] -> domain tg r = forwarded r)
  /\ (~ (is_trusted tg (remote_ip r) /\ forwarded r <> []) -> domain tg r = host r).
Proof. exact domain_rule. Qed.
Print Assumptions C20_gateway_rule.

Theorem C20_gateway_influence : forall urljoin domains tg r x,
  on_request urljoin domains tg (set_xfh r x) <> on_request urljoin domains tg r ->
  is_trusted tg (remote_ip r).
Proof. exact influence_only_trusted. Qed.
Print Assumptions C20_gateway_influence.

(* ---------------------------------------------------------------- non-vacuity *)

(* "Basic x" decoding to a:p against {a: p} with encrypt=str *)
Example C20_ex_basic :
  check_auth (fun _ => Some [97; 58; 112]) (fun b => Some b) (fun s => Some s) (fun _ => None)
    (fun p _ => Some p) (Some [66; 97; 115; 105; 99; 32; 120]) [71; 69; 84] [82] [([97], [112])]
  = Authd [97].
Proof. vm_compute. reflexivity. Qed.

(* Digest with the identity as "hash": response = H(H(a:R:p):n:H(GET:/)) *)
Example C20_ex_digest :
  check_auth (fun _ => None) (fun b => Some b) (fun s => Some s)
    (fun _ => Some [(s_username, [97]); (s_realm, [82]); (s_nonce, [110]); (s_uri, [47]);
                    (s_response, [97; 58; 82; 58; 112; 58; 110; 58; 71; 69; 84; 58; 47])])
    default_enc (Some (s_digest ++ [32; 120])) [71; 69; 84] [82] [([97], [112])]
  = Authd [97].
Proof. vm_compute. reflexivity. Qed.

(* same header, user b absent from the table, client derives the password "None" *)
Example C20_ex_unknown_user :
  check_auth (fun _ => None) (fun b => Some b) (fun s => Some s)
    (fun _ => Some [(s_username, [98]); (s_realm, [82]); (s_nonce, [110]); (s_uri, [47]);
                    (s_response, [98; 58; 82; 58; 78; 111; 110; 101; 58; 110; 58; 71; 69; 84; 58; 47])])
    default_enc (Some (s_digest ++ [32; 120])) [71; 69; 84] [82] [([97], [112])]
  = Refused true.
Proof. vm_compute. reflexivity. Qed.

(* Digest username="a" only: refused *)
Example C20_ex_malformed :
  check_auth (fun _ => None) (fun b => Some b) (fun s => Some s) (fun _ => Some [(s_username, [97])])
    default_enc (Some (s_digest ++ [32; 120])) [71; 69; 84] [82] [([97], [112])]
  = Refused true.
Proof. vm_compute. reflexivity. Qed.

(* client A (ip 1, agent 2) stores 7; client B replays A's cookie and gets a new empty session;
   A gets its data back.  sha = identity. *)
Example C20_ex_session :
  run (fun s => s) []
    [ ({| cookie := None; ip := [1]; agent := [2] |}, Write 7, [100]);
      ({| cookie := Some [100; 47; 1; 2]; ip := [3]; agent := [2] |}, Read, [101]);
      ({| cookie := Some [100; 47; 1; 2]; ip := [1]; agent := [2] |}, Read, [102]) ]
  = [ ([100; 47; 1; 2], None); ([101; 47; 3; 2], None); ([100; 47; 1; 2], Some 7) ].
Proof. vm_compute. reflexivity. Qed.

(* gateway 9 configured; X-Forwarded-Host "B" from address 8 is ignored, from 9 honoured *)
Example C20_ex_gateway :
  (on_request (fun a b => a ++ b) [([97], [120]); ([98], [121])] (Some [[57]])
     {| remote_ip := [56]; host := [97]; xfh := [66]; path := [47; 112] |},
   on_request (fun a b => a ++ b) [([97], [120]); ([98], [121])] (Some [[57]])
     {| remote_ip := [57]; host := [97]; xfh := [66]; path := [47; 112] |})
  = ([47; 120; 47; 112], [47; 121; 47; 112]).
Proof. vm_compute. reflexivity. Qed.
