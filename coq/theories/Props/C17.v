(* C17 — WebSocket frames round-trip exactly, whatever the segmentation or fragmentation.
   Only statements here; proofs live in Proofs/WebSocketP.v.

   Model/WebSocket.v is the codec (as repaired by fixes/C17_*.patch): [send] = the write handler,
   [recv] = one read event through _parse_messages plus the close handler, [recv_all] = a sequence of
   reads.  The conforming peer is specified by the independent encoder [rfc_frame] (RFC 6455 5.2) and by
   [items_bytes] (messages, possibly split into continuation frames, ping/pong frames in between).
   Vocabulary from the proofs file:
     keyf k4 n        = the n-th masking key the endpoint draws (os.urandom), k4 : nat -> key4 arbitrary
     okey k4 client n = Some (k4 n) for a client endpoint (which masks), None for a server endpoint
     clean n          = codec state with empty buffer, no pending fragments, no close seen or sent,
                        n keys drawn so far
     pongs k4 client n qs = the frames [rfc_frame true 10 key q] for the ping payloads qs, in order
     bumps client n k = key index after writing k more frames
     wf_len p         = length p < 2^64 ;  wf_item = wf_len of every payload in the item *)
From Coq Require Import List NArith Bool.
From Circ Require Import Lib.Obs Model.WebSocket Proofs.WebSocketP.
Import ListNotations.
Open Scope N_scope.

(* ---- endpoint -> peer: what the write handler emits IS the RFC frame of the message: FIN, opcode
   1 (text) / 2 (binary), minimal length encoding, masked with the drawn key iff the endpoint is a client *)
Theorem C17_write_is_rfc_frame : forall (k4 : nat -> key4) (client : bool) s (text : bool) p,
  csent s = false ->
  send (keyf k4) client s text p =
  ROk (mkS (buf s) (mkP (pend (ps s)) (ptype (ps s)) (bump client (nk (ps s)))) (crecv s) false,
       mkO [] [rfc_frame true (if text then 1 else 2) (okey k4 client (nk (ps s))) p] 0).
Proof. exact send_rfc. Qed.
Print Assumptions C17_write_is_rfc_frame.

(* ---- peer -> endpoint, one frame: every RFC frame (7-bit, 16-bit and 64-bit length, masked with any
   key or unmasked, any opcode, FIN or not) is decoded to exactly its payload and the bytes after it *)
Theorem C17_decode_frame : forall (fin : bool) op (mk : option key4) p rest,
  op < 16 -> wf_len p ->
  parse_frame (rfc_frame fin op mk p ++ rest) = FFrame fin op p rest.
Proof. exact parse_rfc_frame. Qed.
Print Assumptions C17_decode_frame.

(* ---- round trip under every cut: the frame of a message, cut into reads anywhere (inside the header,
   the extended length, the key, the payload), delivers exactly that message, once *)
Theorem C17_roundtrip : forall (k4 : nat -> key4) (client : bool) (text : bool) (mk : option key4) p n chunks,
  wf_len p ->
  concat chunks = rfc_frame true (if text then 1 else 2) mk p ->
  recv_all (keyf k4) client (clean n) chunks = ROk (clean n, mkO [(text, p)] [] 0).
Proof. exact roundtrip. Qed.
Print Assumptions C17_roundtrip.

(* ---- segmentation: for ANY byte stream (conforming or not) and any key oracle, feeding it in pieces
   is the same as feeding it at once: same messages, same frames written, same close, same final state *)
Theorem C17_segmentation : forall (keyfn : nat -> list N) (client : bool) s chunks,
  buf s = [] ->
  recv_all keyfn client s chunks = recv_all keyfn client s [concat chunks].
Proof. exact segmentation. Qed.
Print Assumptions C17_segmentation.

(* ... from any state at all (bytes of an unfinished frame in the buffer, fragments pending, close sent) *)
Theorem C17_segmentation_any_state : forall (keyfn : nat -> list N) (client : bool) cs s c,
  recv_all keyfn client s (c :: cs) = recv_all keyfn client s [concat (c :: cs)].
Proof. exact segmentation_ne. Qed.
Print Assumptions C17_segmentation_any_state.

Theorem C17_cut_independent : forall (keyfn : nat -> list N) (client : bool) s cs1 cs2,
  buf s = [] -> concat cs1 = concat cs2 ->
  recv_all keyfn client s cs1 = recv_all keyfn client s cs2.
Proof. exact segmentation_eq. Qed.
Print Assumptions C17_cut_independent.

(* ---- fragmentation and control frames: any sequence of messages, each split into any number of
   continuation frames (each with its own key or none, empty fragments allowed), with ping and pong frames
   after any fragment, cut into reads anywhere: delivered = exactly the messages (type, concatenated
   payload), written = exactly one pong per ping, same payload, in order; nothing else *)
Theorem C17_fragmentation : forall (k4 : nat -> key4) (client : bool) (l : list item) n chunks,
  Forall wf_item l ->
  concat chunks = items_bytes l ->
  recv_all (keyf k4) client (clean n) chunks =
  ROk (clean (bumps client n (length (expected_pings l))),
       mkO (expected_msgs l) (pongs k4 client n (expected_pings l)) 0).
Proof. exact recv_items_any_cut. Qed.
Print Assumptions C17_fragmentation.

(* ---- close: after the peer's close frame nothing that follows is delivered; the close frame is
   answered by one close frame; the codec has then both received and sent close *)
Theorem C17_close : forall (k4 : nat -> key4) (client : bool) (l : list item) n k q junk chunks,
  Forall wf_item l -> wf_len q ->
  concat chunks = items_bytes l ++ rfc_frame true 8 k q ++ junk ->
  recv_all (keyf k4) client (clean n) chunks =
  ROk (mkS [] (mkP [] None (bumps client n (length (expected_pings l)))) true true,
       mkO (expected_msgs l) (pongs k4 client n (expected_pings l) ++ [[136; 0]]) 1).
Proof. exact recv_items_close_any_cut. Qed.
Print Assumptions C17_close.

Theorem C17_nothing_delivered_after_close : forall (keyfn : nat -> list N) (client : bool) s c,
  crecv s = true -> recv keyfn client s c = ROk (s, no_out).
Proof. exact recv_closed. Qed.
Print Assumptions C17_nothing_delivered_after_close.

Theorem C17_nothing_sent_after_close : forall (k4 : nat -> key4) (client : bool) s (text : bool) p,
  csent s = true -> send (keyf k4) client s text p = ROk (s, no_out).
Proof. exact send_closed. Qed.
Print Assumptions C17_nothing_sent_after_close.

(* ---- the decoder never raises and the frame loop never runs out of fuel, whatever bytes arrive in
   whatever state (this is what the header-cut and ping-after-close repairs establish) *)
Theorem C17_never_raises : forall (k4 : nat -> key4) (client : bool) s c,
  exists s' o, recv (keyf k4) client s c = ROk (s', o).
Proof. exact recv_total. Qed.
Print Assumptions C17_never_raises.

(* ---- non-vacuity *)
Definition ex_k4 (n : nat) : key4 := (N.of_nat n + 1, 2, 3, 4).

(* a text message "ab|c|" in three fragments, a ping "P" after the first and a pong after the second,
   followed by a binary message of 126 bytes; client->server frames masked *)
Definition ex_items : list item :=
  [IMsg true (Some (9, 8, 7, 6), [97; 98], [Ping (Some (1, 1, 1, 1)) [80]])
        [(None, [99], [Pong None []]); (Some (0, 0, 0, 255), [], [])];
   IMsg false (None, rep 126 [5], []) []].

Example C17_ex_wf : Forall wf_item ex_items.
Proof. repeat constructor. Qed.

(* byte-at-a-time *)
Example C17_ex_bytewise :
  recv_all (keyf ex_k4) false (clean 0) (map (fun b => [b]) (items_bytes ex_items))
  = ROk (clean 0, mkO [(true, [97; 98; 99]); (false, rep 126 [5])] [[138; 1; 80]] 0).
Proof. vm_compute. reflexivity. Qed.

(* a client endpoint answers with a masked pong *)
Example C17_ex_client_pong :
  recv_all (keyf ex_k4) true (clean 0) [[137; 1]; [80]]
  = ROk (clean 1, mkO [] [[138; 129; 1; 2; 3; 4; 81]] 0).
Proof. vm_compute. reflexivity. Qed.

(* the three length encodings, masked, cut inside header / extended length / key *)
Example C17_ex_len16 :
  recv_all (keyf ex_k4) false (clean 0)
    [[130]; [254; 0]; [126; 1; 2]; [3; 4] ++ xor_cycle 1 2 3 4 (rep 126 [7])]
  = ROk (clean 0, mkO [(false, rep 126 [7])] [] 0).
Proof. vm_compute. reflexivity. Qed.

Example C17_ex_len64 :
  match parse_frame (rfc_frame true 2 (Some (1, 2, 3, 4)) (rep 65536 [7]) ++ [1]) with
  | FFrame true 2 p [1] => (N.of_nat (length p) =? 65536) && forallb (N.eqb 7) p
  | _ => false
  end = true
  /\ firstn 10 (rfc_frame true 2 (Some (1, 2, 3, 4)) (rep 65536 [7])) = [130; 255; 0; 0; 0; 0; 0; 1; 0; 0].
Proof. split; vm_compute; reflexivity. Qed.

Example C17_ex_close :
  recv_all (keyf ex_k4) false (clean 0) [[129; 1; 97; 136]; [0; 129; 1; 98]; [129; 1; 99]]
  = ROk (mkS [] (mkP [] None 0) true true, mkO [(true, [97])] [[136; 0]] 1).
Proof. vm_compute. reflexivity. Qed.

Example C17_ex_send :
  send (keyf ex_k4) true (clean 0) true [104; 105] =
  ROk (clean 1, mkO [] [[129; 130; 1; 2; 3; 4; 105; 107]] 0).
Proof. vm_compute. reflexivity. Qed.
