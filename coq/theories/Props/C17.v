(* C17 — WebSocket frames round-trip exactly, whatever the segmentation or fragmentation.
   Only statements here; proofs live in Proofs/WebSocketP.v. *)
From Coq Require Import List NArith.
From Circ Require Import Model.WebSocket Proofs.WebSocketP.
Import ListNotations.
Open Scope N_scope.

Theorem C17_mask_involution : forall d k0 k1 k2 k3,
  xor_cycle k0 k1 k2 k3 (xor_cycle k0 k1 k2 k3 d) = d.
Proof. exact xor_cycle_invol. Qed.
Print Assumptions C17_mask_involution.
