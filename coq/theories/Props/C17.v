(* C17 — WebSocket frames round-trip exactly, whatever the segmentation or fragmentation.
   Only statements here; proofs live in Proofs/WebSocketP.v and Proofs/WebSocketE2EP.v.

   Model/WebSocket.v is the codec (as repaired by fixes/C17_*.patch): [send] = the write handler,
   [recv] = one read event through _parse_messages plus the close handler, [recv_all] = a sequence of
   reads.  The conforming peer is specified by the independent encoder [rfc_frame] (RFC 6455 5.2) and by
   [items_bytes] (messages, possibly split into continuation frames, ping/pong frames in between).
   Vocabulary from the proofs file:
     keyf k4 n        = the n-th masking key the endpoint draws (os.urandom), k4 : nat -> key4 arbitrary
     okey k4 client n = Some (k4 n) for a client endpoint (which masks), None for a server endpoint
     clean n          = codec state with empty buffer, no pending fragments, no close seen or sent,
                        n keys drawn so far
     pongs k4 client n qs = the frames [rfc_frame true 10 key q] for the ping payloads qs, in order
     bumps client n k = key index after writing k more frames
     wf_len p         = length p < 2^64 ;  wf_item / wf_frag = wf_len of every payload in the item / fragment
     stream_ok p more = the pending-fragment state p fits the stream: more = [] and nothing half-assembled,
                        or more <> [] (continuation frames first) and a first fragment has been seen
     completed p more = the message those continuation frames complete (type of the pending first fragment,
                        pending bytes ++ their payloads);  stream_pings = the ping payloads in stream order
     after_stream / out_stream s more l = state and output after that stream from state s: pongs only while
                        the endpoint's close frame has not been sent (pongs_if (csent s)), _buffer empty again
     close_reply cs n = [] if the close frame was already sent, else [rfc_frame true 8 (okey n) []]
     masked_as b w    = the mask bit (bit 7 of the second byte) of the written frame w is b *)
From Coq Require Import List NArith Bool.
From Circ Require Import Lib.Obs Model.WebSocket Proofs.WebSocketP Proofs.WebSocketE2EP.
Import ListNotations.
Open Scope N_scope.

(* ---- endpoint -> peer: what the write handler emits IS the RFC frame of the message: FIN, opcode
   1 (text) / 2 (binary), minimal length encoding, masked with the drawn key iff the endpoint is a client *)
Theorem C17_write_is_rfc_frame : forall (k4 : nat -> key4) (client : bool) s (text : bool) p,
  csent s = false ->
  send (keyf k4) client s text p =
  ROk (mkS (buf s) (mkP (pend (ps s)) (ptype (ps s)) (bump client (nk (ps s)))) (crecv s) false,
       mkO [] [rfc_frame true (if text then 1 else 2) (okey k4 client (nk (ps s))) p] 0).
Proof. exact send_rfc. Qed.
Print Assumptions C17_write_is_rfc_frame.

(* ---- peer -> endpoint, one frame: every RFC frame (7-bit, 16-bit and 64-bit length, masked with any
   key or unmasked, any opcode, FIN or not) is decoded to exactly its payload and the bytes after it *)
Theorem C17_decode_frame : forall (fin : bool) op (mk : option key4) p rest,
  op < 16 -> wf_len p ->
  parse_frame (rfc_frame fin op mk p ++ rest) = FFrame fin op p rest.
Proof. exact parse_rfc_frame. Qed.
Print Assumptions C17_decode_frame.

(* ---- round trip under every cut: the frame of a message, cut into reads anywhere (inside the header,
   the extended length, the key, the payload), delivers exactly that message, once *)
Theorem C17_roundtrip : forall (k4 : nat -> key4) (client : bool) (text : bool) (mk : option key4) p n chunks,
  wf_len p ->
  concat chunks = rfc_frame true (if text then 1 else 2) mk p ->
  recv_all (keyf k4) client (clean n) chunks = ROk (clean n, mkO [(text, p)] [] 0).
Proof. exact roundtrip. Qed.
Print Assumptions C17_roundtrip.

(* ---- segmentation: for ANY byte stream (conforming or not) and any key oracle, feeding it in pieces
   is the same as feeding it at once: same messages, same frames written, same close, same final state *)
Theorem C17_segmentation : forall (keyfn : nat -> list N) (client : bool) s chunks,
  buf s = [] ->
  recv_all keyfn client s chunks = recv_all keyfn client s [concat chunks].
Proof. exact segmentation. Qed.
Print Assumptions C17_segmentation.

(* ... from any state at all (bytes of an unfinished frame in the buffer, fragments pending, close sent) *)
Theorem C17_segmentation_any_state : forall (keyfn : nat -> list N) (client : bool) cs s c,
  recv_all keyfn client s (c :: cs) = recv_all keyfn client s [concat (c :: cs)].
Proof. exact segmentation_ne. Qed.
Print Assumptions C17_segmentation_any_state.

Theorem C17_cut_independent : forall (keyfn : nat -> list N) (client : bool) s cs1 cs2,
  buf s = [] -> concat cs1 = concat cs2 ->
  recv_all keyfn client s cs1 = recv_all keyfn client s cs2.
Proof. exact segmentation_eq. Qed.
Print Assumptions C17_cut_independent.

(* ---- fragmentation and control frames: any sequence of messages, each split into any number of
   continuation frames (each with its own key or none, empty fragments allowed), with ping and pong frames
   after any fragment, cut into reads anywhere: delivered = exactly the messages (type, concatenated
   payload), written = exactly one pong per ping, same payload, in order; nothing else *)
Theorem C17_fragmentation : forall (k4 : nat -> key4) (client : bool) (l : list item) n chunks,
  Forall wf_item l ->
  concat chunks = items_bytes l ->
  recv_all (keyf k4) client (clean n) chunks =
  ROk (clean (bumps client n (length (expected_pings l))),
       mkO (expected_msgs l) (pongs k4 client n (expected_pings l)) 0).
Proof. exact recv_items_any_cut. Qed.
Print Assumptions C17_fragmentation.

(* ---- close: after the peer's close frame nothing that follows is delivered; the close frame is
   answered by one close frame (masked iff client); the codec has then both received and sent close *)
Theorem C17_close : forall (k4 : nat -> key4) (client : bool) (l : list item) n k q junk chunks,
  Forall wf_item l -> wf_len q ->
  concat chunks = items_bytes l ++ rfc_frame true 8 k q ++ junk ->
  recv_all (keyf k4) client (clean n) chunks =
  ROk (mkS [] (mkP [] None (bump client (bumps client n (length (expected_pings l))))) true true,
       mkO (expected_msgs l)
           (pongs k4 client n (expected_pings l)
            ++ [rfc_frame true 8 (okey k4 client (bumps client n (length (expected_pings l)))) []]) 1).
Proof. exact recv_items_close_any_cut. Qed.
Print Assumptions C17_close.

(* ---- the same from ANY codec state s that has not received close: close frame already sent or not,
   fragments of a message pending or not, bytes of an unfinished frame in _buffer or not (they count as the
   beginning of the stream).  The stream = continuation frames completing the pending message (if any),
   then whole items; every cut into reads.  Delivered: the completed pending message, then the items'
   messages.  Written: one pong per ping while the close frame has not been sent, none after. *)
Theorem C17_fragmentation_any_state : forall (k4 : nat -> key4) (client : bool) s more l c cs,
  crecv s = false ->
  stream_ok (ps s) more -> Forall wf_frag more -> Forall wf_item l ->
  buf s ++ concat (c :: cs) = conts_bytes more ++ items_bytes l ->
  recv_all (keyf k4) client s (c :: cs) = ROk (after_stream client s more l, out_stream k4 client s more l).
Proof. exact recv_stream_any_cut. Qed.
Print Assumptions C17_fragmentation_any_state.

Theorem C17_close_any_state : forall (k4 : nat -> key4) (client : bool) s more l k q junk c cs,
  crecv s = false ->
  stream_ok (ps s) more -> Forall wf_frag more -> Forall wf_item l -> wf_len q ->
  buf s ++ concat (c :: cs) = conts_bytes more ++ items_bytes l ++ rfc_frame true 8 k q ++ junk ->
  recv_all (keyf k4) client s (c :: cs) =
  ROk (let s1 := after_stream client s more l in
       mkS [] (mkP [] (ptype (ps s1)) (if csent s then nk (ps s1) else bump client (nk (ps s1)))) true true,
       mkO (delivered (out_stream k4 client s more l))
           (written (out_stream k4 client s more l)
            ++ close_reply k4 client (csent s) (nk (ps (after_stream client s more l)))) 1).
Proof. exact recv_stream_close_any_cut. Qed.
Print Assumptions C17_close_any_state.

(* ---- RFC 6455 5.1: whatever operation (read with pongs / close reply, application write, application
   close) in whatever state: every frame a client endpoint writes is masked, every frame a server
   endpoint writes is unmasked (C17_client_close_masked.patch makes this true for the close frame) *)
Theorem C17_client_frames_masked : forall (k4 : nat -> key4) (client : bool) s o s' x,
  step (keyf k4) client s o = ROk (s', x) -> Forall (masked_as client) (written x).
Proof. exact step_masked. Qed.
Print Assumptions C17_client_frames_masked.

(* ---- opening handshake, client side (client.py + protocols/http.py): reads are accumulated until the
   101 response's header block (first CRLF CRLF) is complete; whatever follows it -- in the same read or
   later, the response itself cut anywhere -- reaches the codec exactly once, as one read would *)
Theorem C17_no_bytes_lost_at_upgrade : forall (keyfn : nat -> list N) (client : bool) chunks h rest,
  split_head (concat chunks) = Some (h, rest) ->
  cread_all keyfn client (CHandshake []) chunks = lift_open (recv keyfn client init rest).
Proof. exact client_no_bytes_lost_start. Qed.
Print Assumptions C17_no_bytes_lost_at_upgrade.

(* ---- dispatcher.py: one codec per upgraded socket; what socket k's codec delivers and writes, and its
   final state, depend on k's own operations only; after disconnect(k) reads for k are not decoded *)
Theorem C17_dispatcher_isolation : forall (keyfn : nat -> list N) (client : bool) k ops t t' t1 xs,
  t k = t' k ->
  drun keyfn client t ops = ROk (t1, xs) ->
  exists t2, drun keyfn client t' (for_sock k ops) = ROk (t2, outs_of k xs) /\ t2 k = t1 k.
Proof. exact dispatcher_isolation. Qed.
Print Assumptions C17_dispatcher_isolation.

Theorem C17_disconnect_forgets : forall (keyfn : nat -> list N) (client : bool) t k d,
  dstep keyfn client (t_set t k None) (DRead k d) = ROk (t_set t k None, (k, no_out)).
Proof. exact disconnect_forgets. Qed.
Print Assumptions C17_disconnect_forgets.

Theorem C17_nothing_delivered_after_close : forall (keyfn : nat -> list N) (client : bool) s c,
  crecv s = true -> recv keyfn client s c = ROk (s, no_out).
Proof. exact recv_closed. Qed.
Print Assumptions C17_nothing_delivered_after_close.

Theorem C17_nothing_sent_after_close : forall (k4 : nat -> key4) (client : bool) s (text : bool) p,
  csent s = true -> send (keyf k4) client s text p = ROk (s, no_out).
Proof. exact send_closed. Qed.
Print Assumptions C17_nothing_sent_after_close.

(* ---- the decoder never raises and the frame loop never runs out of fuel, whatever bytes arrive in
   whatever state (this is what the header-cut and ping-after-close repairs establish) *)
Theorem C17_never_raises : forall (k4 : nat -> key4) (client : bool) s c,
  exists s' o, recv (keyf k4) client s c = ROk (s', o).
Proof. exact recv_total. Qed.
Print Assumptions C17_never_raises.

(* ---- end to end, endpoint A -> endpoint B: for every sequence of messages written through A's codec
   (client or server, any key source, any state in which A has not sent close) the writes all succeed with one
   frame per message, and those frames, concatenated and cut into reads in any way, are delivered by B's codec
   (client or server, clean state) as exactly those messages, in order; B writes nothing, draws no key, holds
   nothing back.  [send_all] (Proofs/WebSocketE2EP.v) threads [send] through the message list. *)
Theorem C17_end_to_end : forall (ka kb : nat -> key4) (ca cb : bool) (sa : st) (nb : nat)
    (ms : list msg) (chunks : list (list N)),
  csent sa = false -> Forall (fun m => wf_len (snd m)) ms ->
  exists sa' frames,
    send_all (keyf ka) ca sa ms = ROk (sa', frames) /\
    length frames = length ms /\
    (concat chunks = concat frames ->
     recv_all (keyf kb) cb (clean nb) chunks = ROk (clean nb, mkO ms [] 0)).
Proof. exact end_to_end. Qed.
Print Assumptions C17_end_to_end.

(* ... and with A's close after the messages (on_close = the codec's close handler): B delivers the messages, then
   answers the close with exactly one close frame (masked iff B is a client), fires one close event, and delivers
   nothing of whatever follows the close frame *)
Theorem C17_end_to_end_close : forall (ka kb : nat -> key4) (ca cb : bool) (sa : st) (nb : nat)
    (ms : list msg) (junk : list N) (chunks : list (list N)),
  csent sa = false -> Forall (fun m => wf_len (snd m)) ms ->
  exists sa' frames sa'' cf,
    send_all (keyf ka) ca sa ms = ROk (sa', frames) /\
    on_close (keyf ka) ca sa' = ROk (sa'', mkO [] [cf] (if crecv sa then 1 else 0)%nat) /\
    csent sa'' = true /\
    (concat chunks = concat frames ++ cf ++ junk ->
     recv_all (keyf kb) cb (clean nb) chunks =
     ROk (mkS [] (mkP [] None (bump cb nb)) true true,
          mkO ms [rfc_frame true 8 (okey kb cb nb) []] 1)).
Proof. exact end_to_end_close. Qed.
Print Assumptions C17_end_to_end_close.

(* ---- non-vacuity *)
Definition ex_k4 (n : nat) : key4 := (N.of_nat n + 1, 2, 3, 4).

(* a text message "ab|c|" in three fragments, a ping "P" after the first and a pong after the second,
   followed by a binary message of 126 bytes; client->server frames masked *)
Definition ex_items : list item :=
  [IMsg true (Some (9, 8, 7, 6), [97; 98], [Ping (Some (1, 1, 1, 1)) [80]])
        [(None, [99], [Pong None []]); (Some (0, 0, 0, 255), [], [])];
   IMsg false (None, rep 126 [5], []) []].

Example C17_ex_wf : Forall wf_item ex_items.
Proof. repeat constructor. Qed.

(* byte-at-a-time *)
Example C17_ex_bytewise :
  recv_all (keyf ex_k4) false (clean 0) (map (fun b => [b]) (items_bytes ex_items))
  = ROk (clean 0, mkO [(true, [97; 98; 99]); (false, rep 126 [5])] [[138; 1; 80]] 0).
Proof. vm_compute. reflexivity. Qed.

(* a client endpoint answers with a masked pong *)
Example C17_ex_client_pong :
  recv_all (keyf ex_k4) true (clean 0) [[137; 1]; [80]]
  = ROk (clean 1, mkO [] [[138; 129; 1; 2; 3; 4; 81]] 0).
Proof. vm_compute. reflexivity. Qed.

(* the three length encodings, masked, cut inside header / extended length / key *)
Example C17_ex_len16 :
  recv_all (keyf ex_k4) false (clean 0)
    [[130]; [254; 0]; [126; 1; 2]; [3; 4] ++ xor_cycle 1 2 3 4 (rep 126 [7])]
  = ROk (clean 0, mkO [(false, rep 126 [7])] [] 0).
Proof. vm_compute. reflexivity. Qed.

Example C17_ex_len64 :
  match parse_frame (rfc_frame true 2 (Some (1, 2, 3, 4)) (rep 65536 [7]) ++ [1]) with
  | FFrame true 2 p [1] => (N.of_nat (length p) =? 65536) && forallb (N.eqb 7) p
  | _ => false
  end = true
  /\ firstn 10 (rfc_frame true 2 (Some (1, 2, 3, 4)) (rep 65536 [7])) = [130; 255; 0; 0; 0; 0; 0; 1; 0; 0].
Proof. split; vm_compute; reflexivity. Qed.

Example C17_ex_close :
  recv_all (keyf ex_k4) false (clean 0) [[129; 1; 97; 136]; [0; 129; 1; 98]; [129; 1; 99]]
  = ROk (mkS [] (mkP [] None 0) true true, mkO [(true, [97])] [[136; 0]] 1).
Proof. vm_compute. reflexivity. Qed.

Example C17_ex_send :
  send (keyf ex_k4) true (clean 0) true [104; 105] =
  ROk (clean 1, mkO [] [[129; 130; 1; 2; 3; 4; 105; 107]] 0).
Proof. vm_compute. reflexivity. Qed.

(* a client endpoint's close frame is masked with the drawn key; its reply to the peer's close too *)
Example C17_ex_client_close :
  step (keyf ex_k4) true (clean 0) Close =
  ROk (mkS [] (mkP [] None 1) false true, mkO [] [[136; 128; 1; 2; 3; 4]] 0)
  /\ recv_all (keyf ex_k4) true (clean 0) [[136]; [0]] =
     ROk (mkS [] (mkP [] None 1) true true, mkO [] [[136; 128; 1; 2; 3; 4]] 1).
Proof. split; vm_compute; reflexivity. Qed.

(* a state in the middle of things: close already sent, text fragment "ab" pending, first byte of the next
   frame in the buffer; the stream goes on with ping, final continuation "c", then a binary message *)
Definition ex_mid : st := mkS [137] (mkP [97; 98] (Some 1) 3) false true.
Definition ex_more : list frag := [(None, [99], [])].
Example C17_ex_any_state :
  crecv ex_mid = false /\ stream_ok (ps ex_mid) ex_more /\ Forall wf_frag ex_more
  /\ recv_all (keyf ex_k4) false ex_mid [[1]; [80; 128; 1]; [99; 130; 1; 7]] =
     ROk (mkS [] (mkP [] None 3) false true, mkO [(true, [97; 98; 99]); (false, [7])] [] 0).
Proof. repeat split; try (repeat constructor; fail); try (exists 1; reflexivity). Qed.

(* the 101 response cut inside its CRLF CRLF, a text message "hi" right behind it, cut again *)
Example C17_ex_upgrade :
  cread_all (keyf ex_k4) true (CHandshake [])
    [[72; 84; 84; 80; 13; 10; 65; 58; 66; 13]; [10; 13]; [10; 129; 2; 104]; [105]]
  = ROk (COpen (clean 0), mkO [(true, [104; 105])] [] 0).
Proof. vm_compute. reflexivity. Qed.

Example C17_ex_dispatcher :
  match drun (keyf ex_k4) false (t_empty) [DRead 1 [129; 1; 97]; DUpgrade 1; DUpgrade 2; DRead 1 [129]; DRead 2 [129; 1; 98];
                                 DRead 1 [1; 99]; DDisconnect 1; DRead 1 [129; 1; 100]] with
  | ROk (_, xs) => map (fun x => (fst x, delivered (snd x))) xs
  | _ => []
  end = [(1%nat, []); (1%nat, []); (2%nat, []); (1%nat, []); (2%nat, [(true, [98])]); (1%nat, [(true, [99])]); (1%nat, []); (1%nat, [])].
Proof. vm_compute. reflexivity. Qed.

(* end to end: a client writes "hi" (text) and a 126-byte binary message; the server reads the bytes one at a time *)
Example C17_ex_end_to_end :
  match send_all (keyf ex_k4) true (clean 0) [(true, [104; 105]); (false, rep 126 [7])] with
  | ROk (sa, frames) =>
      nk (ps sa) = 2%nat /\
      recv_all (keyf ex_k4) false (clean 5) (map (fun b => [b]) (concat frames))
      = ROk (clean 5, mkO [(true, [104; 105]); (false, rep 126 [7])] [] 0)
  | _ => False
  end.
Proof. vm_compute. split; reflexivity. Qed.
