(* C10 — pollers report exactly the registered-and-ready descriptors; Select, Poll and EPoll agree.
   Only statements here; proofs live in Proofs/PollerP.v.  The model (Model/Poller.v) follows /repo HEAD, i.e. it
   includes the repaired Poll._process (staleness test) and EPoll._updateRegistration dropping its _map entries.

   Reading guide.  [reach k s]: s is reachable from the empty poller of kind k by any history of
   Open / Close / AddR / AddW / RemR / RemW / Discard / Tick steps that do not raise, respecting the API precondition
   [pre] (a role is added only when it is not registered already) and, for Tick, the kernel assumption [order_ok]
   (poll/epoll report each number of the interest table at most once, in any order).
   [registered s o] = o is in _read or _write (isReading / isWriting).  [target s o] = getTarget(o). *)
From Coq Require Import List Arith Bool.
From Circ Require Import Model.Poller Proofs.PollerP.
Import ListNotations.

(* ---- invariant: the kernel interest table mirrors list membership, _map = registered objects by current number *)
Theorem C10_mirror : forall k s, k <> KSelect -> reach k s ->
  (forall o f, fds s o = Some f -> registered s o -> kreg s f = Some (mem o (rd s), mem o (wr s)) /\ pmap s f = Some o) /\
  (forall o f m, fds s o = Some f -> pmap s f = Some o -> kreg s f = Some m -> m = (mem o (rd s), mem o (wr s)) /\ registered s o) /\
  (forall o f, fds s o = Some f -> ~ registered s o -> pmap s f = Some o -> kreg s f = None).
Proof. exact mirror. Qed.
Print Assumptions C10_mirror.

(* epoll: every kernel entry belongs to an open registered object with exactly that interest *)
Theorem C10_mirror_epoll : forall s f m, reach KEPoll s -> kreg s f = Some m ->
  exists o, fds s o = Some f /\ registered s o /\ m = (mem o (rd s), mem o (wr s)).
Proof. exact mirror_epoll. Qed.
Print Assumptions C10_mirror_epoll.

(* ---- registrations follow the set model; the target is the registering component's channel *)
Theorem C10_registration : forall k s x s' e, step k s x = Ok s' e ->
  match x with
  | AddR c o => rd s' = rd s ++ [o] /\ wr s' = wr s
  | AddW c o => rd s' = rd s /\ wr s' = wr s ++ [o]
  | RemR o => rd s' = remove1 o (rd s) /\ wr s' = wr s
  | RemW o => rd s' = rd s /\ wr s' = remove1 o (wr s)
  | Discard o => rd s' = remove1 o (rd s) /\ wr s' = remove1 o (wr s)
  | Open _ _ | Close _ => rd s' = rd s /\ wr s' = wr s
  | Tick _ _ => (forall o, In o (rd s') -> In o (rd s)) /\ (forall o, In o (wr s') -> In o (wr s))
  end.
Proof. exact step_lists. Qed.
Print Assumptions C10_registration.

Theorem C10_target : forall k s x s' e, step k s x = Ok s' e ->
  match x with
  | AddR c o | AddW c o => tg s' o = Some c /\ forall o', o' <> o -> tg s' o' = tg s o'
  | RemR o => (In o (wr s) -> tg s' o = tg s o) /\ forall o', o' <> o -> tg s' o' = tg s o'
  | RemW o => (In o (rd s) -> tg s' o = tg s o) /\ forall o', o' <> o -> tg s' o' = tg s o'
  | Discard o => forall o', o' <> o -> tg s' o' = tg s o'
  | Open _ _ | Close _ => tg s' = tg s
  | Tick _ _ => True
  end.
Proof. exact step_target. Qed.
Print Assumptions C10_target.

Theorem C10_discard_unregisters : forall k s o s' e, reach k s -> step k s (Discard o) = Ok s' e -> ~ registered s' o.
Proof. exact discard_unregisters. Qed.
Print Assumptions C10_discard_unregisters.

(* ---- one iteration emits read(o) / write(o) iff registered and ready, addressed to the target *)
Theorem C10_emit_select_read : forall s st o c,
  In (ERead o c) (snd (select_tick s st)) <->
  clean s /\ In o (rd s) /\ (exists f, fds s o = Some f /\ sr (st f) = true) /\ c = target s o.
Proof. exact select_read. Qed.
Print Assumptions C10_emit_select_read.

Theorem C10_emit_select_write : forall s st o c,
  In (EWrite o c) (snd (select_tick s st)) <->
  clean s /\ In o (wr s) /\ (exists f, fds s o = Some f /\ sw (st f) = true) /\ c = target s o.
Proof. exact select_write. Qed.
Print Assumptions C10_emit_select_write.

(* Select meeting a closed descriptor: the iteration reports nothing, drops exactly the closed descriptors,
   and the next iteration is covered by the two theorems above *)
Theorem C10_select_preen : forall s st, ~ clean s ->
  snd (select_tick s st) = [] /\ clean (fst (select_tick s st)) /\
  (forall o, closed s o = false -> (In o (rd (fst (select_tick s st))) <-> In o (rd s)) /\
                                   (In o (wr (fst (select_tick s st))) <-> In o (wr s))).
Proof. exact select_preen_clean. Qed.
Print Assumptions C10_select_preen.

Theorem C10_emit_poll_read : forall k s st order o c, k <> KSelect -> reach k s -> order_ok s order ->
  (In (ERead o c) (snd (tick k s st order)) <->
   In o (rd s) /\ (exists f, fds s o = Some f /\ pin (st f) = true) /\ c = target s o).
Proof. intros k s st order o c Hk Hr. apply poll_read; [exact Hk | apply reach_Inv; exact Hr]. Qed.
Print Assumptions C10_emit_poll_read.

(* a write event is suppressed exactly when the kernel reports hang-up / error for the number without
   readable data for a registered reader: then _disconnect is emitted instead (next theorem) *)
Theorem C10_emit_poll_write : forall k s st order o c, k <> KSelect -> reach k s -> order_ok s order ->
  (In (EWrite o c) (snd (tick k s st order)) <->
   In o (wr s) /\ (exists f, fds s o = Some f /\ pout (st f) = true /\ hang_only s st o f = false) /\ c = target s o).
Proof. intros k s st order o c Hk Hr. apply poll_write; [exact Hk | apply reach_Inv; exact Hr]. Qed.
Print Assumptions C10_emit_poll_write.

Theorem C10_emit_poll_disconnect : forall k s st order o c, k <> KSelect -> reach k s -> order_ok s order ->
  In (EDisc o c) (snd (tick k s st order)) ->
  registered s o /\ c = target s o /\
  (fds s o = None \/ exists f, fds s o = Some f /\ hang_only s st o f = true).
Proof. intros k s st order o c Hk Hr. apply poll_disc; [exact Hk | apply reach_Inv; exact Hr]. Qed.
Print Assumptions C10_emit_poll_disconnect.

(* ---- no ghost events, for every continuation of the history (number reuse included: Open is unconstrained
        except that the number is not open) *)
Theorem C10_no_ghost_unregistered : forall k h s tr oc sf o,
  reach k s -> run_pre k s h -> run k s h = (tr, oc, sf) ->
  ~ registered s o -> (forall x, In x h -> ~ adds o x) ->
  forall s' evs e, In (s', evs) tr -> In e evs -> ev_obj e <> o.
Proof. exact no_ghost_unregistered. Qed.
Print Assumptions C10_no_ghost_unregistered.

Theorem C10_no_ghost_closed : forall k h s tr oc sf o,
  reach k s -> run_pre k s h -> run k s h = (tr, oc, sf) ->
  fds s o = None -> born s o <> None ->
  forall s' evs e, In (s', evs) tr -> In e evs -> is_rw e -> ev_obj e <> o.
Proof. exact no_ghost_closed. Qed.
Print Assumptions C10_no_ghost_closed.

Theorem C10_close_closes : forall k s o s' e, reach k s -> step k s (Close o) = Ok s' e -> fds s' o = None /\ born s' o <> None.
Proof. exact close_closes. Qed.
Print Assumptions C10_close_closes.

(* ---- the three pollers agree: a Select state and a Poll / EPoll state with the same registrations emit the same
        events in an iteration, provided no registered descriptor is closed and none is in hang-up / error state *)
Theorem C10_agree : forall k s1 s2 st order e,
  k <> KSelect -> reach KSelect s1 -> reach k s2 -> order_ok s2 order ->
  (forall o, In o (rd s1) <-> In o (rd s2)) -> (forall o, In o (wr s1) <-> In o (wr s2)) ->
  (forall o, tg s1 o = tg s2 o) -> (forall o, fds s1 o = fds s2 o) ->
  clean s1 -> (forall o f, registered s1 o -> fds s1 o = Some f -> plain (st f)) ->
  (In e (snd (tick KSelect s1 st order)) <-> In e (snd (tick k s2 st order))).
Proof.
  intros k s1 s2 st order e Hk H1 H2. apply agree_tick; [exact Hk | apply reach_Inv; exact H1 | apply reach_Inv; exact H2].
Qed.
Print Assumptions C10_agree.

(* ---- agreement along whole histories.
   [joint k h s1 s2]: the same history h has been applied, step by step and without raising, to Select (reaching s1)
   and to k = Poll / EPoll (reaching s2), every step satisfying [joint_pre]: the API precondition on both sides; a
   descriptor that Poll/EPoll have hung up on is discarded before it is registered again; descriptors are discarded
   before they are closed; every status has select-readable = POLLIN and select-writable = POLLOUT ([consistent]).
   [joint] is built by appending steps, so the theorems speak about every prefix of a history.
   [Rel s1 s2]: same descriptor table; Poll/EPoll's lists are subsets of Select's; on every descriptor Poll/EPoll
   still have registered, roles and target coincide.  [dropped s1 s2 o] = registered for Select, not for Poll/EPoll. *)
Theorem C10_agree_history : forall k h s1 s2, k <> KSelect -> joint k h s1 s2 ->
  Rel s1 s2 /\ reach KSelect s1 /\ reach k s2.
Proof. exact agree_history. Qed.
Print Assumptions C10_agree_history.

(* the iteration after any such history: Poll/EPoll's read events are Select's restricted to the descriptors they still
   have; their write events additionally leave out the descriptors in hang-up-only state, for which they emit
   _disconnect (iff) and drop the registration (iff); Select emits no _disconnect and keeps its state *)
Theorem C10_agree_history_events : forall k h s1 s2 st order, k <> KSelect -> joint k h s1 s2 ->
  order_ok s2 order -> (forall f, consistent (st f)) ->
  let e1 := snd (tick KSelect s1 st order) in
  let e2 := snd (tick k s2 st order) in
  let s2' := fst (tick k s2 st order) in
  (forall o c, In (ERead o c) e2 <-> In (ERead o c) e1 /\ registered s2 o) /\
  (forall o c, In (EWrite o c) e2 <->
               In (EWrite o c) e1 /\ registered s2 o /\ forall f, fds s2 o = Some f -> hang_only s2 st o f = false) /\
  (forall o c, In (EDisc o c) e2 <->
               registered s2 o /\ c = target s2 o /\ exists f, fds s2 o = Some f /\ hang_only s2 st o f = true) /\
  (forall o c, ~ In (EDisc o c) e1) /\
  fst (tick KSelect s1 st order) = s1 /\
  (forall o, registered s2 o -> (~ registered s2' o <-> exists c, In (EDisc o c) e2)).
Proof. exact agree_history_events. Qed.
Print Assumptions C10_agree_history_events.

(* the hang-up difference, stated as a relation instead of an exclusion *)
Theorem C10_hangup_difference : forall k h s1 s2 st order o c, k <> KSelect -> joint k h s1 s2 ->
  order_ok s2 order -> (forall f, consistent (st f)) ->
  let e1 := snd (tick KSelect s1 st order) in
  let e2 := snd (tick k s2 st order) in
  let s2' := fst (tick k s2 st order) in
  (In (ERead o c) e2 -> In (ERead o c) e1) /\ (In (EWrite o c) e2 -> In (EWrite o c) e1) /\
  (In (ERead o c) e1 -> In (ERead o c) e2 \/ dropped s1 s2 o) /\
  (In (EWrite o c) e1 -> In (EWrite o c) e2 \/ dropped s1 s2 o \/
                         ((exists c', In (EDisc o c') e2) /\ ~ registered s2' o)).
Proof. exact hangup_difference. Qed.
Print Assumptions C10_hangup_difference.

(* how the difference evolves: only a _disconnect in an iteration enlarges it; discard(o) by the client removes o
   from it; no other operation adds to it *)
Theorem C10_resync : forall k h s1 s2 x s1' e1 s2' e2 o, k <> KSelect -> joint k h s1 s2 -> joint_pre s1 s2 x ->
  step KSelect s1 x = Ok s1' e1 -> step k s2 x = Ok s2' e2 ->
  match x with
  | Discard o' => dropped s1' s2' o <-> dropped s1 s2 o /\ o <> o'
  | Tick _ _ => dropped s1' s2' o <-> dropped s1 s2 o \/ exists c, In (EDisc o c) e2
  | _ => dropped s1' s2' o -> dropped s1 s2 o
  end.
Proof. exact resync. Qed.
Print Assumptions C10_resync.

(* once every hung-up descriptor has been discarded the pollers are in full agreement again: equal lists, targets and
   descriptor table, i.e. the hypotheses of C10_agree *)
Theorem C10_synced : forall k h s1 s2, k <> KSelect -> joint k h s1 s2 -> (forall o, ~ dropped s1 s2 o) ->
  (forall o, In o (rd s1) <-> In o (rd s2)) /\ (forall o, In o (wr s1) <-> In o (wr s2)) /\
  (forall o, tg s1 o = tg s2 o) /\ (forall o, fds s1 o = fds s2 o).
Proof. exact synced_history. Qed.
Print Assumptions C10_synced.

(* ---- non-vacuity *)
Definition rdy : status := {| pin := true; pout := true; phup := false; perr := false; sr := true; sw := true |}.

(* close without discard, number reused by an unregistered descriptor that is readable:
   the repaired Poll tells the owner once (_disconnect) and never reports o1 again; epoll and select stay silent *)
Definition witness : list op :=
  [Open 1 0; AddR 1 1; Tick (fun _ => rdy) [0]; Close 1; Open 2 0; Tick (fun _ => rdy) [0]; Tick (fun _ => rdy) [0]].
Example C10_ex_poll_reuse :
  map snd (fst (fst (run KPoll init witness))) = [[ERead 1 1]; [EDisc 1 1]; []].
Proof. vm_compute. reflexivity. Qed.
Example C10_ex_epoll_reuse :
  map snd (fst (fst (run KEPoll init witness))) = [[ERead 1 1]; []; []].
Proof. vm_compute. reflexivity. Qed.
Example C10_ex_select_reuse :
  map snd (fst (fst (run KSelect init witness))) = [[ERead 1 1]; []; []].
Proof. vm_compute. reflexivity. Qed.

(* remove one role while the other stays; both owners' channel kept *)
Example C10_ex_roles :
  map snd (fst (fst (run KPoll init [Open 1 0; AddR 2 1; AddW 2 1; Tick (fun _ => rdy) [0]; RemR 1; Tick (fun _ => rdy) [0]])))
  = [[ERead 1 2; EWrite 1 2]; [EWrite 1 2]].
Proof. vm_compute. reflexivity. Qed.

(* a reachable state satisfying the hypotheses of the emission theorems *)
Example C10_ex_reach : exists s, reach KPoll s /\ In 1 (rd s) /\ fds s 1 = Some 0 /\ order_ok s [0] /\ kreg s 0 = Some (true, false).
Proof.
  eexists. split.
  - eapply (reach_step _ _ (AddR 1 1)); [eapply (reach_step _ init (Open 1 0)); [apply reach_init | exact I | reflexivity] | simpl; intros [] | reflexivity].
  - simpl. repeat split; auto.
    + constructor; [intros [] | constructor].
    + intros f Hf. unfold upd in Hf. simpl in Hf. destruct f; [left; reflexivity | simpl in Hf; congruence].
Qed.

(* hang-up: registered for writing only, peer closes.  Select keeps reporting write; Poll / EPoll disconnect once and
   drop; after the client's discard nothing is reported by anyone *)
Definition hup : status := {| pin := true; pout := true; phup := true; perr := false; sr := true; sw := true |}.
Definition hangup_hist : list op :=
  [Open 1 0; AddW 2 1; Tick (fun _ => rdy) [0]; Tick (fun _ => hup) [0]; Tick (fun _ => hup) [0]; Discard 1; Tick (fun _ => hup) [0]].
Example C10_ex_hangup_select :
  map snd (fst (fst (run KSelect init hangup_hist))) = [[EWrite 1 2]; [EWrite 1 2]; [EWrite 1 2]; []].
Proof. vm_compute. reflexivity. Qed.
Example C10_ex_hangup_poll :
  map snd (fst (fst (run KPoll init hangup_hist))) = [[EWrite 1 2]; [EDisc 1 2]; []; []].
Proof. vm_compute. reflexivity. Qed.
Example C10_ex_hangup_epoll :
  map snd (fst (fst (run KEPoll init hangup_hist))) = [[EWrite 1 2]; [EDisc 1 2]; []; []].
Proof. vm_compute. reflexivity. Qed.

(* a jointly valid history (hypotheses of the history theorems are satisfiable, with a non-trivial state) *)
Example C10_ex_joint : exists s1 s2, joint KEPoll [Open 1 0; AddW 2 1] s1 s2 /\ In 1 (wr s1) /\ In 1 (wr s2) /\ tg s2 1 = Some 2.
Proof.
  eexists. eexists. split.
  - change [Open 1 0; AddW 2 1] with (([] ++ [Open 1 0]) ++ [AddW 2 1]).
    eapply joint_snoc; [eapply joint_snoc; [apply joint_nil | | reflexivity | reflexivity] | | reflexivity | reflexivity].
    + repeat split.
    + split; [simpl; intros [] | split; [simpl; intros [] |]].
      intros [[H|H] _]; simpl in H; destruct H.
  - simpl. auto.
Qed.
