From Coq Require Import List Arith Bool.
From Circ Require Import Model.Poller Proofs.PollerP.
Import ListNotations.

Theorem C10_init : rd init = [] /\ wr init = [].
Proof. exact init_empty. Qed.
Print Assumptions C10_init.
