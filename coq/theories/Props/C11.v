(* C11 — stream writes arrive in order, each byte once, and close waits for the buffer.
   Only statements here; proofs live in Proofs/StreamWriteP.v.  [fixed k] is the write path of endpoint
   k in {Server, Client, File} with the three proposed patches fixes/C11_*.patch applied; [legacy k] the
   code before them.  Every theorem quantifies over all payload sequences (any bytes, any lengths, empty
   included), all scripts of send() outcomes and every position of the close request: all three are part of
   [ops : list op]. *)
From Coq Require Import List NArith Bool.
From Circ Require Import Model.StreamWrite Model.StreamWriteObs Proofs.StreamWriteP.
Import ListNotations.

(* in order, each byte once: at every moment  accepted-by-the-OS ++ still-buffered = everything written;
   after the endpoint closed the accepted bytes are a prefix of what was written *)
Theorem C11_prefix : forall (k : kind) (ops : list op),
  exists rest, accepted (snd (run (fixed k) init ops)) ++ rest = written ops /\
               forall s, fst (run (fixed k) init ops) = Open s -> rest = concat (buf s).
Proof. exact prefix_all. Qed.
Print Assumptions C11_prefix.

(* writer interest is registered exactly while something is buffered (so the poller keeps calling until the
   buffer is drained and stops then); a close is pending only while something is buffered *)
Theorem C11_interest_iff_buffered : forall k ops s,
  fst (run (fixed k) init ops) = Open s ->
  (writing s = true <-> buf s <> []) /\ (closereq s = true -> buf s <> []).
Proof. exact interest_iff_buffered. Qed.
Print Assumptions C11_interest_iff_buffered.

(* close waits for the buffer: whenever a step closes the endpoint without a fatal refusal, a close had been
   requested, the closing step is not a write, and every byte written so far has been accepted by the OS *)
Theorem C11_close_after_drain : forall k ops s evs1 o,
  run (fixed k) init ops = (Open s, evs1) ->
  fst (step (fixed k) (Open s) o) = Closed ->
  has_fatal (snd (step (fixed k) (Open s) o)) = false ->
  accepted (evs1 ++ snd (step (fixed k) (Open s) o)) = written (ops ++ [o]) /\
  (closereq s = true \/ o = Close) /\ o <> Write (pay o).
Proof. exact close_after_drain. Qed.
Print Assumptions C11_close_after_drain.

(* nothing is written after the endpoint has closed: no further event of any kind ... *)
Theorem C11_nothing_after_close : forall k ops1 ops2,
  fst (run (fixed k) init ops1) = Closed ->
  run (fixed k) init (ops1 ++ ops2) = run (fixed k) init ops1.
Proof. exact nothing_after_close. Qed.
Print Assumptions C11_nothing_after_close.

(* ... and inside the closing step the descriptor is closed after the last send: the only thing that ever
   follows the close of the descriptor is the disconnect event *)
Theorem C11_close_is_last : forall k ops x y,
  snd (run (fixed k) init ops) = x ++ SockClose :: y ->
  y = [EvDisc] /\ fst (run (fixed k) init ops) = Closed.
Proof. exact close_is_last. Qed.
Print Assumptions C11_close_is_last.

(* a fatal send error (any errno outside the transient set) closes the endpoint, is signalled by an error or
   disconnect event, hands nothing more to the OS, and the bytes accepted up to then are a prefix *)
Theorem C11_fatal_signalled : forall k ops s evs1 e,
  run (fixed k) init ops = (Open s, evs1) -> transient e = false -> buf s <> [] ->
  fst (step (fixed k) (Open s) (Tick (Refuse e))) = Closed /\
  signalled (snd (step (fixed k) (Open s) (Tick (Refuse e)))) = true /\
  accepted (snd (step (fixed k) (Open s) (Tick (Refuse e)))) = [] /\
  exists rest, accepted evs1 ++ rest = written ops.
Proof. exact fatal_signalled. Qed.
Print Assumptions C11_fatal_signalled.

(* a transient refusal (EINTR, EAGAIN/EWOULDBLOCK, ENOBUFS) at any point changes nothing at all *)
Theorem C11_transient_harmless : forall k s e,
  transient e = true -> buf s <> [] ->
  fst (step (fixed k) (Open s) (Tick (Refuse e))) = Open s /\
  accepted (snd (step (fixed k) (Open s) (Tick (Refuse e)))) = [] /\
  sock_closed (snd (step (fixed k) (Open s) (Tick (Refuse e)))) = false /\
  signalled (snd (step (fixed k) (Open s) (Tick (Refuse e)))) = false.
Proof. exact transient_harmless. Qed.
Print Assumptions C11_transient_harmless.

(* liveness: once the OS accepts what it is offered, one writability event per buffered payload hands over
   everything that was written, and then (and only then) a requested close takes effect *)
Theorem C11_drains : forall k ops s evs1 kk,
  run (fixed k) init ops = (Open s, evs1) ->
  Forall (fun d => (N.of_nat (length d) <= kk)%N) (buf s) ->
  let r := run (fixed k) init (ops ++ repeat (Tick (Accept kk)) (length (buf s))) in
  fst r = (if closereq s then Closed else Open drained) /\
  accepted (snd r) = written ops /\
  sock_closed (snd r) = closereq s.
Proof. exact drains. Qed.
Print Assumptions C11_drains.

(* every send that accepts at least one byte (or an empty payload) strictly reduces what is buffered *)
Theorem C11_progress : forall k s kk s',
  writing s = true -> buf s <> [] -> (1 <= kk)%N ->
  fst (step (fixed k) (Open s) (Tick (Accept kk))) = Open s' -> load (buf s') < load (buf s).
Proof. exact progress. Qed.
Print Assumptions C11_progress.

(* the per-operation trace compared with the implementation by the correspondence check is this run *)
Theorem C11_trace_is_run : forall p ops st,
  concat (map fst (trace p st ops)) = snd (run p st ops) /\
  last (map snd (trace p st ops)) st = fst (run p st ops).
Proof. exact trace_is_run. Qed.
Print Assumptions C11_trace_is_run.

(* the code before the patches violates C11_prefix: Client and File lose the payload that was refused with
   EAGAIN (and send the next one); Client keeps sending after ECONNRESET, leaving a gap *)
Theorem C11_legacy_client_refuted :
  ~ exists rest, accepted (snd (run (legacy Client) init lost_witness)) ++ rest = written lost_witness.
Proof. exact legacy_client_loses. Qed.
Print Assumptions C11_legacy_client_refuted.

Theorem C11_legacy_file_refuted :
  ~ exists rest, accepted (snd (run (legacy File) init lost_witness)) ++ rest = written lost_witness.
Proof. exact legacy_file_loses. Qed.
Print Assumptions C11_legacy_file_refuted.

Theorem C11_legacy_client_gap_refuted :
  ~ exists rest, accepted (snd (run (legacy Client) init reset_witness)) ++ rest = written reset_witness.
Proof. exact legacy_client_gap. Qed.
Print Assumptions C11_legacy_client_gap_refuted.

(* non-vacuity: a run with a transient refusal, a partial send, a deferred close and a late write *)
Example C11_ex_run :
  run (fixed Client) init ex_ops =
  (Closed, [SendErr [1; 2; 3]%N EAGAIN; Send [1; 2; 3]%N 2; Send [3]%N 1; SendErr [] EINTR; Send [] 0;
            Send [4; 5]%N 2; SockClose; EvDisc]).
Proof. vm_compute. reflexivity. Qed.
Example C11_ex_accepted :
  accepted (snd (run (fixed Client) init ex_ops)) = [1; 2; 3; 4; 5]%N /\ written ex_ops = [1; 2; 3; 4; 5; 6]%N.
Proof. vm_compute. split; reflexivity. Qed.
(* hypotheses of C11_close_after_drain / C11_fatal_signalled / C11_drains are satisfiable *)
Example C11_ex_open :
  exists s evs, run (fixed Server) init (firstn 6 ex_ops) = (Open s, evs) /\ closereq s = true /\
                buf s = [[3]; []; [4; 5]]%N /\
                fst (step (fixed Server) (Open s) (Tick (Refuse EPIPE))) = Closed /\
                Forall (fun d => (N.of_nat (length d) <= 9)%N) (buf s).
Proof.
  eexists. eexists. split; [vm_compute; reflexivity|]. cbn [closereq buf].
  repeat split; try reflexivity. repeat constructor; vm_compute; discriminate.
Qed.
Example C11_ex_fatal_kinds :
  snd (step (fixed Client) (Open {| buf := [[7%N]]; closereq := false; writing := true |}) (Tick (Refuse EPIPE)))
    = [SendErr [7%N] EPIPE; SockClose; EvDisc] /\
  snd (step (fixed Client) (Open {| buf := [[7%N]]; closereq := false; writing := true |}) (Tick (Refuse 104%N)))
    = [SendErr [7%N] 104%N; EvError; SockClose; EvDisc] /\
  snd (step (fixed File) (Open {| buf := [[7%N]]; closereq := false; writing := true |}) (Tick (Refuse EPIPE)))
    = [SendErr [7%N] EPIPE; EvError; SockClose; EvDisc].
Proof. vm_compute. repeat split; reflexivity. Qed.
