(* C11 — stream writes arrive in order, each byte once, and close waits for the buffer.
   Only statements here; proofs live in Proofs/StreamWriteP.v.  [fixed k] is the write path of endpoint
   k in {Server, Client, File} with the three proposed patches fixes/C11_*.patch applied; [legacy k] the
   code before them.  Every theorem quantifies over all payload sequences (any bytes, any lengths, empty
   included), all scripts of send() outcomes and every position of the close request: all three are part of
   [ops : list op]. *)
From Coq Require Import List NArith Bool.
From Circ Require Import Model.StreamWrite Model.StreamWriteObs Proofs.StreamWriteP.
Import ListNotations.

(* in order, each byte once: at every moment  accepted-by-the-OS ++ still-buffered = everything written;
   after the endpoint closed the accepted bytes are a prefix of what was written *)
Theorem C11_prefix : forall (k : kind) (ops : list op),
  exists rest, accepted (snd (run (fixed k) init ops)) ++ rest = written ops /\
               forall s, fst (run (fixed k) init ops) = Open s -> rest = concat (buf s).
Proof. exact prefix_all. Qed.
Print Assumptions C11_prefix.

(* writer interest is registered exactly while something is buffered (so the poller keeps calling until the
   buffer is drained and stops then); a close is pending only while something is buffered *)
Theorem C11_interest_iff_buffered : forall k ops s,
  fst (run (fixed k) init ops) = Open s ->
  (writing s = true <-> buf s <> []) /\ (closereq s = true -> buf s <> []).
Proof. exact interest_iff_buffered. Qed.
Print Assumptions C11_interest_iff_buffered.

(* close waits for the buffer: whenever a step closes the endpoint without a fatal refusal, a close had been
   requested, the closing step is not a write, and every byte written so far has been accepted by the OS *)
Theorem C11_close_after_drain : forall k ops s evs1 o,
  run (fixed k) init ops = (Open s, evs1) ->
  fst (step (fixed k) (Open s) o) = Closed empty ->
  has_fatal (snd (step (fixed k) (Open s) o)) = false ->
  accepted (evs1 ++ snd (step (fixed k) (Open s) o)) = written (ops ++ [o]) /\
  (closereq s = true \/ o = Close) /\ o <> Write (pay o).
Proof. exact close_after_drain. Qed.
Print Assumptions C11_close_after_drain.

(* nothing is written after the endpoint has closed.  The closed endpoint's transitions are those of the code
   (Server: write/close/_on_write return for a socket not in _clients; Client: write returns when the socket
   is closed, close finds an empty buffer and _close returns; File: write returns when the file is closed,
   close likewise): once closed NO state is kept (c = empty: no buffered payload, no pending close, no writer
   interest) and whatever operations follow - writes, closes, poller iterations with any outcome - leave the
   state and the event list exactly as they were: no send call, no state, no event *)
Theorem C11_nothing_after_close : forall k ops1 ops2 c,
  fst (run (fixed k) init ops1) = Closed c ->
  c = empty /\ run (fixed k) init (ops1 ++ ops2) = run (fixed k) init ops1.
Proof. exact nothing_after_close. Qed.
Print Assumptions C11_nothing_after_close.

(* the only transition the model does not transcribe (a `_write` event for a closed endpoint that still has
   writer interest) is never reached *)
Theorem C11_always_modelled : forall k ops,
  existsb is_unmodelled (snd (run (fixed k) init ops)) = false.
Proof. exact always_modelled. Qed.
Print Assumptions C11_always_modelled.

(* ... and inside the closing step the descriptor is closed after the last send: the only thing that ever
   follows the close of the descriptor is the disconnect event *)
Theorem C11_close_is_last : forall k ops x y,
  snd (run (fixed k) init ops) = x ++ SockClose :: y ->
  y = [EvDisc] /\ fst (run (fixed k) init ops) = Closed empty.
Proof. exact close_is_last. Qed.
Print Assumptions C11_close_is_last.

(* a fatal send error (any errno outside the transient set) closes the endpoint, is signalled by an error or
   disconnect event, hands nothing more to the OS, and the bytes accepted up to then are a prefix *)
Theorem C11_fatal_signalled : forall k ops s evs1 e,
  run (fixed k) init ops = (Open s, evs1) -> transient e = false -> buf s <> [] ->
  fst (step (fixed k) (Open s) (Tick (Refuse e))) = Closed empty /\
  signalled (snd (step (fixed k) (Open s) (Tick (Refuse e)))) = true /\
  accepted (snd (step (fixed k) (Open s) (Tick (Refuse e)))) = [] /\
  exists rest, accepted evs1 ++ rest = written ops.
Proof. exact fatal_signalled. Qed.
Print Assumptions C11_fatal_signalled.

(* a transient refusal (EINTR, EAGAIN/EWOULDBLOCK, ENOBUFS) at any point changes nothing at all *)
Theorem C11_transient_harmless : forall k s e,
  transient e = true -> buf s <> [] ->
  fst (step (fixed k) (Open s) (Tick (Refuse e))) = Open s /\
  accepted (snd (step (fixed k) (Open s) (Tick (Refuse e)))) = [] /\
  sock_closed (snd (step (fixed k) (Open s) (Tick (Refuse e)))) = false /\
  signalled (snd (step (fixed k) (Open s) (Tick (Refuse e)))) = false.
Proof. exact transient_harmless. Qed.
Print Assumptions C11_transient_harmless.

(* liveness: once the OS accepts what it is offered, one writability event per buffered payload hands over
   everything that was written, and then (and only then) a requested close takes effect *)
Theorem C11_drains : forall k ops s evs1 kk,
  run (fixed k) init ops = (Open s, evs1) ->
  Forall (fun d => (N.of_nat (length d) <= kk)%N) (buf s) ->
  let r := run (fixed k) init (ops ++ repeat (Tick (Accept kk)) (length (buf s))) in
  fst r = (if closereq s then Closed empty else Open drained) /\
  accepted (snd r) = written ops /\
  sock_closed (snd r) = closereq s.
Proof. exact drains. Qed.
Print Assumptions C11_drains.

(* every send that accepts at least one byte (or an empty payload) strictly reduces what is buffered *)
Theorem C11_progress : forall k s kk s',
  writing s = true -> buf s <> [] -> (1 <= kk)%N ->
  fst (step (fixed k) (Open s) (Tick (Accept kk))) = Open s' -> load (buf s') < load (buf s).
Proof. exact progress. Qed.
Print Assumptions C11_progress.

(* the per-operation trace compared with the implementation by the correspondence check is this run *)
Theorem C11_trace_is_run : forall p ops st,
  concat (map fst (trace p st ops)) = snd (run p st ops) /\
  last (map snd (trace p st ops)) st = fst (run p st ops).
Proof. exact trace_is_run. Qed.
Print Assumptions C11_trace_is_run.

(* ---- the Server with its real tables (_clients, _buffers, _closeq, the poller's writer list), any number
   of connections, any interleaving of operations and outcomes (ops : list mop; On t o = operation o for
   socket t, CloseAll = close() without argument) *)

(* refinement: projected on any socket s, the tables behave exactly as the per-connection model run on the
   operations that concern s *)
Theorem C11_server_refines : forall ops m s, wf m ->
  view (fst (mrun m ops)) s = fst (run (fixed Server) (view m s) (proj s ops)) /\
  projev s (snd (mrun m ops)) = snd (run (fixed Server) (view m s) (proj s ops)).
Proof. exact server_refines. Qed.
Print Assumptions C11_server_refines.

(* isolation: what is handed to the OS for socket s (and every event for s, and s's state) is the same in any
   two histories that agree on the operations and outcomes for s - operations and outcomes for t <> s never
   change it *)
Theorem C11_server_isolation : forall l ops1 ops2 s, NoDup l -> proj s ops1 = proj s ops2 ->
  projev s (snd (mrun (fresh l) ops1)) = projev s (snd (mrun (fresh l) ops2)) /\
  view (fst (mrun (fresh l) ops1)) s = view (fst (mrun (fresh l) ops2)) s.
Proof. exact server_isolation. Qed.
Print Assumptions C11_server_isolation.

(* C11_prefix per connection, for any interleaving *)
Theorem C11_server_prefix : forall l ops s, NoDup l -> In s l ->
  exists rest, accepted (projev s (snd (mrun (fresh l) ops))) ++ rest = written (proj s ops) /\
               forall o, view (fst (mrun (fresh l) ops)) s = Open o -> rest = concat (buf o).
Proof. exact server_prefix. Qed.
Print Assumptions C11_server_prefix.

(* after the disconnect of s the tables hold nothing for s, and nothing more is handed to the OS or signalled
   for s whatever follows (on any socket) *)
Theorem C11_server_nothing_after_close : forall l ops1 ops2 s c, NoDup l -> In s l ->
  view (fst (mrun (fresh l) ops1)) s = Closed c ->
  c = empty /\
  view (fst (mrun (fresh l) (ops1 ++ ops2))) s = Closed empty /\
  projev s (snd (mrun (fresh l) (ops1 ++ ops2))) = projev s (snd (mrun (fresh l) ops1)).
Proof. exact server_nothing_after_close. Qed.
Print Assumptions C11_server_nothing_after_close.

(* the code before the patches violates C11_prefix: Client and File lose the payload that was refused with
   EAGAIN (and send the next one); Client keeps sending after ECONNRESET, leaving a gap *)
Theorem C11_legacy_client_refuted :
  ~ exists rest, accepted (snd (run (legacy Client) init lost_witness)) ++ rest = written lost_witness.
Proof. exact legacy_client_loses. Qed.
Print Assumptions C11_legacy_client_refuted.

Theorem C11_legacy_file_refuted :
  ~ exists rest, accepted (snd (run (legacy File) init lost_witness)) ++ rest = written lost_witness.
Proof. exact legacy_file_loses. Qed.
Print Assumptions C11_legacy_file_refuted.

Theorem C11_legacy_client_gap_refuted :
  ~ exists rest, accepted (snd (run (legacy Client) init reset_witness)) ++ rest = written reset_witness.
Proof. exact legacy_client_gap. Qed.
Print Assumptions C11_legacy_client_gap_refuted.

(* before the repair a closed File kept a late payload, registered writer interest for the closed file and
   remembered a late close (C11_nothing_after_close fails for `legacy File`), and the next `_write` event
   reaches the untranscribed transition (ValueError from fileno() in the real code) *)
Theorem C11_legacy_file_late_refuted :
  fst (run (legacy File) init late_witness) =
    Closed {| buf := [[7%N]]; closereq := true; writing := true |} /\
  existsb is_unmodelled (snd (run (legacy File) init (late_witness ++ [Tick (Accept 9%N)]))) = true.
Proof. exact (conj legacy_file_keeps_state legacy_file_late_unmodelled). Qed.
Print Assumptions C11_legacy_file_late_refuted.

(* non-vacuity: a run with a transient refusal, a partial send, a deferred close and a late write *)
Example C11_ex_run :
  run (fixed Client) init ex_ops =
  (Closed empty, [SendErr [1; 2; 3]%N EAGAIN; Send [1; 2; 3]%N 2; Send [3]%N 1; SendErr [] EINTR; Send [] 0;
            Send [4; 5]%N 2; SockClose; EvDisc]).
Proof. vm_compute. reflexivity. Qed.
Example C11_ex_accepted :
  accepted (snd (run (fixed Client) init ex_ops)) = [1; 2; 3; 4; 5]%N /\ written ex_ops = [1; 2; 3; 4; 5; 6]%N.
Proof. vm_compute. split; reflexivity. Qed.
(* hypotheses of C11_close_after_drain / C11_fatal_signalled / C11_drains are satisfiable *)
Example C11_ex_open :
  exists s evs, run (fixed Server) init (firstn 6 ex_ops) = (Open s, evs) /\ closereq s = true /\
                buf s = [[3]; []; [4; 5]]%N /\
                fst (step (fixed Server) (Open s) (Tick (Refuse EPIPE))) = Closed empty /\
                Forall (fun d => (N.of_nat (length d) <= 9)%N) (buf s).
Proof.
  eexists. eexists. split; [vm_compute; reflexivity|]. cbn [closereq buf].
  repeat split; try reflexivity. repeat constructor; vm_compute; discriminate.
Qed.
Example C11_ex_fatal_kinds :
  snd (step (fixed Client) (Open {| buf := [[7%N]]; closereq := false; writing := true |}) (Tick (Refuse EPIPE)))
    = [SendErr [7%N] EPIPE; SockClose; EvDisc] /\
  snd (step (fixed Client) (Open {| buf := [[7%N]]; closereq := false; writing := true |}) (Tick (Refuse 104%N)))
    = [SendErr [7%N] 104%N; EvError; SockClose; EvDisc] /\
  snd (step (fixed File) (Open {| buf := [[7%N]]; closereq := false; writing := true |}) (Tick (Refuse EPIPE)))
    = [SendErr [7%N] EPIPE; EvError; SockClose; EvDisc].
Proof. vm_compute. repeat split; reflexivity. Qed.
(* two connections interleaved: socket 1's refusals and close leave socket 0's stream alone; close() closes
   the drained socket 0 at once and defers socket 2, which still has data *)
Example C11_ex_server :
  let ops := [On 0 (Write [1; 2]%N); On 1 (Write [9]%N); On 2 (Write [5]%N); On 1 (Tick (Refuse EPIPE));
              On 0 (Tick (Accept 1)); On 1 (Write [8]%N); On 0 (Tick (Accept 7)); CloseAll;
              On 2 (Tick (Accept 7)); On 0 (Write [3]%N)]%nat in
  snd (mrun (fresh [0; 1; 2]%nat) ops) =
    [(1, SendErr [9]%N EPIPE); (1, EvError); (1, SockClose); (1, EvDisc);
     (0, Send [1; 2]%N 1); (0, Send [2]%N 1); (0, SockClose); (0, EvDisc);
     (2, Send [5]%N 1); (2, SockClose); (2, EvDisc)]%nat /\
  fst (mrun (fresh [0; 1; 2]%nat) ops) = {| clients := []; buffers := []; closeq := []; writers := [] |} /\
  wf (fresh [0; 1; 2]%nat).
Proof.
  cbn zeta. split; [vm_compute; reflexivity|]. split; [vm_compute; reflexivity|].
  apply wf_fresh. repeat constructor; cbn; intuition discriminate.
Qed.
