(* C16 - Static files: only contents from inside the document root, exact byte ranges.
   Only statements here; proofs live in Proofs/StaticPathP.v and Proofs/RangesP.v. *)
From Coq Require Import List ZArith NArith Bool.
From Circ Require Import Model.StaticPath Model.Ranges Model.FrontEnd Proofs.StaticPathP Proofs.RangesP Proofs.FrontEndP.
Import ListNotations.

(* Whatever Static answers with (a file, the notfound of serve_file, a directory listing) is
   taken from a location that is absolute and whose path components are the components of the
   document root followed by plain names only (non-empty, not '.', not '..', without '/') - for
   every request path, every mount prefix, EVERY decoding function in the place of
   urllib.parse.unquote (single, double, invalid encodings), every file system, listing on or off. *)
Theorem C16_contained :
  forall (fexists isfile isdir : str -> bool) (unq : str -> str)
         (mount : option str) (d : str) (defaults : list str) (dirlisting : bool) (reqpath loc : str),
  starts_slash d = true -> Forall plain defaults ->
  served (static_request fexists isfile isdir unq mount d defaults dirlisting reqpath) = Some loc ->
  starts_slash loc = true /\
  exists rest, comps_of loc = comps_of d ++ rest /\ Forall plain rest.
Proof. exact static_contained. Qed.
Print Assumptions C16_contained.

(* the containment test, read on strings *)
Theorem C16_inside_test : forall d loc,
  inside d loc = true <-> (loc = d \/ exists r, loc = join2 d [] ++ r).
Proof. exact inside_spec. Qed.
Print Assumptions C16_inside_test.

(* get_ranges never raises, and every (start, stop) it returns is a non-empty slice of the
   file, without duplicates - for every header value and every file length *)
Theorem C16_ranges : forall (hv : option str) (cl : Z), (0 <= cl)%Z ->
  match get_ranges hv cl with
  | RCrash => False
  | RList l => Forall (fun p => 0 <= fst p /\ fst p < snd p /\ snd p <= cl)%Z l /\ NoDup l
  | _ => True
  end.
Proof. exact get_ranges_sound. Qed.
Print Assumptions C16_ranges.

(* the Range arm of serve_file: never an internal error; lengths announced are the file's;
   a 206 carries exactly bytes [start, stop) of the file, as many as announced *)
Theorem C16_range_response : forall (proto11 : bool) (hv : option str) (content : list N),
  let len := Z.of_nat (length content) in
  match serve_range proto11 hv content with
  | Err500 => False
  | Full n => n = len
  | R416 n => n = len
  | Partial a b n body => n = len /\ part_ok content (a, b, body)
  | Multi n ps => n = len /\ Forall (part_ok content) ps /\ (2 <= length ps)%nat /\ NoDup (map fst ps)
  end.
Proof. exact serve_range_sound. Qed.
Print Assumptions C16_range_response.

(* not over-restrictive: a request whose decoded path is a sequence of plain names that denotes
   a regular file under a normalised document root is answered with exactly that file *)
Theorem C16_benign_served :
  forall (fexists isfile isdir : str -> bool) (unq : str -> str) d defaults dirlisting reqpath ps,
  starts_slash d = true -> ends_slash d = false -> normpath d = d ->
  Forall plain ps -> ps <> [] ->
  unq (strip_sl reqpath) = intercalate ps ->
  fexists (d ++ SL :: intercalate ps) = true ->
  isfile (d ++ SL :: intercalate ps) = true ->
  isdir (d ++ SL :: intercalate ps) = false ->
  static_request fexists isfile isdir unq None d defaults dirlisting reqpath
  = File (d ++ SL :: intercalate ps).
Proof. exact static_benign. Qed.
Print Assumptions C16_benign_served.

(* exactness of get_ranges on the three well-formed single specs, for all digit strings and lengths:
   "bytes=a-b" -> [a, min(b, len-1)] ; "bytes=a-" -> [a, len) ; "bytes=-n" -> the last n bytes;
   a first position beyond the file -> [] (416) *)
Theorem C16_range_closed : forall ds de a b cl,
  all_digits ds = true -> all_digits de = true ->
  int_of ds = Some a -> int_of de = Some b -> (a <= b)%Z -> (a < cl)%Z ->
  get_ranges (Some (BYTES ++ EQ :: ds ++ DASH :: de)) cl = RList [(a, Z.min b (cl - 1) + 1)%Z].
Proof. exact range_closed_exact. Qed.
Print Assumptions C16_range_closed.

Theorem C16_range_open : forall ds a cl,
  all_digits ds = true -> int_of ds = Some a -> (a < cl)%Z ->
  get_ranges (Some (BYTES ++ EQ :: ds ++ [DASH])) cl = RList [(a, cl)].
Proof. exact range_open_exact. Qed.
Print Assumptions C16_range_open.

Theorem C16_range_suffix : forall de n cl,
  all_digits de = true -> int_of de = Some n -> (0 < n)%Z -> (0 < cl)%Z ->
  get_ranges (Some (BYTES ++ EQ :: DASH :: de)) cl = RList [(Z.max (cl - n) 0, cl)%Z].
Proof. exact range_suffix_exact. Qed.
Print Assumptions C16_range_suffix.

Theorem C16_range_beyond : forall ds de a cl,
  all_digits ds = true -> all_digits de = true -> int_of ds = Some a -> (cl <= a)%Z ->
  get_ranges (Some (BYTES ++ EQ :: ds ++ DASH :: de)) cl = RList [].
Proof. exact range_beyond_416. Qed.
Print Assumptions C16_range_beyond.

(* ---- behind the HTTP front end ---- *)

(* The composition request-line parser -> Request/URL.sanitize -> redirect guard -> Static, for every
   raw request target, every parser, EVERY pair of functions in the place of urllib.parse.quote/unquote,
   every file system, decoding function, mount, absolute root: if anything is served, then the parser
   produced a path, the front end fired the request event with exactly that path, the path is ASCII and
   canonical (equal to its sanitised form, or its quoted form is), and the location served is inside
   the document root in the sense of C16_contained. *)
Theorem C16_frontend_contained :
  forall (quote unquote : str -> str) (parse_target : str -> option str)
         (fexists isfile isdir : str -> bool) (unq : str -> str)
         (mount : option str) (d : str) (defaults : list str) (dirlisting : bool) (target loc : str),
  starts_slash d = true -> Forall plain defaults ->
  served (http_static_target quote unquote parse_target fexists isfile isdir unq
                             mount d defaults dirlisting target) = Some loc ->
  (exists path, parse_target target = Some path /\
     frontend quote unquote path = FeDispatch path /\ is_ascii path = true /\
     (path = sanitized quote unquote path \/ quote path = sanitized quote unquote path)) /\
  (starts_slash loc = true /\ exists rest, comps_of loc = comps_of d ++ rest /\ Forall plain rest).
Proof. exact http_static_target_contained. Qed.
Print Assumptions C16_frontend_contained.

(* a redirected (non-canonical) or rejected request is answered without any question to the file system *)
Theorem C16_frontend_redirect_no_access :
  forall (quote unquote : str -> str) mount d defaults dirlisting path,
  (forall p, frontend quote unquote path <> FeDispatch p) ->
  forall fexists isfile isdir unq,
  http_static quote unquote fexists isfile isdir unq mount d defaults dirlisting path = Pass.
Proof. exact http_static_redirect_no_access. Qed.
Print Assumptions C16_frontend_redirect_no_access.

(* URL.abspath leaves no '.' and no '..' segment, whatever the input *)
Theorem C16_abspath_no_dot_segments : forall path,
  Forall (fun p => is_dot p = false /\ is_dotdot p = false) (split_slash (url_abspath path)).
Proof. exact abspath_segments_nodot. Qed.
Print Assumptions C16_abspath_no_dot_segments.

(* hence: a path dispatched because it EQUALS its sanitised form has no '.' or '..' segment, provided
   re-encoding leaves the normalised path alone (quote (unquote a) = a: no escapes to redo) *)
Theorem C16_canonical_no_dot_segments : forall (quote unquote : str -> str) path,
  let a := url_abspath (split_params (SL :: path)) in
  quote (unquote a) = a -> path = sanitized quote unquote path ->
  Forall (fun p => is_dot p = false /\ is_dotdot p = false) (split_slash path).
Proof. exact canonical_no_dot_segments. Qed.
Print Assumptions C16_canonical_no_dot_segments.

(* ---- whole Range headers: several specs, optional white space, any spelling of the unit ---- *)

(* For every header  unit "=" spec , spec , ...  whose unit reads "bytes" (any case, white space
   around) and whose specs are  ws* digits* "-" digits* ws*, get_ranges is exactly the left-to-right
   RFC reading sem_loop followed by the length-spread rejection *)
Theorem C16_range_multi : forall unit ts cl,
  str_eqb (map lower_ascii (strip_ws unit)) BYTES = true -> ~ In EQ unit ->
  ts <> [] -> Forall wf_tspec ts ->
  get_ranges (Some (unit ++ EQ :: join_comma (map render ts))) cl = finish (sem_loop cl ts []).
Proof. exact range_multi_exact. Qed.
Print Assumptions C16_range_multi.

(* and that reading is: None as soon as one spec is invalid (last < first with a satisfiable first
   position, or a bare "-"); otherwise the clamped satisfiable slices in request order, first
   occurrences only ([] -> 416) *)
Theorem C16_range_multi_reading : forall cl ts acc,
  sem_loop cl ts acc =
  if existsb (is_invalid cl) ts then RIgnore else RList (dedup_from acc (slices cl ts)).
Proof. exact sem_loop_spec. Qed.
Print Assumptions C16_range_multi_reading.

Theorem C16_range_dedup : forall l acc, NoDup acc ->
  NoDup (dedup_from acc l) /\ forall x, In x (dedup_from acc l) <-> In x acc \/ In x l.
Proof. exact dedup_spec. Qed.
Print Assumptions C16_range_dedup.

(* non-vacuity *)
Open Scope N_scope.
Definition ex_root : str := [47; 114].                        (* "/r" *)
Definition ex_fs (p : str) : bool := true.
Example C16_ex_traversal :   (* "/../r-extra/s" handed over directly: not served *)
  static_request ex_fs ex_fs (fun _ => false) (fun s => s) None ex_root [] false
                 [47; 46; 46; 47; 114; 45; 101; 47; 115] = Pass.
Proof. vm_compute. reflexivity. Qed.
Example C16_ex_served :      (* "/a/../b" -> /r/b *)
  static_request ex_fs ex_fs (fun _ => false) (fun s => s) None ex_root [] false
                 [47; 97; 47; 46; 46; 47; 98] = File [47; 114; 47; 98].
Proof. vm_compute. reflexivity. Qed.
Example C16_ex_range :       (* bytes=2-99 on 5 bytes -> (2, 5) *)
  get_ranges (Some [98; 121; 116; 101; 115; 61; 50; 45; 57; 57]) 5 = RList [(2, 5)%Z].
Proof. vm_compute. reflexivity. Qed.
Example C16_ex_suffix :      (* bytes=-20 on 5 bytes -> (0, 5) *)
  get_ranges (Some [98; 121; 116; 101; 115; 61; 45; 50; 48]) 5 = RList [(0, 5)%Z].
Proof. vm_compute. reflexivity. Qed.
Example C16_ex_malformed :   (* bytes=abc -> header ignored *)
  get_ranges (Some [98; 121; 116; 101; 115; 61; 97; 98; 99]) 5 = RIgnore.
Proof. vm_compute. reflexivity. Qed.
Example C16_ex_benign_hyps :   (* the hypotheses of C16_benign_served are satisfiable: root "/r", path "a/b" *)
  starts_slash ex_root = true /\ ends_slash ex_root = false /\ normpath ex_root = ex_root /\
  plainb [97] = true /\ plainb [98] = true /\
  location ex_root (intercalate [[97]; [98]]) = [47; 114; 47; 97; 47; 98].
Proof. vm_compute. repeat split; reflexivity. Qed.
Example C16_ex_digits :        (* "12" is a digit string denoting 12; "12-3" on 100 bytes is reversed: header void *)
  all_digits [49; 50] = true /\ int_of [49; 50] = Some 12%Z /\
  get_ranges (Some (BYTES ++ EQ :: [49; 50] ++ DASH :: [51])) 100 = RIgnore.
Proof. vm_compute. repeat split; reflexivity. Qed.
Example C16_ex_multi :         (* bytes=0-1,8-9 on "0123456789" *)
  serve_range true (Some [98; 121; 116; 101; 115; 61; 48; 45; 49; 44; 56; 45; 57]) [48; 49; 50; 51; 52; 53; 54; 55; 56; 57]
  = Multi 10%Z [(0%Z, 2%Z, [48; 49]); (8%Z, 10%Z, [56; 57])].
Proof. vm_compute. reflexivity. Qed.
Definition ex_id (s : str) : str := s.
Example C16_ex_frontend_redirect :   (* "/a/../b" -> 301 to "/b"; "/a.txt" is handed on; "/caf\u00e9" makes Request() raise *)
  frontend ex_id ex_id [47; 97; 47; 46; 46; 47; 98] = FeRedirect [47; 98] /\
  frontend ex_id ex_id [47; 97; 46; 116; 120; 116] = FeDispatch [47; 97; 46; 116; 120; 116] /\
  frontend ex_id ex_id [47; 233] = FeError /\
  sanitized ex_id ex_id [47; 97; 59; 120; 47; 98; 59; 121] = [47; 97; 59; 120; 47; 98] /\   (* "/a;x/b;y" -> "/a;x/b" *)
  url_abspath [47; 47; 97; 47; 46] = [47; 97; 47; 47].                                            (* "//a/." -> "/a//" *)
Proof. vm_compute. repeat split; reflexivity. Qed.
Example C16_ex_frontend_served :     (* through the front end: "/b" is served from /r/b, "/../x" is not *)
  http_static ex_id ex_id ex_fs ex_fs (fun _ => false) (fun s => s) None ex_root [] false [47; 98] = File [47; 114; 47; 98] /\
  http_static ex_id ex_id ex_fs ex_fs (fun _ => false) (fun s => s) None ex_root [] false [47; 46; 46; 47; 120] = Pass.
Proof. vm_compute. split; reflexivity. Qed.
Definition ex_specs : list tspec :=     (* " 0-1 " , "8-9" , "0-1" , "5-" , "-3" *)
  [ {| w1 := [32]; sd := [48]; ed := [49]; w2 := [32] |}; {| w1 := []; sd := [56]; ed := [57]; w2 := [] |};
    {| w1 := []; sd := [48]; ed := [49]; w2 := [] |};     {| w1 := []; sd := [53]; ed := []; w2 := [] |};
    {| w1 := []; sd := []; ed := [51]; w2 := [] |} ].
Example C16_ex_multi_header :
  join_comma (map render ex_specs) = [32; 48; 45; 49; 32; 44; 56; 45; 57; 44; 48; 45; 49; 44; 53; 45; 44; 45; 51] /\
  sem_loop 10 ex_specs [] = RList [(0, 2)%Z; (8, 10)%Z; (5, 10)%Z; (7, 10)%Z] /\
  get_ranges (Some ([32; 66; 121; 116; 101; 115] ++ EQ :: join_comma (map render ex_specs))) 10   (* " Bytes= 0-1 ,8-9,0-1,5-,-3" *)
  = RList [(0, 2)%Z; (8, 10)%Z; (5, 10)%Z; (7, 10)%Z] /\
  forallb (fun t => forallb is_ws (w1 t) && all_digits (sd t) && all_digits (ed t) && forallb is_ws (w2 t)) ex_specs = true.
Proof. vm_compute. repeat split; reflexivity. Qed.
