(* C16 - Static files: only contents from inside the document root, exact byte ranges.
   Only statements here; proofs live in Proofs/StaticPathP.v and Proofs/RangesP.v. *)
From Coq Require Import List ZArith NArith Bool.
From Circ Require Import Model.StaticPath Model.Ranges Proofs.StaticPathP Proofs.RangesP.
Import ListNotations.

(* Whatever Static answers with (a file, the notfound of serve_file, a directory listing) is
   taken from a location that is absolute and whose path components are the components of the
   document root followed by plain names only (non-empty, not '.', not '..', without '/') - for
   every request path, every mount prefix, EVERY decoding function in the place of
   urllib.parse.unquote (single, double, invalid encodings), every file system, listing on or off. *)
Theorem C16_contained :
  forall (fexists isfile isdir : str -> bool) (unq : str -> str)
         (mount : option str) (d : str) (defaults : list str) (dirlisting : bool) (reqpath loc : str),
  starts_slash d = true -> Forall plain defaults ->
  served (static_request fexists isfile isdir unq mount d defaults dirlisting reqpath) = Some loc ->
  starts_slash loc = true /\
  exists rest, comps_of loc = comps_of d ++ rest /\ Forall plain rest.
Proof. exact static_contained. Qed.
Print Assumptions C16_contained.

(* the containment test, read on strings *)
Theorem C16_inside_test : forall d loc,
  inside d loc = true <-> (loc = d \/ exists r, loc = join2 d [] ++ r).
Proof. exact inside_spec. Qed.
Print Assumptions C16_inside_test.

(* get_ranges never raises, and every (start, stop) it returns is a non-empty slice of the
   file, without duplicates - for every header value and every file length *)
Theorem C16_ranges : forall (hv : option str) (cl : Z), (0 <= cl)%Z ->
  match get_ranges hv cl with
  | RCrash => False
  | RList l => Forall (fun p => 0 <= fst p /\ fst p < snd p /\ snd p <= cl)%Z l /\ NoDup l
  | _ => True
  end.
Proof. exact get_ranges_sound. Qed.
Print Assumptions C16_ranges.

(* the Range arm of serve_file: never an internal error; lengths announced are the file's;
   a 206 carries exactly bytes [start, stop) of the file, as many as announced *)
Theorem C16_range_response : forall (proto11 : bool) (hv : option str) (content : list N),
  let len := Z.of_nat (length content) in
  match serve_range proto11 hv content with
  | Err500 => False
  | Full n => n = len
  | R416 n => n = len
  | Partial a b n body => n = len /\ part_ok content (a, b, body)
  | Multi n ps => n = len /\ Forall (part_ok content) ps /\ (2 <= length ps)%nat /\ NoDup (map fst ps)
  end.
Proof. exact serve_range_sound. Qed.
Print Assumptions C16_range_response.

(* not over-restrictive: a request whose decoded path is a sequence of plain names that denotes
   a regular file under a normalised document root is answered with exactly that file *)
Theorem C16_benign_served :
  forall (fexists isfile isdir : str -> bool) (unq : str -> str) d defaults dirlisting reqpath ps,
  starts_slash d = true -> ends_slash d = false -> normpath d = d ->
  Forall plain ps -> ps <> [] ->
  unq (strip_sl reqpath) = intercalate ps ->
  fexists (d ++ SL :: intercalate ps) = true ->
  isfile (d ++ SL :: intercalate ps) = true ->
  isdir (d ++ SL :: intercalate ps) = false ->
  static_request fexists isfile isdir unq None d defaults dirlisting reqpath
  = File (d ++ SL :: intercalate ps).
Proof. exact static_benign. Qed.
Print Assumptions C16_benign_served.

(* exactness of get_ranges on the three well-formed single specs, for all digit strings and lengths:
   "bytes=a-b" -> [a, min(b, len-1)] ; "bytes=a-" -> [a, len) ; "bytes=-n" -> the last n bytes;
   a first position beyond the file -> [] (416) *)
Theorem C16_range_closed : forall ds de a b cl,
  all_digits ds = true -> all_digits de = true ->
  int_of ds = Some a -> int_of de = Some b -> (a <= b)%Z -> (a < cl)%Z ->
  get_ranges (Some (BYTES ++ EQ :: ds ++ DASH :: de)) cl = RList [(a, Z.min b (cl - 1) + 1)%Z].
Proof. exact range_closed_exact. Qed.
Print Assumptions C16_range_closed.

Theorem C16_range_open : forall ds a cl,
  all_digits ds = true -> int_of ds = Some a -> (a < cl)%Z ->
  get_ranges (Some (BYTES ++ EQ :: ds ++ [DASH])) cl = RList [(a, cl)].
Proof. exact range_open_exact. Qed.
Print Assumptions C16_range_open.

Theorem C16_range_suffix : forall de n cl,
  all_digits de = true -> int_of de = Some n -> (0 < n)%Z -> (0 < cl)%Z ->
  get_ranges (Some (BYTES ++ EQ :: DASH :: de)) cl = RList [(Z.max (cl - n) 0, cl)%Z].
Proof. exact range_suffix_exact. Qed.
Print Assumptions C16_range_suffix.

Theorem C16_range_beyond : forall ds de a cl,
  all_digits ds = true -> all_digits de = true -> int_of ds = Some a -> (cl <= a)%Z ->
  get_ranges (Some (BYTES ++ EQ :: ds ++ DASH :: de)) cl = RList [].
Proof. exact range_beyond_416. Qed.
Print Assumptions C16_range_beyond.

(* non-vacuity *)
Open Scope N_scope.
Definition ex_root : str := [47; 114].                        (* "/r" *)
Definition ex_fs (p : str) : bool := true.
Example C16_ex_traversal :   (* "/../r-extra/s" handed over directly: not served *)
  static_request ex_fs ex_fs (fun _ => false) (fun s => s) None ex_root [] false
                 [47; 46; 46; 47; 114; 45; 101; 47; 115] = Pass.
Proof. vm_compute. reflexivity. Qed.
Example C16_ex_served :      (* "/a/../b" -> /r/b *)
  static_request ex_fs ex_fs (fun _ => false) (fun s => s) None ex_root [] false
                 [47; 97; 47; 46; 46; 47; 98] = File [47; 114; 47; 98].
Proof. vm_compute. reflexivity. Qed.
Example C16_ex_range :       (* bytes=2-99 on 5 bytes -> (2, 5) *)
  get_ranges (Some [98; 121; 116; 101; 115; 61; 50; 45; 57; 57]) 5 = RList [(2, 5)%Z].
Proof. vm_compute. reflexivity. Qed.
Example C16_ex_suffix :      (* bytes=-20 on 5 bytes -> (0, 5) *)
  get_ranges (Some [98; 121; 116; 101; 115; 61; 45; 50; 48]) 5 = RList [(0, 5)%Z].
Proof. vm_compute. reflexivity. Qed.
Example C16_ex_malformed :   (* bytes=abc -> header ignored *)
  get_ranges (Some [98; 121; 116; 101; 115; 61; 97; 98; 99]) 5 = RIgnore.
Proof. vm_compute. reflexivity. Qed.
Example C16_ex_benign_hyps :   (* the hypotheses of C16_benign_served are satisfiable: root "/r", path "a/b" *)
  starts_slash ex_root = true /\ ends_slash ex_root = false /\ normpath ex_root = ex_root /\
  plainb [97] = true /\ plainb [98] = true /\
  location ex_root (intercalate [[97]; [98]]) = [47; 114; 47; 97; 47; 98].
Proof. vm_compute. repeat split; reflexivity. Qed.
Example C16_ex_digits :        (* "12" is a digit string denoting 12; "12-3" on 100 bytes is reversed: header void *)
  all_digits [49; 50] = true /\ int_of [49; 50] = Some 12%Z /\
  get_ranges (Some (BYTES ++ EQ :: [49; 50] ++ DASH :: [51])) 100 = RIgnore.
Proof. vm_compute. repeat split; reflexivity. Qed.
Example C16_ex_multi :         (* bytes=0-1,8-9 on "0123456789" *)
  serve_range true (Some [98; 121; 116; 101; 115; 61; 48; 45; 49; 44; 56; 45; 57]) [48; 49; 50; 51; 52; 53; 54; 55; 56; 57]
  = Multi 10%Z [(0%Z, 2%Z, [48; 49]); (8%Z, 10%Z, [56; 57])].
Proof. vm_compute. reflexivity. Qed.
