(* C16 - Static files: only contents from inside the document root, exact byte ranges.
   Only statements here; proofs live in Proofs/StaticPathP.v and Proofs/RangesP.v. *)
From Coq Require Import List ZArith NArith Bool.
From Circ Require Import Model.StaticPath Model.Ranges Proofs.StaticPathP Proofs.RangesP.
Import ListNotations.

(* Whatever Static answers with (a file, the notfound of serve_file, a directory listing) is
   taken from a location that is absolute and whose path components are the components of the
   document root followed by plain names only (non-empty, not '.', not '..', without '/') - for
   every request path, every mount prefix, EVERY decoding function in the place of
   urllib.parse.unquote (single, double, invalid encodings), every file system, listing on or off. *)
Theorem C16_contained :
  forall (fexists isfile isdir : str -> bool) (unq : str -> str)
         (mount : option str) (d : str) (defaults : list str) (dirlisting : bool) (reqpath loc : str),
  starts_slash d = true -> Forall plain defaults ->
  served (static_request fexists isfile isdir unq mount d defaults dirlisting reqpath) = Some loc ->
  starts_slash loc = true /\
  exists rest, comps_of loc = comps_of d ++ rest /\ Forall plain rest.
Proof. exact static_contained. Qed.
Print Assumptions C16_contained.

(* the containment test, read on strings *)
Theorem C16_inside_test : forall d loc,
  inside d loc = true <-> (loc = d \/ exists r, loc = join2 d [] ++ r).
Proof. exact inside_spec. Qed.
Print Assumptions C16_inside_test.

(* get_ranges never raises, and every (start, stop) it returns is a non-empty slice of the
   file, without duplicates - for every header value and every file length *)
Theorem C16_ranges : forall (hv : option str) (cl : Z), (0 <= cl)%Z ->
  match get_ranges hv cl with
  | RCrash => False
  | RList l => Forall (fun p => 0 <= fst p /\ fst p < snd p /\ snd p <= cl)%Z l /\ NoDup l
  | _ => True
  end.
Proof. exact get_ranges_sound. Qed.
Print Assumptions C16_ranges.

(* the Range arm of serve_file: never an internal error; lengths announced are the file's;
   a 206 carries exactly bytes [start, stop) of the file, as many as announced *)
Theorem C16_range_response : forall (proto11 : bool) (hv : option str) (content : list N),
  let len := Z.of_nat (length content) in
  match serve_range proto11 hv content with
  | Err500 => False
  | Full n => n = len
  | R416 n => n = len
  | Partial a b n body => n = len /\ part_ok content (a, b, body)
  | Multi n ps => n = len /\ Forall (part_ok content) ps /\ (2 <= length ps)%nat /\ NoDup (map fst ps)
  end.
Proof. exact serve_range_sound. Qed.
Print Assumptions C16_range_response.

(* non-vacuity *)
Open Scope N_scope.
Definition ex_root : str := [47; 114].                        (* "/r" *)
Definition ex_fs (p : str) : bool := true.
Example C16_ex_traversal :   (* "/../r-extra/s" handed over directly: not served *)
  static_request ex_fs ex_fs (fun _ => false) (fun s => s) None ex_root [] false
                 [47; 46; 46; 47; 114; 45; 101; 47; 115] = Pass.
Proof. vm_compute. reflexivity. Qed.
Example C16_ex_served :      (* "/a/../b" -> /r/b *)
  static_request ex_fs ex_fs (fun _ => false) (fun s => s) None ex_root [] false
                 [47; 97; 47; 46; 46; 47; 98] = File [47; 114; 47; 98].
Proof. vm_compute. reflexivity. Qed.
Example C16_ex_range :       (* bytes=2-99 on 5 bytes -> (2, 5) *)
  get_ranges (Some [98; 121; 116; 101; 115; 61; 50; 45; 57; 57]) 5 = RList [(2, 5)%Z].
Proof. vm_compute. reflexivity. Qed.
Example C16_ex_suffix :      (* bytes=-20 on 5 bytes -> (0, 5) *)
  get_ranges (Some [98; 121; 116; 101; 115; 61; 45; 50; 48]) 5 = RList [(0, 5)%Z].
Proof. vm_compute. reflexivity. Qed.
Example C16_ex_malformed :   (* bytes=abc -> header ignored *)
  get_ranges (Some [98; 121; 116; 101; 115; 61; 97; 98; 99]) 5 = RIgnore.
Proof. vm_compute. reflexivity. Qed.
