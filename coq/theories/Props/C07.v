(* C07 - component tree stays a consistent forest.  Statements only. *)
From Coq Require Import List Arith Bool.
From Circ Require Import Model.KTree Proofs.KTreeP.
Import ListNotations.

Theorem C07_init : forall c, par init c = c /\ rt init c = c.
Proof. exact init_roots. Qed.
Print Assumptions C07_init.
