(* C07 - the component tree stays a consistent forest under register/unregister.
   Only statements here; proofs live in Proofs/KTreeP.v, the model in Model/KTree.v.
   A history is a list of ops (OReg c p | OUnreg c | OFire x i | OTick r schedules | OFlush x schedule); a
   schedule lists, in dispatch order, the events of the batch, each with the operations (AReg / AUnreg / AFire)
   that the handlers of its receivers performed while handling it (events of kind probe, registered,
   unregistered, prepare_unregister; what a handler of prepare_unregister - or of one of its effects - fires
   delays prepare_unregister_complete, see efx in the model);
   [run n h init = Ok s] says that every op satisfied the preconditions of the property's quantifier
   (register: c detached, not pending, p outside c's subtree; unregister: c attached; tick: r is a root),
   that every schedule was a permutation of the batch it dispatched, and that the model neither ran out of
   fuel nor crashed.  The schedules are universally quantified: the theorems hold for every order in which
   a flush may dispatch its batch. *)
From Coq Require Import List Arith Bool Permutation.
From Circ Require Import Model.KTree Proofs.KTreeP.
Import ListNotations.

(* parent and child links agree, no cycles, every component's root is the top of the tree it is in *)
Theorem C07_forest : forall n h s, run n h init = Ok s -> forest s.
Proof. exact run_forest. Qed.
Print Assumptions C07_forest.

(* the model's executable precondition "root of p is not c" is, for a detached c, exactly
   "p is outside the subtree of c" *)
Theorem C07_subtree_reading : forall n h s c p, run n h init = Ok s -> par s c = c ->
  (rt s p = c <-> desc (kid s) c p).
Proof. exact run_subtree_reading. Qed.
Print Assumptions C07_subtree_reading.

(* a component with an unregistration pending is still attached; a detached one is never pending *)
Theorem C07_pending_attached : forall n h s c, run n h init = Ok s -> pend s c = true -> par s c <> c.
Proof. exact run_pending_attached. Qed.
Print Assumptions C07_pending_attached.

(* each completed registration / unregistration has been announced by exactly one event: the
   registered(c,p) events still queued anywhere in the pool plus those dispatched so far are as many as the
   completed registrations of c under p - by the history or by handlers; [regd] is extended by [register] and
   by nothing else - likewise unregistered(c,p) and the completed unregistrations *)
Theorem C07_announce_registered : forall n h s c p, run n h init = Ok s ->
  qcount n (q s) (Registered c p) + dcount (disp s) (Registered c p) = cntp c p (regd s).
Proof. exact run_announce_registered. Qed.
Print Assumptions C07_announce_registered.

Theorem C07_announce_unregistered : forall n h s c p, run n h init = Ok s ->
  qcount n (q s) (Unregistered c p) + dcount (disp s) (Unregistered c p) = cntp c p (unregd s).
Proof. exact run_announce_unregistered. Qed.
Print Assumptions C07_announce_unregistered.

(* events queued on c before it is registered are in the queue of its new root afterwards, in order,
   followed by the registered event; nothing else moves *)
Theorem C07_queue_migrates : forall n h s c p s', run n h init = Ok s -> register n c p s = Ok s' ->
  rt s' c = rt s p /\
  q s' (rt s p) = q s (rt s p) ++ q s c ++ [Registered c p] /\
  q s' c = [] /\
  (forall x, x <> c -> x <> rt s p -> q s' x = q s x).
Proof. exact run_register_queue. Qed.
Print Assumptions C07_queue_migrates.

(* ... and a flush of that root dispatches exactly what is queued there (each event once, by that root) *)
Theorem C07_flush_dispatches_batch : forall n h s r sched s', run n h init = Ok s -> par s r = r -> r < n ->
  flush n r sched s = Ok s' ->
  Permutation (map fst sched) (q s r) /\
  exists ds, disp s' = ds ++ disp s /\ map d_ev (rev ds) = map fst sched /\ (forall d, In d ds -> d_root d = r).
Proof. exact flush_dispatches_batch. Qed.
Print Assumptions C07_flush_dispatches_batch.

(* every component that received a dispatched event had the dispatching root as its root at that
   moment.  A component whose unregistration has completed has itself (later: the root of the tree it was
   re-registered in) as root - C07_detach_connected - so it receives nothing from the tree it left. *)
Theorem C07_no_delivery_outside_tree : forall n h s d, run n h init = Ok s -> In d (disp s) -> d_ok d = true.
Proof. exact run_deliveries. Qed.
Print Assumptions C07_no_delivery_outside_tree.

(* the completing component c becomes the root of exactly its subtree; links inside the subtree are kept,
   nothing outside changes *)
Theorem C07_detach_connected : forall n h s c s', run n h init = Ok s -> pend s c = true -> complete n c s = Ok s' ->
  par s' c = c /\ pend s' c = false /\ kid s' (par s c) c = false /\
  (forall x, desc (kid s) c x ->
     rt s' x = c /\ desc (kid s') c x /\ (x <> c -> par s' x = par s x /\ kid s' (par s x) x = kid s (par s x) x)) /\
  (forall x, ~ desc (kid s) c x -> rt s' x = rt s x /\ par s' x = par s x).
Proof. exact run_detach_connected. Qed.
Print Assumptions C07_detach_connected.

(* ... and every member d of the detached subtree whose own unregistration is still pending has its
   prepare_unregister(d) queued at its new root c: its completion event may be with the root that was left,
   where it can no longer reach d, but the unregistration has been started again where d is now
   (fixes/C07_nested_unregister_completes.patch) *)
Theorem C07_detach_restarts : forall n h s c s', run n h init = Ok s -> pend s c = true -> complete n c s = Ok s' ->
  forall d, d <> c -> desc (kid s') c d -> pend s' d = true ->
  rt s' d = c /\ In (PrepUnreg d) (q s' (rt s' d)).
Proof. exact run_detach_restarts. Qed.
Print Assumptions C07_detach_restarts.

(* register moves c with its whole subtree under the root of p *)
Theorem C07_move_connected : forall n h s c p s', run n h init = Ok s -> register n c p s = Ok s' ->
  par s' c = p /\ kid s' p c = true /\
  (forall x, desc (kid s) c x ->
     rt s' x = rt s p /\ desc (kid s') c x /\ (x <> c -> par s' x = par s x /\ kid s' (par s x) x = kid s (par s x) x)) /\
  (forall x, ~ desc (kid s) c x -> rt s' x = rt s x /\ par s' x = par s x).
Proof. exact run_move_connected. Qed.
Print Assumptions C07_move_connected.

(* ------------------------------------------------------------------ no hypothesis on the outcome of the run *)

(* [valid n h init]: every op of h satisfies the property's preconditions in the state it is applied to
   (op_pre: register(c,p) with c in the pool, detached, not pending, p in the pool and not in c's subtree;
   unregister(c) with c attached; fire on a pool component; ticks of a current root; flush() on a pool
   component), every flush dispatches its batch in some order (flush_pre: the schedule is a permutation of
   what is queued) and every operation a handler performs while an event is dispatched satisfies the same
   preconditions at that moment and does not register the root that is flushing (act_pre, item_pre).
   Such a history runs to Ok: the model never crashes (delattr of a missing flag, set.remove
   of a missing child) and the fuel n+1 of the _updateRoot recursion is never exhausted (parent links
   decrease a rank, so a descending path has at most n nodes). *)
Theorem C07_run_ok : forall n h, valid n h init -> exists s, run n h init = Ok s.
Proof. exact run_ok. Qed.
Print Assumptions C07_run_ok.

(* and for EVERY history, every schedule and whatever the handlers do, valid or not, the outcome is never Crash and never OutOfFuel
   (it is Ok, or the model's explicit PreViolated / BadSched verdict on the hypotheses) *)
Theorem C07_never_crashes : forall n h, run n h init <> Crash /\ run n h init <> OutOfFuel.
Proof. exact run_safe. Qed.
Print Assumptions C07_never_crashes.

(* the theorems above, for all histories that satisfy the preconditions *)
Theorem C07_forest_valid : forall n h, valid n h init -> exists s, run n h init = Ok s /\ forest s.
Proof. exact valid_forest. Qed.
Print Assumptions C07_forest_valid.

Theorem C07_pending_attached_valid : forall n h, valid n h init ->
  exists s, run n h init = Ok s /\ forall c, pend s c = true -> par s c <> c.
Proof. exact valid_pending_attached. Qed.
Print Assumptions C07_pending_attached_valid.

Theorem C07_announce_valid : forall n h, valid n h init ->
  exists s, run n h init = Ok s /\
    forall c p, qcount n (q s) (Registered c p) + dcount (disp s) (Registered c p) = cntp c p (regd s) /\
                qcount n (q s) (Unregistered c p) + dcount (disp s) (Unregistered c p) = cntp c p (unregd s).
Proof. exact valid_announce. Qed.
Print Assumptions C07_announce_valid.

Theorem C07_no_delivery_outside_tree_valid : forall n h, valid n h init ->
  exists s, run n h init = Ok s /\ forall d, In d (disp s) -> d_ok d = true.
Proof. exact valid_deliveries. Qed.
Print Assumptions C07_no_delivery_outside_tree_valid.

(* a register op at the end of a valid history succeeds, migrates the queue and moves the subtree as a whole
   (C07_queue_migrates + C07_move_connected; the subtree reading of the precondition is op_pre itself) *)
Theorem C07_register_valid : forall n h c p, valid n (h ++ [OReg c p]) init ->
  exists s s', run n h init = Ok s /\ register n c p s = Ok s' /\
    (rt s' c = rt s p /\ q s' (rt s p) = q s (rt s p) ++ q s c ++ [Registered c p] /\ q s' c = [] /\
     (forall x, x <> c -> x <> rt s p -> q s' x = q s x)) /\
    (par s' c = p /\ kid s' p c = true /\
     (forall x, desc (kid s) c x ->
        rt s' x = rt s p /\ desc (kid s') c x /\
        (x <> c -> par s' x = par s x /\ kid s' (par s x) x = kid s (par s x) x)) /\
     (forall x, ~ desc (kid s) c x -> rt s' x = rt s x /\ par s' x = par s x)).
Proof. exact valid_register. Qed.
Print Assumptions C07_register_valid.

(* after a valid history the completion of any pending component succeeds and detaches its subtree as a whole *)
Theorem C07_detach_valid : forall n h, valid n h init ->
  exists s, run n h init = Ok s /\
    forall c, pend s c = true ->
    exists s', complete n c s = Ok s' /\
      par s' c = c /\ pend s' c = false /\ kid s' (par s c) c = false /\
      (forall x, desc (kid s) c x ->
         rt s' x = c /\ desc (kid s') c x /\
         (x <> c -> par s' x = par s x /\ kid s' (par s x) x = kid s (par s x) x)) /\
      (forall x, ~ desc (kid s) c x -> rt s' x = rt s x /\ par s' x = par s x).
Proof. exact valid_detach. Qed.
Print Assumptions C07_detach_valid.

(* a flush at the end of a valid history succeeds and dispatches exactly its batch *)
Theorem C07_flush_valid : forall n h x sched, valid n (h ++ [OFlush x sched]) init ->
  exists s s', run n h init = Ok s /\ flush n (rt s x) sched s = Ok s' /\
    Permutation (map fst sched) (q s (rt s x)) /\
    exists ds, disp s' = ds ++ disp s /\ map d_ev (rev ds) = map fst sched /\
               (forall d, In d ds -> d_root d = rt s x).
Proof. exact valid_flush. Qed.
Print Assumptions C07_flush_valid.

(* ------------------------------------------------------------------ non-vacuity *)

(* 2 under 1 under 0; events queued on 3 before it is registered under 2; 1 is unregistered with its subtree
   and re-registered under 4 *)
Definition quiet (l : list ev) : list item := map (fun e => (e, [])) l.

Definition ex_hist : list op :=
  [OReg 1 0; OReg 2 1; OFire 3 7; OReg 3 2;
   OTick 0 [quiet [Registered 1 0; Registered 2 1; Probe 7; Registered 3 2]];
   OUnreg 1; OTick 0 [quiet [PrepUnreg 1]; quiet [PrepDone 1]; quiet [Unregistered 1 0]];
   OReg 1 4; OFire 3 8; OTick 4 [quiet [Registered 1 4; Probe 8]]].

Example C07_ex_run :
  match run 5 ex_hist init with
  | Ok s => (map (par s) [0;1;2;3;4], map (rt s) [0;1;2;3;4], map d_recv (rev (disp s)))
            = ([0;4;1;2;4], [0;4;4;4;4],
               [[0;1;2;3]; [0;1;2;3]; [0;1;2;3]; [0;1;2;3]; [0;1;2;3]; [0;1;2;3]; [0]; [1;2;3;4]; [1;2;3;4]])
  | _ => False
  end.
Proof. vm_compute. reflexivity. Qed.

(* handlers that act: while the root 0 dispatches registered(1,0), the handler of 1 registers 2 under itself
   and unregisters itself, the handler of 0 fires; the subtree {1,2} is then detached as a whole *)
Example C07_ex_handlers :
  match run 3 [OReg 1 0;
               OTick 0 [[(Registered 1 0, [(0, [AFire 0 9]); (1, [AReg 2 1; AUnreg 1])])];
                        quiet [Probe 9; Registered 2 1; PrepUnreg 1]; quiet [PrepDone 1];
                        quiet [Unregistered 1 0]]] init with
  | Ok s => (map (par s) [0;1;2], map (rt s) [0;1;2], map d_recv (rev (disp s)), regd s, unregd s)
            = ([0;1;1], [0;1;1], [[0;1]; [0;1;2]; [0;1;2]; [0;1;2]; [0;1;2]; [0]], [(2,1); (1,0)], [(1,0)])
  | _ => False
  end.
Proof. vm_compute. reflexivity. Qed.

(* a handler of prepare_unregister(1) fires: the probe is an effect of the prepare_unregister event, whose
   completion event - and with it the detaching of 1 - waits until the probe has been dispatched *)
Example C07_ex_delayed_completion :
  match run 2 [OReg 1 0; OTick 0 [quiet [Registered 1 0]]; OUnreg 1;
               OTick 0 [[(PrepUnreg 1, [(0, [AFire 0 7])])]; quiet [Probe 7]; quiet [PrepDone 1]]] init with
  | Ok s => (par s 1, pend s 1, q s 0, map d_ev (rev (disp s)))
            = (1, false, [Unregistered 1 0], [Registered 1 0; PrepUnreg 1; Probe 7; PrepDone 1])
  | _ => False
  end.
Proof. vm_compute. reflexivity. Qed.

(* a handler that tries to register the root whose flush is in progress is outside the preconditions *)
Example C07_ex_flushing_root :
  run 3 [OReg 1 0; OTick 0 [[(Registered 1 0, [(1, [AReg 0 2])])]]] init = PreViolated.
Proof. vm_compute. reflexivity. Qed.

(* parent 1 and then its child 2 are unregistered before any tick; 1 completes first and takes 2 along; the
   completion event of 2 is dispatched by the old root, which no longer contains 2.  With
   fixes/C07_nested_unregister_completes.patch the detaching parent starts the unregistration of 2 again in
   the new tree (root 1), where it completes as soon as that root is ticked *)
Example C07_ex_nested_unregister_completes :
  match run 3 [OReg 1 0; OReg 2 1; OUnreg 1; OUnreg 2;
               OTick 0 [quiet [Registered 1 0; Registered 2 1; PrepUnreg 1; PrepUnreg 2];
                        quiet [PrepDone 1; PrepDone 2]; quiet [Unregistered 1 0]; []]] init with
  | Ok s => match ticks 3 1 [quiet [PrepUnreg 2]; quiet [PrepDone 2]; quiet [Unregistered 2 1]] s with
            | Ok s' => (pend s 2, par s 2, rt s 2, q s 0, q s 1, pend s' 2, par s' 2, rt s' 2, unregd s')
                       = (true, 1, 1, [], [PrepUnreg 2], false, 2, 2, [(2, 1); (1, 0)])
            | _ => False
            end
  | _ => False
  end.
Proof. vm_compute. reflexivity. Qed.

(* the hypotheses of C07_detach_connected / C07_move_connected are satisfiable *)
Example C07_ex_complete :
  match run 3 [OReg 1 0; OReg 2 1; OUnreg 1] init with
  | Ok s => match complete 3 1 s with Ok s' => (rt s' 2, par s' 2, par s' 1) = (1, 1, 1) | _ => False end
  | _ => False
  end.
Proof. vm_compute. reflexivity. Qed.

(* the hypothesis [valid] is satisfiable, also with a handler that acts *)
Example C07_ex_valid : valid 2 [OReg 1 0; OFlush 0 [(Registered 1 0, [(0, [AFire 1 5])])]] init.
Proof. exact ex_valid. Qed.
