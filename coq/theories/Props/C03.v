(* C03 — fire() from other threads: nothing lost or duplicated, the loop always wakes.
   Only statements here; the model is Model/Wake.v, proofs live in Proofs/WakeP.v.

   The model is an interleaving transition system (one loop thread, any number of firing threads, any
   number of events; every step is one shared-memory access or one lock / Event / pipe operation of
   the real source).  [reachable m s] = s is reached from the initial state by some interleaving. *)
From Coq Require Import List Arith Bool.
From Circ Require Import Model.Wake Proofs.WakeInvP Proofs.WakeP Proofs.WakeOnceP Proofs.WakeProgP.
Import ListNotations.

(* Safety form of "fire() returning implies the loop dispatches that event without needing a timeout":
   whenever the loop thread is parked in its idle wait (FallBackGenerator: Event.wait with or without
   timeout; poller: select/poll/epoll with timeout None or > 0) and the wake object is not signalled
   (flag clear / control pipe empty), no event of a fire() call that has returned is still queued. *)
Theorem C03_no_lost_wakeup : forall m s, reachable m s -> blocked s = true ->
  forall e, In e (pending s) -> returned s e = false.
Proof. exact no_lost_wakeup. Qed.
Print Assumptions C03_no_lost_wakeup.

(* What is queued in such a state belongs to a thread that is still inside _fire, owns the lock, and is
   in reduce_time_left(0) of the very generate_events the loop waits in, before its resume(): the wake-up
   is in flight and that thread is enabled. *)
Theorem C03_wake_in_flight : forall m s, reachable m s -> blocked s = true ->
  forall i k, In (EvF i k) (pending s) ->
  S k = fapp (fts s i) /\
  (exists d, lock s = Some (S i, d)) /\
  exists r, fp (fts s i) = FRed (cur s) r /\ r <> RRel.
Proof. exact blocked_wake_in_flight. Qed.
Print Assumptions C03_wake_in_flight.

(* the RLock double-entry bookkeeping: at most one thread is inside a critical section *)
Theorem C03_mutual_exclusion : forall m s, reachable m s -> forall t u,
  0 < held s t -> 0 < held s u -> t = u.
Proof. exact mutual_exclusion. Qed.
Print Assumptions C03_mutual_exclusion.

(* Nothing lost, nothing duplicated, firing order kept: for every firing thread i, its events that have
   been handed to the dispatcher ([disp], in dispatch order) followed by those still queued are exactly
   EvF i 0, ..., EvF i (fapp-1), in that order ([fapp] = number of events the thread has appended).
   (All events have the same priority; the queue's heap is keyed by the shared counter, ties possible only
   between a foreign event and one fired by the loop thread itself.) *)
Theorem C03_exactly_once_in_order : forall m s, reachable m s -> forall i,
  proj i (disp s ++ pending s) = map (EvF i) (seq 0 (fapp (fts s i))).
Proof. exact exactly_once_in_order. Qed.
Print Assumptions C03_exactly_once_in_order.

Theorem C03_dispatched_once : forall m s, reachable m s -> forall i,
  NoDup (proj i (disp s)) /\
  exists n, n <= fapp (fts s i) /\ proj i (disp s) = map (EvF i) (seq 0 n).
Proof. exact dispatched_once. Qed.
Print Assumptions C03_dispatched_once.

(* Progress, bounded form.  [all_idle s]: every firing thread is outside fire() (all calls have returned).
   [lrun n s] lets ONLY the loop thread move, for at most n steps, stops as soon as no foreign event is
   queued ([fpend s = []]) and refuses to move out of a blocked wait, i.e. it never uses a Timeout
   transition ([AWait false] on a wait with positive/absent timeout, [ASelect false]).  [measure s] is
   explicit: 40 per heap entry + 41 per deque entry still to be moved + the rank of the loop's program point
   + the cost of one more tick while a foreign event sits in the deque.  Both waiters (m = Fallback / Poller).
   Together with C03_no_lost_wakeup: once fire() has returned, the loop dispatches the event without any
   timeout having to expire. *)
Theorem C03_progress : forall m s, reachable m s -> all_idle s ->
  exists s', lrun (S (measure s)) s = Some s' /\ fpend s' = [] /\ fts s' = fts s /\ reachable m s'.
Proof. exact progress. Qed.
Print Assumptions C03_progress.

(* ... and then every event ever appended by thread i has been handed to the dispatcher, in firing order *)
Theorem C03_progress_dispatched : forall m s, reachable m s -> all_idle s ->
  exists s', lrun (S (measure s)) s = Some s' /\
             forall i, proj i (disp s') = map (EvF i) (seq 0 (fapp (fts s i))).
Proof. exact progress_dispatched. Qed.
Print Assumptions C03_progress_dispatched.

(* the same as a trace of the transition system: loop-thread actions only, at most measure+1 of them *)
Theorem C03_progress_trace : forall m s, reachable m s -> all_idle s ->
  exists tr s', length tr <= S (measure s) /\ run s (map (fun a => (0, a)) tr) = Some s' /\ fpend s' = [].
Proof. exact progress_trace. Qed.
Print Assumptions C03_progress_trace.

(* while a returned event is queued the loop is not blocked (contrapositive of C03_no_lost_wakeup) *)
Theorem C03_not_blocked : forall m s, reachable m s -> all_idle s -> fpend s <> [] -> blocked s = false.
Proof. exact not_blocked. Qed.
Print Assumptions C03_not_blocked.

(* Pollers: the waiter wakes iff the control descriptor is in the watched set AND a byte is in the pipe
   ([blocked] for select/poll/epoll = not (watched && pipe > 0)).  [reachable] is reachability from [init m] =
   [init_k m true]: every descriptor-maintenance step ([APreen]: select failed on a stale descriptor, the lists are
   weeded out) keeps the control descriptor.  Under that configuration the control descriptor stays watched for
   ever, and C03_no_lost_wakeup / C03_progress above are theorems about exactly these states. *)
Theorem C03_control_watched : forall m s, reachable m s -> watched s = true.
Proof. exact control_watched. Qed.
Print Assumptions C03_control_watched.

(* ---- non-vacuity: blocked states with a queued foreign event are reachable (the firing thread is mid-fire) *)
Definition idle_fallback : list (nat * lbl) :=
  map (fun a => (0, a))
    [ACount; AAppG Neg; ASnap; AMove; ACall (EvG 0); AAcq; ASetH; AArmTest; ARel; ASetHd HWake;
     AAcq; ARdTl; AClear; ARel; ARdTl; ARdTl].
Definition fire_upto_append : list (nat * lbl) := map (fun a => (1, a)) [AAcq; AFReadH; ACount; AAppF].
Definition fire_rest : list (nat * lbl) :=
  map (fun a => (1, a)) [AAcq; ARdTl; ARWrite; ARHd; ARGet; ASig; ARel; ARel; ARet].

Example C03_ex_blocked_in_flight :
  exists s, run (init Fallback) (idle_fallback ++ fire_upto_append) = Some s /\
            blocked s = true /\ pending s = [EvF 0 0] /\ returned s (EvF 0 0) = false.
Proof. eexists. split; [vm_compute; reflexivity|]. vm_compute. auto. Qed.

Example C03_ex_woken :
  exists s, run (init Fallback) (idle_fallback ++ fire_upto_append ++ fire_rest) = Some s /\
            blocked s = false /\ pending s = [EvF 0 0] /\ returned s (EvF 0 0) = true /\
            step s (0, AWait true) <> None.
Proof. eexists. split; [vm_compute; reflexivity|]. vm_compute. repeat split; discriminate. Qed.

(* a firing thread that skipped resume() is not a behaviour of the model *)
Example C03_ex_no_silent_return :
  accepts Fallback (idle_fallback ++ fire_upto_append ++
                    map (fun a => (1, a)) [AAcq; ARdTl; ARWrite; ARHd; ARGet; ARel]) = false.
Proof. vm_compute. reflexivity. Qed.

Example C03_ex_poller :
  exists s, run (init Poller)
      (map (fun a => (0, a)) [ACount; AAppG Neg; ASnap; AMove; ACall (EvG 0); AAcq; ASetH; AArmTest; ARel;
                              ASetHd HWake; ARdTl] ++ fire_upto_append) = Some s /\
    blocked s = true /\ pending s = [EvF 0 0] /\ returned s (EvF 0 0) = false.
Proof. eexists. split; [vm_compute; reflexivity|]. vm_compute. auto. Qed.

(* two threads, three events, dispatched: per-thread order visible in [disp] *)
Example C03_ex_order :
  exists s, run (init Fallback)
    (idle_fallback ++ fire_upto_append ++ fire_rest ++
     map (fun a => (2, a)) [AAcq; AFReadH; ACount; AAppF; AAcq; ARdTl; ARel; ARel; ARet] ++
     map (fun a => (1, a)) [AAcq; AFReadH; ACount; AAppF; AAcq; ARdTl; ARel; ARel; ARet] ++
     map (fun a => (0, a)) [AWait true; ARdTl; AClr; ACount; AAppG Neg; ASnap; AMove; AMove; AMove; AMove;
                            ACall (EvF 0 0); ASetH; ADisp (EvF 0 0); AClr; ACall (EvF 1 0); ASetH; AClr;
                            ACall (EvF 0 1); ASetH; AClr]) = Some s /\
    disp s = [EvG 0; EvF 0 0; EvF 1 0; EvF 0 1] /\ proj 0 (disp s) = [EvF 0 0; EvF 0 1] /\
    pending s = [EvG 1].
Proof. eexists. split; [vm_compute; reflexivity|]. vm_compute. auto. Qed.

(* progress on a concrete state: loop parked, two threads have fired three events and returned *)
Example C03_ex_progress :
  exists s s', run (init Fallback)
    (idle_fallback ++ fire_upto_append ++ fire_rest ++
     map (fun a => (2, a)) [AAcq; AFReadH; ACount; AAppF; AAcq; ARdTl; ARel; ARel; ARet] ++
     map (fun a => (1, a)) [AAcq; AFReadH; ACount; AAppF; AAcq; ARdTl; ARel; ARel; ARet]) = Some s /\
    fpend s = [EvF 0 0; EvF 1 0; EvF 0 1] /\ measure s = 171 /\
    lrun 17 s = Some s' /\ fpend s' = [] /\ disp s' = [EvG 0; EvF 0 0; EvF 1 0; EvF 0 1] /\ lrun 16 s = None.
Proof. eexists. eexists. split; [vm_compute; reflexivity|]. vm_compute. auto 10. Qed.

(* A maintenance step that DROPS the control descriptor ([init_k Poller false]) refutes the property: the loop weeds
   its lists once, parks in select again, a fire() completes (byte written, fire returned) and the loop stays blocked
   with the event queued.  The same trace on the real configuration ends with the loop NOT blocked. *)
Definition poller_tick (g : nat) : list (nat * lbl) :=
  map (fun a => (0, a)) [ACount; AAppG Neg; ASnap; AMove; ACall (EvG g); AAcq; ASetH; AArmTest; ARel; ASetHd HWake; ARdTl].
Definition preen_then_fire : list (nat * lbl) :=
  poller_tick 0 ++ [(0, APreen); (0, AClr)] ++ poller_tick 1 ++ fire_upto_append ++ fire_rest.

Example C03_leaky_preen_refuted :
  exists s, run (init_k Poller false) preen_then_fire = Some s /\
            blocked s = true /\ pending s = [EvF 0 0] /\ returned s (EvF 0 0) = true /\ pipe s = 1 /\ watched s = false.
Proof. eexists. split; [vm_compute; reflexivity|]. vm_compute. auto 10. Qed.

Example C03_keeping_preen_wakes :
  exists s, run (init Poller) preen_then_fire = Some s /\
            blocked s = false /\ watched s = true /\ step s (0, ASelect true true) <> None.
Proof. eexists. split; [vm_compute; reflexivity|]. vm_compute. repeat split; discriminate. Qed.
