(* C03 — fire() from other threads: nothing lost or duplicated, the loop always wakes.
   Only statements here; proofs live in Proofs/WakeP.v. *)
From Coq Require Import List Arith Bool.
From Circ Require Import Model.Wake Proofs.WakeP.
Import ListNotations.

Theorem C03_trace_split : forall tr1 tr2 s,
  run s (tr1 ++ tr2) = match run s tr1 with Some s' => run s' tr2 | None => None end.
Proof. exact run_app. Qed.
Print Assumptions C03_trace_split.
