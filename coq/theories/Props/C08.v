(* C08 — run()/stop(): started once, everything queued is drained, stopped once, exit code propagates.
   Only statements here; the model is Model/KLoop.v, the proofs are in Proofs/KLoopP.v.

   All theorems are about [run false false P d fuel s0 = Some (s1, out)]: run() entered in state s0 returns in state s1
   and hands [out] to its caller (Some c: raises SystemExit(c); None: returns normally).  They hold
     for every program P       (evk -> list body: plain and generator handlers of started / stopped /
                                exception / user events that fire events, call stop(code) themselves or from a
                                joined second thread, raise SystemExit(code) / KeyboardInterrupt / errors),
     for every idle start state s0  (not running, empty queue; ANY leftover tasks, ANY task-set iteration
                                schedule [sched s0], ANY script of second-thread actions [ext s0], any
                                earlier trace: so they hold for the n-th run of a manager as for the first),
     for every fuel and nesting depth on which run returns (None = the loop did not finish within fuel).
   The second argument [false] of run selects the dispatcher's wait decision for generate_events as it is in the
   code (with its `or not self._running` clause; [true]: without, see C08_ge_clause_dropped_refuted).
   The first argument [false] of run selects the statement order of Manager.stop() as it is in the code
   (`_running = False; _exit_code = code; fire(stopped)`); [true] is the order with the code recorded after the
   fire, kept only to be refuted (C08_exit_code_legacy_order_refuted).
   Second-thread stops in [ext s0] come in three schedules: PJoin (the stopping thread finishes stop() before the
   loop moves), PLate (pre-empted right after fire(stopped) woke the loop, finishes only after run() has
   returned; every later pre-emption is equivalent to PJoin or PLate because the loop reads _exit_code and the
   stopping thread reads _executing_thread exactly once) and PEarly (pre-empted after `_running = False;
   _exit_code = code`, BEFORE fire(stopped), while the loop is in the timed idle wait, until run() has returned).
   Only C08_stopped_once needs a hypothesis about PEarly (it is refuted without); started_once, drained,
   exit_code, idle_stop, rerun and run_spec are stated and proved for every schedule.
   [delta] is the part of the trace produced by this run(); firedK / dispK / reqs are its projections on
   queued events, dispatched events and stop requests (chronological). *)
From Coq Require Import List ZArith Bool.
From Circ Require Import Model.KLoop Proofs.KLoopP.
Import ListNotations.

(* `started` is dispatched exactly once per run() *)
Theorem C08_started_once : forall P d fuel s0 s1 out, idle s0 -> run false false P d fuel s0 = Some (s1, out) ->
  exists delta, trace s1 = trace s0 ++ delta /\ cnt KStarted (dispK delta) = 1.
Proof. exact started_once. Qed.
Print Assumptions C08_started_once.

(* `stopped` is dispatched exactly once per run(), wherever and however often stop was requested -- PARTIAL:
   under the exact complement of open finding C08-early-return-race: no stopping second thread that was
   pre-empted between its `_exit_code = code` and its fire(stopped) is still parked when run() returns
   ([pend s1 = Some (true, _)] is set by nothing else; the trace then contains TEarly) *)
Theorem C08_stopped_once_partial : forall P d fuel s0 s1 out, idle s0 -> run false false P d fuel s0 = Some (s1, out) ->
  is_early (pend s1) = false ->
  exists delta, trace s1 = trace s0 ++ delta /\ cnt KStopped (dispK delta) = 1.
Proof. exact stopped_once_partial. Qed.
Print Assumptions C08_stopped_once_partial.

(* the full statement (without the hypothesis) is refuted: stop(5) by a second thread that is pre-empted before
   its fire(stopped) while the loop sits in the timed idle wait (a generator task is pending): run() raises
   SystemExit(5) without `stopped` having been dispatched -- it has not even been queued *)
Theorem C08_stopped_before_return_refuted : exists P d fuel s0 s1 out delta,
  idle s0 /\ run false false P d fuel s0 = Some (s1, out) /\
  trace s1 = trace s0 ++ delta /\ cnt KStopped (dispK delta) = 0 /\ out = Some 5%Z.
Proof. exact stopped_before_return_refuted. Qed.
Print Assumptions C08_stopped_before_return_refuted.

(* full strength, every schedule: never more than once *)
Theorem C08_stopped_at_most_once : forall P d fuel s0 s1 out, idle s0 -> run false false P d fuel s0 = Some (s1, out) ->
  exists delta, trace s1 = trace s0 ++ delta /\ cnt KStopped (dispK delta) <= 1.
Proof. exact stopped_at_most_once. Qed.
Print Assumptions C08_stopped_at_most_once.

(* run() returns with an empty queue, and the sequence of events dispatched during the run IS the sequence
   of events queued during the run (started, stopped, generate_events, exception and user events alike) *)
Theorem C08_drained : forall P d fuel s0 s1 out, idle s0 -> run false false P d fuel s0 = Some (s1, out) ->
  fifo s1 = [] /\ heap s1 = [] /\ batch s1 = 0 /\
  exists delta, trace s1 = trace s0 ++ delta /\ dispK delta = firedK delta.
Proof. exact drained. Qed.
Print Assumptions C08_drained.

(* run() does not return unless a stop was requested, and what it hands to its caller is the code of the
   FIRST request of this run (stop(code), SystemExit(code) raised in a handler or a generator step,
   KeyboardInterrupt = None, from the loop's thread or the second thread) *)
Theorem C08_exit_code : forall P d fuel s0 s1 out, idle s0 -> run false false P d fuel s0 = Some (s1, out) ->
  exists delta r, trace s1 = trace s0 ++ delta /\ reqs delta = out :: r.
Proof. exact exit_code. Qed.
Print Assumptions C08_exit_code.

(* stop() on a manager that is not running is the identity and does not raise (any code, any ticker) *)
Theorem C08_idle_stop : forall (tk : st -> st) c s, running s = false -> stop tk c s = (s, false).
Proof. exact idle_stop. Qed.
Print Assumptions C08_idle_stop.

(* C08_idle_stop lifted to component trees: stop(c) called on a registered CHILD component (a manager on which
   run() was never invoked: its own state is [never_run]) while the root runs -- from a handler of the child or of
   the root, mid-chain, before or after the root's own stop, from the loop's thread or a second thread -- leaves the
   root's loop state unchanged (only the ghost trace records the call) and raises nothing into the caller.  The
   run() theorems above quantify over programs containing such steps. *)
Theorem C08_child_stop_no_effect : forall tk thr c s,
  exec_act tk (AStopChild thr c) s = (logt (TChildStop c) s, None).
Proof. exact child_stop_no_effect. Qed.
Print Assumptions C08_child_stop_no_effect.

Theorem C08_child_stop_second_thread_no_effect : forall lg tk tm c s,
  do_xact lg tk tm (XStopChild c) s = (logt (TChildStop c) s, false).
Proof. exact child_stop_second_thread_no_effect. Qed.
Print Assumptions C08_child_stop_second_thread_no_effect.

(* child.stop(4) mid-chain and child.stop() from a second thread right before the root's stop(6): the chain
   completes, `stopped` once, run() raises SystemExit(6) *)
Example C08_ex_child_stop :
  option_map (fun r => (dispK (trace (fst r)), snd r))
    (run false false (prog_of [(KStarted, [BPlain [AFire false 0] RRet]);
                               (KUser 0, [BPlain [AStopChild false (Some 4%Z); AFire false 1] RRet]);
                               (KUser 1, [BPlain [AStopChild true None; AStop false (Some 6%Z)] RRet])])
         3 50 (init [] []))
  = Some ([KStarted; KGE; KUser 0; KGE; KUser 1; KGE; KStopped], Some 6%Z).
Proof. exact child_stop_example. Qed.

(* a manager that has stopped is at rest again (not running, no executing thread, nothing queued), and idle --
   so that every theorem above applies to its next run() -- unless a pre-empted stopping thread is still parked
   (its remainder, Model finish_late, runs outside run(): three inline ticks by the second thread) *)
Theorem C08_rerun : forall P d fuel s0 s1 out, idle s0 -> run false false P d fuel s0 = Some (s1, out) ->
  at_rest s1 /\ (pend s1 = None -> idle s1).
Proof. exact rerun. Qed.
Print Assumptions C08_rerun.

(* all of it at once, exact (the lemma the others are projections of): the count of `stopped` is 1 except in
   the class of the open finding, where it is 0 *)
Theorem C08_run_spec : forall P d fuel s0 s1 out, idle s0 -> run false false P d fuel s0 = Some (s1, out) ->
  exists delta, trace s1 = trace s0 ++ delta /\
    firedK delta = dispK delta /\
    cnt KStarted (firedK delta) = 1 /\
    cnt KStopped (firedK delta) = (if is_early (pend s1) then 0 else 1) /\
    (exists r, reqs delta = out :: r) /\
    at_rest s1.
Proof. exact run_spec. Qed.
Print Assumptions C08_run_spec.

(* recording the exit code AFTER fire(stopped) loses it: stop(c) from a second thread that is pre-empted right
   after the wake-up; run() returns normally although the first (only) request carried c *)
Theorem C08_exit_code_legacy_order_refuted : exists P d fuel s0 s1 delta r c,
  idle s0 /\ run true false P d fuel s0 = Some (s1, None) /\
  trace s1 = trace s0 ++ delta /\ reqs delta = Some c :: r.
Proof. exact exit_code_legacy_refuted. Qed.
Print Assumptions C08_exit_code_legacy_order_refuted.

(* a generate_events dispatched while the manager is not running never waits (the dispatcher's
   `or not self._running` clause); it can be reached: a second thread's whole stop() landing in tick() between
   `if self._running` and fire(generate_events) ([mid s0], any position, any code -- all theorems above hold for
   every such script) *)
Theorem C08_ge_not_running_never_waits : forall lg P tk s, running s = false ->
  dispatch lg false P tk KGE s = logt (TDisp KGE) s.
Proof. exact ge_not_running_never_waits. Qed.
Print Assumptions C08_ge_not_running_never_waits.

(* without that clause: stop() lands between the test and the fire of the first tick of the empty program; the
   batch is [started; stopped; generate_events]; the model's loop enters the unbounded wait on a stopped manager
   where nothing can wake it, and run does not return (fuel 50 and 400), while the code's variant returns *)
Theorem C08_ge_clause_dropped_refuted : exists P d s0,
  idle s0 /\ run false true P d 50 s0 = None /\ run false true P d 400 s0 = None /\
  run false false P d 50 s0 <> None.
Proof. exact ge_clause_dropped_refuted. Qed.
Print Assumptions C08_ge_clause_dropped_refuted.

Example C08_ex_stop_between_test_and_fire :
  option_map (fun r => dispK (trace (fst r))) (run false false (prog_of []) 3 50 (set_mid [Some None] (init [] [])))
  = Some [KStarted; KStopped; KGE].
Proof. exact ge_clause_example. Qed.

(* ---- non-vacuity: concrete programs on which run returns *)
(* the schedule of the refutation, with the order of the code: SystemExit(3) reaches the caller *)
Example C08_ex_late_stop :
  option_map snd (run false false (prog_of []) 3 50 (init [] [XStop PLate (Some 3%Z)])) = Some (Some 3%Z).
Proof. exact exit_code_late_example. Qed.

(* the three witnesses of the defects repaired by fixes/C08_1..3 *)
Definition ex_exit7 : prog := prog_of [(KStarted, [BPlain [] (RExit (Some 7%Z))])].
Definition ex_stop3 : prog := prog_of [(KStarted, [BPlain [AStop false (Some 3%Z)] RRet])].
Definition ex_gen : prog := prog_of
  [(KStarted, [BPlain [AFire false 0] RRet]);
   (KUser 0, [BGen [([AStop false None], RYield); ([AFire false 1], RYield); ([AFire false 1], RYield);
                    ([AFire false 1], RYield); ([AFire false 1], RYield); ([AFire false 1], RYield)]]);
   (KUser 1, [BPlain [AFire false 2] RRet])].

Example C08_ex_idle : idle (init [] []).
Proof. repeat split. Qed.

Example C08_ex_exit7 :
  option_map (fun r => (dispK (trace (fst r)), snd r)) (run false false ex_exit7 3 50 (init [] []))
  = Some ([KStarted; KGE; KStopped], Some 7%Z).
Proof. vm_compute. reflexivity. Qed.

Example C08_ex_stop3 :
  option_map (fun r => (dispK (trace (fst r)), snd r)) (run false false ex_stop3 3 50 (init [] []))
  = Some ([KStarted; KGE; KStopped], Some 3%Z).
Proof. vm_compute. reflexivity. Qed.

(* the generator keeps firing during the fade-out ticks; the last e2 is dispatched by the final drain;
   the second run() continues the leftover generator and still gives every guarantee *)
Definition two_runs (P : prog) (s : st) : option (st * option Z * st * option Z) :=
  match run false false P 3 50 s with
  | Some (s1, o1) => match run false false P 3 50 s1 with Some (s2, o2) => Some (s1, o1, s2, o2) | None => None end
  | None => None
  end.

Example C08_ex_gen_two_runs :
  option_map (fun '(s1, o1, s2, o2) =>
                (qlen s1, length (tasks s1), o1, qlen s2, length (tasks s2), o2, cnt KStopped (dispK (trace s2))))
             (two_runs ex_gen (init [] []))
  = Some (0, 1, None, 0, 1, None, 2).
Proof. vm_compute. reflexivity. Qed.

Example C08_ex_gen_two_runs_all_dispatched :
  match two_runs ex_gen (init [] []) with
  | Some (_, _, s2, _) => dispK (trace s2) = firedK (trace s2) /\ length (dispK (trace s2)) = 28
  | None => False
  end.
Proof. vm_compute. split; reflexivity. Qed.

(* a stop from the second thread while the loop idles, with an exit code *)
Example C08_ex_ext_stop :
  option_map (fun r => (dispK (trace (fst r)), reqs (trace (fst r)), snd r))
             (run false false (prog_of []) 3 50 (init [] [XFire 4; XStop PJoin (Some 5%Z)]))
  = Some ([KStarted; KGE; KUser 4; KGE; KStopped], [Some 5%Z], Some 5%Z).
Proof. vm_compute. reflexivity. Qed.
