(* C08 — run()/stop(): started once, everything queued is drained, stopped once. Statements only. *)
From Coq Require Import List ZArith Bool.
From Circ Require Import Model.KLoop Proofs.KLoopP.
Import ListNotations.

Theorem C08_idle_stop : forall (tk : st -> st) c s, running s = false -> stop tk c s = (s, false).
Proof. exact idle_stop. Qed.
Print Assumptions C08_idle_stop.
