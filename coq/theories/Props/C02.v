From Coq Require Import List Arith.
From Circ Require Import Model.DispatchOrder Proofs.DispatchOrderP.
Import ListNotations.

Theorem C02_fire_only_queues : forall K leb hs_of (s : state K) ctx n p acts k,
  stack s = FBody ctx (AFire n p :: acts) :: k ->
  exists s', step K leb hs_of s = Some s' /\
    let x := Build_item p (counter s) n in
    fifo s' = fifo s ++ [x] /\ heap s' = heap s /\ batch s' = batch s /\ stopped s' = stopped s /\
    stack s' = FBody ctx acts :: k /\ trace s' = trace s ++ [TFire x].
Proof. exact fire_only_queues. Qed.
Print Assumptions C02_fire_only_queues.
