(* C02 — dispatch order: priority then FIFO per pass; handler priority; stop().
   Only statements here; proofs live in Proofs/DispatchOrderP.v, the model in Model/DispatchOrder.v.

   Reading guide.  K, leb: any priority type with a boolean total preorder (ints, negative, non-NaN
   floats, bools).  hs_of: any assignment of handlers (id, priority, body) to event names.  prog: any
   main program; bodies and prog are lists of AFire name priority / AFlush / AStop, so fires and
   recursive flushes from inside handlers nest to any depth.  [reach K leb hs_of prog s]: s is a state
   the machine reaches from [init prog] (any number of steps, also of non-terminating programs).
   [trace s] is the chronological log: TFire x (x carries priority [ikey], id [ictr] = position in the
   global fire order, name), TSnap (a pass begins: FIFO moved to the heap), TDisp x (x popped and given
   to the dispatcher), TInv e h d (handler h runs for event e at nesting depth d), TStop e h, TRet e h,
   TDone e (dispatcher's loop for e over), TFlushB/TFlushE.
   [prec K leb a b] := priority a < priority b, or equal priorities and a fired before b.
   [pending_fires t] := the entries fired in t after t's last TSnap (= what the next pass takes). *)
From Coq Require Import List Arith ZArith Lia Permutation Sorted.
From Circ Require Import Model.DispatchOrder Model.DispatchOrderObs Proofs.DispatchOrderP.
Import ListNotations.


(* One pass dispatches exactly the entries queued when it began, in ascending priority value and, for
   equal priority, in fire order: at any moment the dispatches since the last TSnap are a prefix of the
   prec-sorted permutation of the snapshot; [batch s] entries remain (none when the pass is over). *)
Theorem C02_pass : forall (K : Type) (leb : K -> K -> bool) (hs_of : nat -> nat -> list (handler K)), 
  Total K leb -> Trans K leb -> forall prog s t1 t2, reach K leb hs_of prog s ->
  trace s = t1 ++ TSnap :: t2 -> nosnap K t2 ->
  exists rest, length rest = batch s /\
    Permutation (pending_fires t1) (disps t2 ++ rest) /\ StronglySorted (prec K leb) (disps t2 ++ rest).
Proof. exact pass_sorted. Qed.
Print Assumptions C02_pass.

(* ... as a function: a completed pass (batch = 0) dispatched exactly [bucket ks] of what was queued when it began:
   for each priority value of [ks] (the distinct priority values, strictly ascending, covering the snapshot) the
   entries of that priority in queue order.  Any number of entries. *)
Theorem C02_pass_exact : forall (K : Type) (leb : K -> K -> bool) (hs_of : nat -> nat -> list (handler K)),
  Total K leb -> Trans K leb -> forall prog s t1 t2 ks, reach K leb hs_of prog s ->
  trace s = t1 ++ TSnap :: t2 -> nosnap K t2 -> batch s = 0 ->
  asc K leb ks -> covers K leb ks (pending_fires t1) ->
  disps t2 = bucket leb ks (pending_fires t1).
Proof. exact pass_exact. Qed.
Print Assumptions C02_pass_exact.

(* ids are the positions in the global fire order, so "ictr a < ictr b" in prec means "a fired first" *)
Theorem C02_fire_order : forall (K : Type) (leb : K -> K -> bool) (hs_of : nat -> nat -> list (handler K)), 
  forall prog s, reach K leb hs_of prog s ->
  map ictr (fires (trace s)) = seq 0 (counter s).
Proof. exact fire_order. Qed.
Print Assumptions C02_fire_order.

(* An event fired after a pass began (from a handler at any nesting depth, or from outside) is never
   dispatched before an entry that was queued when that pass began — whatever recursive flushes happen
   in between. *)
Theorem C02_no_overtake : forall (K : Type) (leb : K -> K -> bool) (hs_of : nat -> nat -> list (handler K)), 
  forall prog s t1 t2 t3 x x', reach K leb hs_of prog s ->
  trace s = t1 ++ TSnap :: t2 ++ TDisp x :: t3 -> In (TFire x') t2 -> ictr x' = ictr x ->
  forall y, In y (pending_fires t1) -> In (TDisp y) t2.
Proof. exact no_overtake. Qed.
Print Assumptions C02_no_overtake.

(* no event is dispatched twice; heappop never hits an empty heap (the "decrement first" counter
   always equals the heap size) *)
Theorem C02_dispatch_once : forall (K : Type) (leb : K -> K -> bool) (hs_of : nat -> nat -> list (handler K)), 
  forall prog s, reach K leb hs_of prog s ->
  NoDup (map ictr (disps (trace s))).
Proof. exact disp_once. Qed.
Print Assumptions C02_dispatch_once.
Theorem C02_no_crash : forall (K : Type) (leb : K -> K -> bool) (hs_of : nat -> nat -> list (handler K)), 
  forall prog s, reach K leb hs_of prog s ->
  crashed s = false /\ batch s = length (heap s).
Proof. exact no_crash. Qed.
Print Assumptions C02_no_crash.

(* fire() never runs a handler: the step only appends to the FIFO and logs TFire *)
Theorem C02_fire_only_queues : forall (K : Type) (leb : K -> K -> bool) (hs_of : nat -> nat -> list (handler K)), 
  forall (s : state K) ctx n p md cs acts k,
  stack s = FBody ctx (AFire n p md cs :: acts) :: k ->
  exists s', step K leb hs_of s = Some s' /\
    let x := Build_item p (counter s) n md cs in
    fifo s' = fifo s ++ [x] /\ heap s' = heap s /\ batch s' = batch s /\ stopped s' = stopped s /\
    stack s' = FBody ctx acts :: k /\ trace s' = trace s ++ [TFire x].
Proof. exact fire_only_queues. Qed.
Print Assumptions C02_fire_only_queues.

(* handlers nest only through a handler's own flush(): nesting depth <= number of active
   dispatchEvents loops, each of which was entered by an AFlush action *)
Theorem C02_no_reentrancy : forall (K : Type) (leb : K -> K -> bool) (hs_of : nat -> nat -> list (handler K)), 
  forall prog s, reach K leb hs_of prog s ->
  depth (stack s) <= loops K (stack s).
Proof. exact depth_le_loops. Qed.
Print Assumptions C02_no_reentrancy.

(* ... and those loops are exactly the flush() calls entered (TFlushB) and not yet returned (TFlushE) *)
Theorem C02_depth_le_active_flushes : forall (K : Type) (leb : K -> K -> bool) (hs_of : nat -> nat -> list (handler K)),
  forall prog s, reach K leb hs_of prog s -> depth (stack s) + nE K (trace s) <= nB K (trace s).
Proof. exact depth_le_active_flushes. Qed.
Print Assumptions C02_depth_le_active_flushes.

(* handlers of one event: the invoked ones are, at any time, a prefix of the list sorted by
   descending priority ... *)
Theorem C02_handlers_prefix : forall (K : Type) (leb : K -> K -> bool) (hs_of : nat -> nat -> list (handler K)), 
  forall prog s x, reach K leb hs_of prog s -> In x (disps (trace s)) ->
  exists rem, invs (ictr x) (trace s) ++ rem = map hid (handlers_for K leb hs_of x).
Proof. exact handlers_prefix. Qed.
Print Assumptions C02_handlers_prefix.
Theorem C02_handlers_sorted : forall (K : Type) (leb : K -> K -> bool), 
  Total K leb -> Trans K leb -> forall l,
  Permutation (sort_desc K leb l) l /\
  StronglySorted (fun a b => leb (hprio b) (hprio a) = true) (sort_desc K leb l).
Proof. exact handlers_sorted. Qed.
Print Assumptions C02_handlers_sorted.
(* an event delivered on several channels: its handler list is the union over the channels
   ([handlers_chain] = chain(getHandlers(e, c) for c in channels)), every handler ONCE - also one that matches
   several of the channels - and sorted as a whole by descending priority, whatever channel a handler came from *)
Theorem C02_handlers_union : forall (K : Type) (leb : K -> K -> bool) (hs_of : nat -> nat -> list (handler K)),
  Total K leb -> Trans K leb -> forall x, imode x <> MCancel ->
  let L := handlers_for K leb hs_of x in
  StronglySorted (fun a b => leb (hprio b) (hprio a) = true) L /\ NoDup (map hid L) /\
  (forall h, In h L -> In h (handlers_chain K hs_of x)) /\
  (forall h, In h (handlers_chain K hs_of x) -> In (hid h) (map hid L)).
Proof. exact handlers_union. Qed.
Print Assumptions C02_handlers_union.
(* ... all of them if nobody called stop() ... *)
Theorem C02_handlers_complete : forall (K : Type) (leb : K -> K -> bool) (hs_of : nat -> nat -> list (handler K)), 
  forall prog s x, reach K leb hs_of prog s -> In x (disps (trace s)) ->
  In (TDone (ictr x)) (trace s) -> (forall h, ~ In (TStop (ictr x) h) (trace s)) -> imode x <> MPreStop ->
  invs (ictr x) (trace s) = map hid (handlers_for K leb hs_of x).
Proof. exact handlers_complete. Qed.
Print Assumptions C02_handlers_complete.
(* ... and after stop() no further handler runs for that event; the stopping handler is an invoked one *)
Theorem C02_stop : forall (K : Type) (leb : K -> K -> bool) (hs_of : nat -> nat -> list (handler K)), 
  forall prog s u e h v, reach K leb hs_of prog s ->
  trace s = u ++ TStop e h :: v -> forall h' d, ~ In (TInv e h' d) v.
Proof. exact no_invoke_after_stop. Qed.
Print Assumptions C02_stop.
Theorem C02_stopper_invoked : forall (K : Type) (leb : K -> K -> bool) (hs_of : nat -> nat -> list (handler K)), 
  forall prog s e h, reach K leb hs_of prog s ->
  In (TStop e h) (trace s) -> In h (invs e (trace s)).
Proof. exact stopper_was_invoked. Qed.
Print Assumptions C02_stopper_invoked.

(* a cancelled event occupies its slot of the pass (it is popped: TDisp) but no handler ever runs for it;
   an event on which stop() was called from outside before its dispatch gets at most one handler (by
   C02_handlers_prefix: the highest-priority one) — `event.stopped` is only looked at after a handler returned.
   The property's stop clause speaks of a handler calling stop(), so it does not constrain this case. *)
Theorem C02_cancelled : forall (K : Type) (leb : K -> K -> bool) (hs_of : nat -> nat -> list (handler K)),
  forall prog s x, reach K leb hs_of prog s -> In x (disps (trace s)) ->
  imode x = MCancel -> invs (ictr x) (trace s) = [].
Proof. exact cancelled_no_handlers. Qed.
Print Assumptions C02_cancelled.
Theorem C02_prestopped : forall (K : Type) (leb : K -> K -> bool) (hs_of : nat -> nat -> list (handler K)),
  forall prog s x, reach K leb hs_of prog s -> In x (disps (trace s)) ->
  imode x = MPreStop -> length (invs (ictr x) (trace s)) <= 1.
Proof. exact prestopped_at_most_one. Qed.
Print Assumptions C02_prestopped.

(* what the executable [run] computes is reachable, so all of the above applies to it *)
Theorem C02_run_reach : forall (K : Type) (leb : K -> K -> bool) (hs_of : nat -> nat -> list (handler K)), 
  forall prog n, reach K leb hs_of prog (run K leb hs_of n (init prog)).
Proof. exact run_init_reach. Qed.
Print Assumptions C02_run_reach.


(* ---- non-vacuity *)
Example C02_ex_Zleb : Total Z Z.leb /\ Trans Z Z.leb.
Proof. split; red; intros; rewrite ?Z.leb_le in *; lia. Qed.

(* event 0 (priority 0) and event 1 (priority 1) are queued; the priority-5 handler of event 0 fires
   event 2 with priority -5 during the pass; the priority-3 handler stops event 0, so its priority-0
   handler never runs; event 2 is dispatched in the next pass although its priority value is the smallest *)
Definition ex_tbl : list (nat * list handlerZ) :=
  [(0, [Build_handler 0 0%Z []; Build_handler 1 3%Z [AStop]; Build_handler 2 5%Z [AFire 1 (-5)%Z MNormal [0]]]);
   (1, [Build_handler 3 0%Z []])].
Definition ex_prog : list (act Z) := [AFire 0 0%Z MNormal [0]; AFire 1 1%Z MNormal [0]; AFlush; AFlush].
Definition e0 : item Z := Build_item 0%Z 0 0 MNormal [0].
Definition e1 : item Z := Build_item 1%Z 1 1 MNormal [0].
Definition e2 : item Z := Build_item (-5)%Z 2 1 MNormal [0].
Example C02_ex_trace :
  trace (runZ1 ex_tbl 100 ex_prog) =
    [TFire e0; TFire e1; TFlushB] ++ TSnap ::
    [TDisp e0; TInv 0 2 1; TFire e2; TRet 0 2; TInv 0 1 1; TStop 0 1; TRet 0 1; TDone 0;
     TDisp e1; TInv 1 3 1; TRet 1 3; TDone 1; TFlushE; TFlushB; TSnap] ++ TDisp e2 ::
    [TInv 2 3 1; TRet 2 3; TDone 2; TFlushE].
Proof. vm_compute. reflexivity. Qed.
Example C02_ex_hyps :
  pending_fires [TFire e0; TFire e1; TFlushB] = [e0; e1] /\
  nosnap Z [TDisp e0; TInv 0 2 1; TFire e2; TRet 0 2] /\
  stack (runZ1 ex_tbl 100 ex_prog) = [] /\ crashed (runZ1 ex_tbl 100 ex_prog) = false.
Proof. vm_compute. auto. Qed.
(* a nested flush: the handler of event 0 fires event 1 and flushes twice; the first flush finishes the
   running pass (nothing left), the second one dispatches event 1 at depth 2 *)
Example C02_ex_nested :
  trace (runZ1 [(0, [Build_handler 0 0%Z [AFire 1 0%Z MNormal [0]; AFlush; AFlush]]); (1, [Build_handler 1 0%Z []])]
              100 [AFire 0 0%Z MNormal [0]; AFire 0 0%Z MNormal [0]; AFlush]) =
    [TFire (Build_item 0%Z 0 0 MNormal [0]); TFire (Build_item 0%Z 1 0 MNormal [0]); TFlushB; TSnap;
     TDisp (Build_item 0%Z 0 0 MNormal [0]); TInv 0 0 1; TFire (Build_item 0%Z 2 1 MNormal [0]); TFlushB;
       TDisp (Build_item 0%Z 1 0 MNormal [0]); TInv 1 0 2; TFire (Build_item 0%Z 3 1 MNormal [0]); TFlushB; TSnap;
         TDisp (Build_item 0%Z 2 1 MNormal [0]); TInv 2 1 3; TRet 2 1; TDone 2;
         TDisp (Build_item 0%Z 3 1 MNormal [0]); TInv 3 1 3; TRet 3 1; TDone 3; TFlushE;
       TFlushB; TSnap; TFlushE; TRet 1 0; TDone 1; TFlushE;
     TFlushB; TSnap; TFlushE; TRet 0 0; TDone 0; TFlushE].
Proof. vm_compute. reflexivity. Qed.
(* a handler that is a plain function, calls stop() and returns a generator object: the dispatcher registers
   the generator as a task and still breaks the handler loop; the priority-0 handler never runs and the
   action after the return is dead code *)
Example C02_ex_stop_gen :
  trace (runZ1 [(0, [Build_handler 0 0%Z []; Build_handler 1 3%Z [AStop; AGen; AFire 0 0%Z MNormal [0]]])] 100 [AFire 0 0%Z MNormal [0]; AFlush]) =
    [TFire e0; TFlushB; TSnap; TDisp e0; TInv 0 1 1; TStop 0 1; TGen 0 1; TRet 0 1; TDone 0; TFlushE].
Proof. vm_compute. reflexivity. Qed.
(* a raise does not end the handler loop nor the pass: handler 1 of event 0 raises, the dispatcher queues
   `exception` (name 98, id 2), handler 0 still runs, event 1 is dispatched, `exception` in the next pass;
   event 3 is cancelled right after fire (popped, no handler), event 4 was stopped before its dispatch (only its
   highest-priority handler runs) *)
Example C02_ex_raise_cancel_prestop :
  trace (runZ1 [(0, [Build_handler 0 0%Z []; Build_handler 1 3%Z [ARaise [(98, 0%Z, [0])]; AStop]]); (1, [Build_handler 2 0%Z []])]
              200 [AFire 0 0%Z MNormal [0]; AFire 1 0%Z MNormal [0]; AFlush; AFire 0 0%Z MCancel [0]; AFire 0 0%Z MPreStop [0]; AFlush]) =
    [TFire (Build_item 0%Z 0 0 MNormal [0]); TFire (Build_item 0%Z 1 1 MNormal [0]); TFlushB; TSnap;
     TDisp (Build_item 0%Z 0 0 MNormal [0]); TInv 0 1 1; TRaise 0 1; TFire (Build_item 0%Z 2 98 MNormal [0]); TRet 0 1;
       TInv 0 0 1; TRet 0 0; TDone 0;
     TDisp (Build_item 0%Z 1 1 MNormal [0]); TInv 1 2 1; TRet 1 2; TDone 1; TFlushE;
     TFire (Build_item 0%Z 3 0 MCancel [0]); TFire (Build_item 0%Z 4 0 MPreStop [0]); TFlushB; TSnap;
     TDisp (Build_item 0%Z 2 98 MNormal [0]); TDone 2;
     TDisp (Build_item 0%Z 3 0 MCancel [0]); TDone 3;
     TDisp (Build_item 0%Z 4 0 MPreStop [0]); TInv 4 1 1; TRaise 4 1; TFire (Build_item 0%Z 5 98 MNormal [0]); TRet 4 1; TDone 4;
     TFlushE].
Proof. vm_compute. reflexivity. Qed.
(* one event on the channels (0, 1): handler 0 (priority 1) listens on channel 0, handler 1 (priority 7) on
   channel 1, handler 2 (priority 5) on both.  All three run once, by priority across the channels, for either
   order of the channels; when handler 1 stops the event nothing else runs *)
Definition mc_tbl (b1 : list (act Z)) : list (nat * list handlerZ) :=
  [(0, [Build_handler 0 1%Z []; Build_handler 1 7%Z b1; Build_handler 2 5%Z []])].
Definition mc_ord : list (nat * nat * list nat) := [(0, 0, [0; 2]); (0, 1, [2; 1])].
Example C02_ex_multichannel :
  invs 0 (trace (runZ (mc_tbl []) mc_ord 100 [AFire 0 0%Z MNormal [0; 1]; AFlush])) = [1; 2; 0] /\
  invs 0 (trace (runZ (mc_tbl []) mc_ord 100 [AFire 0 0%Z MNormal [1; 0]; AFlush])) = [1; 2; 0] /\
  invs 0 (trace (runZ (mc_tbl [AStop]) mc_ord 100 [AFire 0 0%Z MNormal [0; 1]; AFlush])) = [1].
Proof. vm_compute. auto. Qed.
(* the list as circuits computes it (sorted(chain(...)) without de-duplication) names handler 2 twice:
   the defect recorded as finding C02-multichannel-twice *)
Example C02_handlers_once_refuted : exists (tbl : list (nat * list handlerZ)) ord x,
  ~ NoDup (map hid (handlers_raw Z Z.leb (hs_tbl tbl ord) x)).
Proof.
  exists (mc_tbl []), mc_ord, (Build_item 0%Z 0 0 MNormal [0; 1]). vm_compute.
  intro N. inversion N as [|? ? N1 N2]; subst. inversion N2 as [|? ? N3 _]; subst. apply N3. left. reflexivity.
Qed.
(* a burst: 40 events with priorities 0,2,0,2,..., marks at positions 39 (priority -3), 5 (7) and 17 (2), the
   head's handler fires an urgent event (priority -14) during pass 1.  Running the machine and evaluating the
   specification (bucket order for pass 1, the urgent event in pass 2) give the same digest; the dispatch order
   is: the mark 39, the 20 even jobs, the odd jobs 1,3 and 7..37 (with mark 17 among them), mark 5, then urgent *)
Example C02_ex_burst_machine_vs_spec :
  obs_burst 40 [0; 2]%Z [(39, -3); (5, 7); (17, 2)]%Z (Some (-14)%Z) 3 100000 =
  obs_burst_spec 40 [0; 2]%Z [(39, -3); (5, 7); (17, 2)]%Z (Some (-14)%Z) 3 /\
  obs_burst 33 [1; -1; 0]%Z [(32, -2); (0, 5)]%Z None 2 100000 = obs_burst_spec 33 [1; -1; 0]%Z [(32, -2); (0, 5)]%Z None 2.
Proof. vm_compute. auto. Qed.
Example C02_ex_pass_exact_hyps :
  asc Z Z.leb [-3; 0; 2; 7]%Z /\
  covers Z Z.leb [-3; 0; 2; 7]%Z (burst_items 40 [0; 2]%Z [(39, -3); (5, 7); (17, 2)]%Z true).
Proof.
  split.
  - repeat constructor.
  - unfold covers. apply Forall_forall. vm_compute. repeat constructor.
Qed.
