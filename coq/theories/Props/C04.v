(* C04 — handler results, success/failure/exception feedback and error isolation.
   Only statements here; proofs live in Proofs/FeedbackP.v.  The model (Model/Feedback.v) is the
   model of the REPAIRED code (fixes/C04_success_after_failure.patch,
   fixes/C04_generator_raise_finishes.patch, both committed in /repo).
   [reachable s]: s is the state after ANY program (forest of scripted events: any handler shapes,
   flags, channels, nesting) and ANY sequence of dispatcher / task steps; tick()/run() produce
   particular such sequences.  [reachable_plain s]: the same for programs in which no handler returns
   the Value of a nested event (`return self.fire(e)`, [RNest]) — [plain_ev].  For programs WITH such
   handlers the value / errors / success statements are refuted (three open findings, witnesses below);
   what still holds for them is C04_pass_failure_blocks_success. *)
From Coq Require Import List ZArith Bool Arith.
From Circ Require Import Model.Feedback Proofs.FeedbackP.
Import ListNotations.

(* -- results.  [produced (spec s) e (log s)]: what the handlers of e have produced so far, in
   production order, read off the handler-activity log (a plain handler's non-None return value, every
   non-None yield of a generator handler, the error triple PErr for a raise).  At every moment the
   Value holds exactly what Value.setValue makes of that sequence; `result` says whether there is
   one; `errors` is set iff some handler has raised. *)
Theorem C04_value_tracks : forall s e, reachable_plain s -> e < next s ->
  vv (val s e) = accum (produced (spec s) e (log s)) /\
  vresult (val s e) = nonempty (produced (spec s) e (log s)) /\
  verrors (val s e) = (0 <? nraised (spec s) e (log s)).
Proof. exact value_tracks. Qed.
Print Assumptions C04_value_tracks.

(* Full statement (with fixes/C04_list_result.patch: the Value keeps an explicit `_collecting` flag instead of
   testing `isinstance(_value, list)`): the Value holds nothing / the single result stored as such — also
   when that result is itself a list — / the list of the results in production order, and it is
   collecting iff there are several results *)
Theorem C04_value : forall s e, reachable_plain s -> e < next s ->
  vv (val s e) = pack (produced (spec s) e (log s)) /\
  vcoll (val s e) = (match produced (spec s) e (log s) with _ :: _ :: _ => true | _ => false end).
Proof. exact value_packed. Qed.
Print Assumptions C04_value.

Theorem C04_setvalue_pack : forall l, Forall (fun x => is_none x = false) l -> accum l = pack l.
Proof. exact accum_pack. Qed.
Print Assumptions C04_setvalue_pack.

(* the witness of the former finding C04-list-result-merged: handlers returning [1, 2] and then 3 *)
Example C04_list_first_kept :
  let s := exec [LDisp] (start [Ev 1 true false false false SDefault
                                  [HP [] (RRet (PList [PInt 1; PInt 2])); HP [] (RRet (PInt 3))]]) in
  phase s 0 = PFin /\ vv (val s 0) = PList [PList [PInt 1; PInt 2]; PInt 3] /\ vcoll (val s 0) = true.
Proof. vm_compute. auto. Qed.
(* a single list result is stored as such and is not taken for a collection *)
Example C04_single_list_kept :
  let s := exec [LDisp] (start [Ev 1 true false false false SDefault [HP [] (RRet (PList [PInt 1; PInt 2]))]]) in
  vv (val s 0) = PList [PInt 1; PInt 2] /\ vcoll (val s 0) = false.
Proof. vm_compute. auto. Qed.

(* -- feedback.  [count_der k e (log s)]: number of derived events of kind k fired about e.
   One `exception` event per raise; one <name>_failure per raise iff failure feedback was requested. *)
Theorem C04_feedback_counts : forall s e, reachable_plain s -> e < next s ->
  count_der DExc e (log s) = nraised (spec s) e (log s) /\
  count_der DFail e (log s) = (if ev_fail (spec s e) then nraised (spec s) e (log s) else 0).
Proof. exact feedback_counts. Qed.
Print Assumptions C04_feedback_counts.

(* <name>_success is fired exactly once iff the event has passed the _eventDone gate (all its
   generator handlers have ended), asked for it, and no handler raised; otherwise never *)
Theorem C04_success : forall s e, reachable_plain s -> e < next s -> kind s e = KUser ->
  count_der DSucc e (log s) =
  (if is_fin (phase s e) && Nat.eqb (nraised (spec s) e (log s)) 0 && ev_succ (spec s e) then 1 else 0).
Proof. exact success_count. Qed.
Print Assumptions C04_success.

(* ... and only after every handler step of the event: nothing newer in the log is activity of e *)
Theorem C04_success_last : forall s e l1 l2, reachable_plain s -> e < next s -> kind s e = KUser ->
  log s = l1 ++ LFD DSucc e :: l2 -> forall x, In x l1 -> ~ hentry x e.
Proof. exact success_last. Qed.
Print Assumptions C04_success_last.

(* -- isolation / progress.  Whatever raised: once queue and task set are empty, every event ever
   fired (by handlers that raised, by generator steps, feedback events) has been dispatched and has
   passed the _eventDone gate with waitingHandlers = 0 — no event is lost or left hanging *)
Theorem C04_progress : forall s, reachable_plain s -> quiet s = true ->
  forall d, d < next s -> phase s d = PFin /\ waiting s d = 0.
Proof. exact progress. Qed.
Print Assumptions C04_progress.

(* the dispatcher pass of any plain user event (whose Value has no parent Value) in ANY state invokes every plain handler of the event and
   registers every generator handler, whichever of them raise (a raise never ends the handler loop) *)
Theorem C04_dispatch_isolation : forall s e j h,
  e < next s -> kind s e = KUser -> nth_error (ev_hs (spec s e)) j = Some h ->
  vpar s e = None -> plain_ev (spec s e) = true ->
  match h with
  | HP _ _ => In (LH e j) (log (dispatch e s))
  | HG _ _ _ => In {| tev := e; thd := j; tk := 0 |} (tasks (dispatch e s))
  end.
Proof. exact dispatch_runs_all. Qed.
Print Assumptions C04_dispatch_isolation.

(* when an event has passed the _eventDone gate, every one of its handlers has run to its end, whichever
   of them raised: every plain handler was invoked, every segment of every generator handler up to and
   including the one that returns or raises was entered *)
Theorem C04_finished_complete : forall s e i h,
  reachable_plain s -> e < next s -> kind s e = KUser -> phase s e = PFin ->
  nth_error (ev_hs (spec s e)) i = Some h -> handler_finished (log s) e i h.
Proof. exact finished_complete. Qed.
Print Assumptions C04_finished_complete.

(* -- ALL programs, including handlers that return the Value of a nested event.
   If a plain handler of e raises, the dispatcher pass of e fires no <name>_success (of any event),
   whatever the other handlers return: the failure is remembered by the pass itself (`err`), not only
   by the errors flag, which a nested Value can clear *)
Theorem C04_pass_failure_blocks_success : forall s e d,
  kind s e = KUser -> existsb raising (upto_stop (ev_hs (spec s e))) = true ->
  count_der DSucc d (log (dispatch e s)) = count_der DSucc d (log s).
Proof. exact pass_failure_blocks_success. Qed.
Print Assumptions C04_pass_failure_blocks_success.

(* ALL programs: [hpart (log s)] = the handler-activity entries of the log (newest first).  It has no
   duplicates — every plain handler of every event is invoked at most once, every segment of every
   generator handler is entered at most once — and the segments of one generator handler are entered in
   increasing order *)
Theorem C04_each_handler_once : forall s, reachable s ->
  NoDup (hpart (log s)) /\ hordered (hpart (log s)).
Proof. exact each_handler_once. Qed.
Print Assumptions C04_each_handler_once.

(* ALL programs (with the repaired setValue): once a logged handler of an event has raised, the event's
   errors flag is set — whatever Values of nested events its other handlers return *)
Theorem C04_errors_sticky : forall s e, reachable s -> e < next s ->
  0 < nraised (spec s) e (log s) -> verrors (val s e) = true.
Proof. exact errors_sticky. Qed.
Print Assumptions C04_errors_sticky.

(* ... and wherever <e>_success appears in the log, no handler of e had raised before it: success is
   never fired after a failure (from the dispatcher pass or from processTask) *)
Theorem C04_no_success_after_failure : forall s e l1 l2, reachable s ->
  log s = l1 ++ LFD DSucc e :: l2 -> nraised (spec s) e l2 = 0.
Proof. exact no_success_after_failure. Qed.
Print Assumptions C04_no_success_after_failure.

(* The three witnesses of the former findings C04-nested-value-* (setValue copied result/errors from the
   unresolved nested Value) on the model of the code repaired by fixes/C04_nested_value_flags.patch *)
Definition nest_ev : ev := Ev 2 false false false false SDefault [HP [] (RRet (PInt 10))].

(* handlers returning 5, self.fire(x), 7: the event holds [5, <Value of x>, 7] and x's Value holds 10 *)
Example C04_nested_value_kept :
  let s := run 20 [] (start [Ev 1 false false false false SDefault
                               [HP [] (RRet (PInt 5)); HP [] (RNest nest_ev); HP [] (RRet (PInt 7))]]) in
  quiet s = true /\ phase s 0 = PFin /\ vv (val s 0) = pack [PInt 5; PRef 1; PInt 7] /\ vv (val s 1) = PInt 10.
Proof. vm_compute. repeat split; auto. Qed.

(* a raising handler, then `return self.fire(x)`: errors stays True, no success *)
Example C04_nested_errors_kept :
  let s := run 20 [] (start [Ev 1 true true false false SDefault [HP [] RRaise; HP [] (RNest nest_ev)]]) in
  quiet s = true /\ phase s 0 = PFin /\ nraised (spec s) 0 (log s) = 1 /\ verrors (val s 0) = true /\
  count_der DSucc 0 (log s) = 0.
Proof. vm_compute. repeat split; auto. Qed.

(* ... also when a generator handler is pending and the event finishes from processTask *)
Example C04_nested_no_success_after_failure :
  let s := run 20 [[]; [(1, 2)]; [(1, 2)]]
             (start [Ev 1 true true false false SDefault
                       [HP [] RRaise; HP [] (RNest nest_ev); HG [([], PInt 1)] [] false]]) in
  quiet s = true /\ phase s 0 = PFin /\ nraised (spec s) 0 (log s) = 1 /\
  count_der DFail 0 (log s) = 1 /\ count_der DSucc 0 (log s) = 0.
Proof. vm_compute. repeat split; auto. Qed.

(* the kind of exception a handler raises (Exception subclass, BaseException subclass that is not an Exception,
   GeneratorExit — the harness' case parameter `xk`) is ignored by the model: programs that differ only in it
   are the same program, so every theorem above holds for every choice of kinds, for plain handlers and for
   generator handlers at any step *)
Theorem C04_raise_kind_irrelevant : forall k k' ys lk gr,
  RRaiseK k = RRaiseK k' /\ HGK k ys lk gr = HGK k' ys lk gr.
Proof. exact raise_kind_irrelevant. Qed.
Print Assumptions C04_raise_kind_irrelevant.

(* non-vacuity: a raising handler, a generator that yields twice, a generator that raises late,
   success + failure requested; ticks stepping the two tasks in both orders *)
Definition ex_prog : list ev :=
  [Ev 1 true true true true SOther
      [HP [Ev 2 true false false false SDefault [HP [] (RRet (PInt 0))]] RRaise;
       HG [([], PInt 1); ([], PNone); ([], PInt 2)] [] false;
       HG [([], PInt 5)] [] true;
       HP [] (RRet (PInt 7))]].
Definition ex_state : st := run 50 [[]; [(1, 2); (1, 1)]; [(1, 1); (1, 2)]; [(1, 1)]; [(1, 1)]] (start ex_prog).

Example C04_ex_plain : forallb plain_ev ex_prog = true.
Proof. vm_compute. reflexivity. Qed.
Example C04_ex_raising : existsb raising (upto_stop (ev_hs (spec ex_state 0))) = true /\ kind ex_state 0 = KUser.
Proof. vm_compute. auto. Qed.
Example C04_ex_reaches_quiet : quiet ex_state = true /\ next ex_state = 10.
Proof. vm_compute. auto. Qed.
Example C04_ex_value :
  vv (val ex_state 0) = PList [PErr; PInt 7; PInt 5; PInt 1; PErr; PInt 2] /\
  verrors (val ex_state 0) = true /\ nraised (spec ex_state) 0 (log ex_state) = 2 /\
  count_der DExc 0 (log ex_state) = 2 /\ count_der DFail 0 (log ex_state) = 2 /\
  count_der DSucc 0 (log ex_state) = 0 /\ count_der DSucc 1 (log ex_state) = 1.
Proof. vm_compute. repeat split; reflexivity. Qed.
Example C04_ex_finished : phase ex_state 0 = PFin /\ phase ex_state 1 = PFin /\ kind ex_state 0 = KUser.
Proof. vm_compute. auto. Qed.
