(* C04 — handler results, success/failure/exception feedback and error isolation.
   Only statements here; proofs live in Proofs/FeedbackP.v. *)
From Coq Require Import List ZArith Bool Arith.
From Circ Require Import Model.Feedback Proofs.FeedbackP.
Import ListNotations.

Theorem C04_setvalue_pack : forall l,
  (match l with x :: _ :: _ => is_list x = false | _ => True end) -> accum l = pack l.
Proof. exact accum_pack. Qed.
Print Assumptions C04_setvalue_pack.
