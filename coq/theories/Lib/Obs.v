(* Universal observable type used by the correspondence check: what the model
   computes and what the implementation was observed to do are both encoded
   into [T] and compared with [T_eqb] inside Coq by vm_compute. *)
From Coq Require Import List ZArith NArith Bool.
Import ListNotations.

Inductive T := Tn (z : Z) | Tl (l : list T).

Fixpoint T_eqb (a b : T) {struct a} : bool :=
  match a, b with
  | Tn x, Tn y => Z.eqb x y
  | Tl l, Tl m =>
      (fix go (l : list T) (m : list T) {struct l} : bool :=
         match l, m with
         | [], [] => true
         | x :: l', y :: m' => T_eqb x y && go l' m'
         | _, _ => false
         end) l m
  | _, _ => false
  end.

Definition Tb (l : list N) : T := Tl (map (fun n => Tn (Z.of_N n)) l).
Definition Tnat (n : nat) : T := Tn (Z.of_nat n).
Definition TN (n : N) : T := Tn (Z.of_N n).
Definition Tbool (b : bool) : T := Tn (if b then 1 else 0)%Z.
Definition Topt {A} (f : A -> T) (o : option A) : T :=
  match o with None => Tl [] | Some a => Tl [f a] end.
Definition Tlist {A} (f : A -> T) (l : list A) : T := Tl (map f l).
Definition Tpair (a b : T) : T := Tl [a; b].

(* indices of the cases on which model and implementation differ *)
Fixpoint mismatches (i : nat) (cs : list (T * T)) : list nat :=
  match cs with
  | [] => []
  | (m, o) :: r => if T_eqb m o then mismatches (S i) r else i :: mismatches (S i) r
  end.

(* a pattern repeated: lets the harness describe large payloads compactly *)
Fixpoint rep {A} (n : nat) (l : list A) : list A :=
  match n with O => [] | S k => l ++ rep k l end.
